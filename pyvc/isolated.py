"""Run ONE task in a fresh interpreter (python -m pyvc.isolated < pickled task > pickled result).

Nonlinear obligations are sensitive to the solver's global state: the same obligation that takes 0.03 s in a fresh process may not end in a
worker that has discharged hundreds of other obligations before (term numbering differs).  Tasks flagged `isolate` are therefore run in
their own process."""
import pickle
import sys


def main():
    task = pickle.loads(sys.stdin.buffer.read())
    task = dict(task)
    task.pop('isolate', None)
    from pyvc.runner import _run_task
    out = _run_task(task)
    sys.stdout.buffer.write(b'\n==PYVC-RESULT==\n' + pickle.dumps(out))


if __name__ == '__main__':
    main()

"""Modular verification of the `State` cascade against ONE state invariant.

Every function of the cascade (public operations, `_begin_X`, `_update_X`, `_end_X`) has the contract

        requires INV(s) [and its own extra precondition]        ensures INV(s)

and is verified on its own: at every call of another cascade function the callee's precondition is an
obligation at the call site, the callee's body is NOT entered -- the callee's frame (every
non-configuration field) is havocked and its postcondition assumed.  The automation loops
`while <pending>: self.X()` are cut by the loop invariant INV (checked on entry, assumed at an arbitrary
iteration, re-established by the body, assumed with the negated guard after the loop); termination of
these loops is C07's ranking-function obligation, not part of partial correctness.
"""
from __future__ import annotations

import ast

from .values import *  # noqa
from .values import And_, Not_, concrete_bool, simp
from .core import Exit
from .vc import Obligation
from .cuts import havoc_state, CONFIG_FIELDS
from . import contract as C

Q = 'pokerkit.state.State.'

PUBLIC_OPS = ['post_ante', 'collect_bets', 'post_blind_or_straddle', 'burn_card', 'deal_hole', 'deal_board',
              'stand_pat_or_discard', 'fold', 'check_or_call', 'post_bring_in', 'complete_bet_or_raise_to',
              'select_runout_count', 'show_or_muck_hole_cards', 'kill_hand', 'push_chips', 'pull_chips']
PHASES = ['ante_posting', 'bet_collection', 'blind_or_straddle_posting', 'dealing', 'betting', 'showdown',
          'hand_killing', 'chips_pushing', 'chips_pulling']
STEPS = [f'_{k}_{p}' for p in PHASES for k in ('begin', 'update', 'end')]
CASCADE = PUBLIC_OPS + STEPS + ['_begin', '_end']


def site_id(vc, what, callee, counter):
    k = counter.get((what, callee), 0)
    counter[(what, callee)] = k + 1
    return f'{what}-{callee}' + (f'#{k}' if k else '')


def add_clause_obligation(vc, ctx, clause, bindings, oid_name, kind='P', prop=None, path='', extra_meta=None):
    t, sub, defs = vc.eval_clause(clause, ctx, bindings)
    meta = {'clause': C.clause_source_name(vc.ccls, clause), 'path': path}
    if getattr(vc, 'after_loop_cut', False):
        meta['after_loop_cut'] = True       # the state here went through an arbitrary-iteration havoc: a native run cannot be asked to reproduce it
    meta.update(extra_meta or {})
    vc.add(Obligation(vc.oid(oid_name), kind, And_(ctx.pc, *defs), t, prop or vc.prop, meta=meta))
    return t


def assume_clause(vc, ctx, clause, bindings):
    t, sub, defs = vc.eval_clause(clause, ctx, bindings)
    for d in defs:
        ctx.assume(d)
    ctx.assume(t)


def contract_cut(vc, shape, pre=('inv',), post=('inv',), keep=CONFIG_FIELDS, counter=None, result=None, kind='P'):
    """callee under the cascade contract: prove every component of `pre` at the call (one obligation
    each), havoc the callee's frame, assume every component of `post`"""
    counter = {} if counter is None else counter

    def cut(I, ctx, fn, args, kwargs, node):
        name = fn.qual.rsplit('.', 1)[-1]
        b = dict(vc.bindings)
        b['s'] = args[0]
        k = counter.get(('call', name), 0)
        counter[('call', name)] = k + 1
        for comp in pre:
            add_clause_obligation(vc, ctx, comp, b, f'{comp}-at-call-{name}' + (f'#{k}' if k else ''), kind=kind,
                                  path=f'call:{fn.qual}@{getattr(node, "lineno", "?")}',
                                  extra_meta={'callee': fn.qual, 'component': comp})
        if ('alias', name) not in vc.probed:
            vc.probed.add(('alias', name))
            vc.alias_obligation(ctx, 'call-' + name)
        havoc_state(I, ctx, args[0], shape, keep, logged=1 if (len(args) > 1 and args[1] is not None and not isinstance(args[1], Choice) and fn.qual.rsplit('.', 1)[-1].startswith('_update_')) else 0)
        for comp in post:
            assume_clause(vc, ctx, comp, b)
        return result(I, ctx, fn, args, kwargs, node) if result is not None else Opaque('result-of-' + name)
    cut._havoc = True
    cut._contract = (pre, post)
    return cut


def loop_cut(vc, shape, inv=('inv',), keep=CONFIG_FIELDS, counter=None, kind='P'):
    """`while c: body` under the loop invariant `inv` (a list of components; partial correctness):
         obligations inv           at loop entry
         havoc, assume inv         (an arbitrary iteration)
         if c: body; obligations inv at the end of the body; path ends (covered by induction)
         else: continue after the loop with inv and not c"""
    counter = {} if counter is None else counter

    def run(I, st, ctx, env):
        s = vc.bindings['s']
        b = dict(vc.bindings)
        line = getattr(st, 'lineno', '?')
        k = counter.get('loops', 0)
        counter['loops'] = k + 1
        for comp in inv:
            add_clause_obligation(vc, ctx, comp, b, f'{comp}-at-entry-of-loop{k}', kind=kind, path=f'loop-entry@{line}',
                                  extra_meta={'component': comp})
        havoc_state(I, ctx, s, shape, keep)
        vc.after_loop_cut = True
        for comp in inv:
            assume_clause(vc, ctx, comp, b)
        c = I.truth(I.eval(st.test, ctx, env), ctx)
        c = simp(c) if isinstance(c, z3.ExprRef) else c
        body = ctx.fork(c)
        if not body.dead:
            benv = dict(env)
            saved = body.exits
            body.exits = []
            I.exec_block(st.body, body, benv)
            for e in body.exits:
                if e.kind in ('break', 'continue'):
                    raise PyvcUnsupported('break/continue inside a loop cut by an invariant')
                ctx.exits.append(e)
            body.exits = saved
            if not body.dead:
                for comp in inv:
                    add_clause_obligation(vc, body, comp, b, f'{comp}-kept-by-body-of-loop{k}', kind=kind,
                                          path=f'loop-body@{line}', extra_meta={'component': comp})
        ctx.assume(Not_(c))
        vc.after_loop_cut = True
    return run


def while_nodes(src, qual):
    f = src.func(qual)
    return [n for n in ast.walk(f.node) if isinstance(n, ast.While)]


def install(vc, shape, table, own, loop_inv, extra_cuts=None, keep=CONFIG_FIELDS, kind='P', callee_extra_pre=None, loop_inv_extra=None):
    """contract cuts for every function of `table` (name -> (pre components, post components)), loop cuts
    (invariant `loop_inv`) for the `while` loops of the function under verification, and one obligation
    per postcondition component of `own` at its normal exit"""
    counter = {}
    cuts = {}
    for name, (pre, post) in table.items():
        # an operation that the cascade performs on the players' behalf must find its own verifier satisfied
        pre = tuple(pre) + tuple((callee_extra_pre or {}).get(name, ()))
        cuts[Q + name] = contract_cut(vc, shape, pre=pre, post=post, keep=keep, counter=counter, kind=kind)
    cuts.update(extra_cuts or {})
    vc.I.cuts.update(cuts)
    tbl = getattr(vc.I, 'loop_cuts', None)
    if tbl is None:
        tbl = vc.I.loop_cuts = {}
    nodes = sorted(while_nodes(vc.src, Q + own), key=lambda n: n.lineno)
    for k, node in enumerate(nodes):
        extra = tuple((loop_inv_extra or [])[k]) if loop_inv_extra and k < len(loop_inv_extra) else ()
        tbl[id(node)] = loop_cut(vc, shape, inv=tuple(loop_inv) + extra, keep=keep, counter=counter, kind=kind)
    post = table[own][1]

    def at_exit(vc_, ctx):
        for comp in post:
            add_clause_obligation(vc_, ctx, comp, vc_.bindings, f'{comp}-at-exit', kind=kind, path='normal',
                                  extra_meta={'component': comp})
    vc.on_normal_exit = at_exit
    return cuts

"""Obligations and their discharge (z3 python API first; cvc5 / z3-4.8 CLI as second opinions)."""
from __future__ import annotations

import os
import re
import subprocess
import tempfile
import time
import z3

from .values import And_, Not_, Implies_, concrete_bool, zbool

VALID, REFUTED, UNKNOWN = 'valid', 'refuted', 'unknown'
SCALE = float(os.environ.get('PYVC_TIMEOUT_SCALE', '3'))


class Obligation:
    """`hyp -> goal` must be valid.  kind: P | A | safety | raises | frame | canary | cover.
    canary: expect REFUTED (engine soundness guard).  cover: expect hyp /\\ goal satisfiable."""

    def __init__(self, oid, kind, hyp, goal, prop=None, label='D/shape', meta=None):
        self.id = oid
        self.kind = kind
        self.hyp = hyp
        self.goal = goal
        self.prop = prop
        self.label = label
        self.meta = meta or {}

    def negation(self):
        if self.kind == 'cover':
            return zbool(And_(self.hyp, self.goal))
        return zbool(And_(self.hyp, Not_(self.goal)))


def smt2_of(formula):
    s = z3.Solver()
    s.add(formula)
    return s.to_smt2()


def run_cli(cmd, text, timeout_s):
    with tempfile.NamedTemporaryFile('w', suffix='.smt2', delete=False, dir=os.environ.get('PYVC_TMP', None)) as f:
        f.write(text)
        path = f.name
    try:
        out = subprocess.run(cmd + [path], capture_output=True, text=True, timeout=timeout_s + 5)
        first = (out.stdout.strip().splitlines() or ['unknown'])[0].strip()
        return first if first in ('sat', 'unsat') else 'unknown'
    except Exception:
        return 'unknown'
    finally:
        try:
            os.unlink(path)
        except OSError:
            pass


def linearize(formula):
    """Products of two unknowns replaced by fresh variables constrained by facts every product satisfies (signs; a fraction of a
    non-negative amount is at most that amount; zero factors).  If the result is unsatisfiable so is `formula`: a model of `formula` extends to
    one of the result by giving each fresh variable the value of its product.  (The converse does not hold: `sat` here proves nothing.)"""
    cache, table, lemmas = {}, {}, []

    def to_real(t):
        return z3.ToReal(t) if t.is_int() else t

    def walk(t):
        k = t.get_id()
        if k in cache:
            return cache[k]
        if z3.is_app(t) and t.num_args() > 0:
            args = [walk(a) for a in t.children()]
            if z3.is_mul(t):
                syms = [a for a in args if not (z3.is_int_value(a) or z3.is_rational_value(a) or z3.is_algebraic_value(a))]
                if len(syms) >= 2:
                    consts = [a for a in args if a not in syms]
                    acc = syms[0]
                    for nxt in syms[1:]:
                        key = (acc.get_id(), nxt.get_id())
                        if key not in table:
                            both_int = acc.is_int() and nxt.is_int()
                            p = z3.FreshInt('prod') if both_int else z3.FreshReal('prod')
                            x, y, pr = to_real(acc), to_real(nxt), to_real(p)
                            lemmas.append(z3.And(
                                z3.Implies(z3.And(x >= 0, y >= 0), pr >= 0), z3.Implies(z3.And(x <= 0, y <= 0), pr >= 0),
                                z3.Implies(z3.And(x >= 0, y <= 0), pr <= 0), z3.Implies(z3.And(x <= 0, y >= 0), pr <= 0),
                                z3.Implies(z3.Or(x == 0, y == 0), pr == 0),
                                z3.Implies(z3.And(x >= 0, y >= 0, y <= 1), pr <= x), z3.Implies(z3.And(x >= 0, y >= 0, x <= 1), pr <= y),
                                z3.Implies(z3.And(x >= 0, y >= 1), pr >= x), z3.Implies(z3.And(y >= 0, x >= 1), pr >= y),
                                z3.Implies(x == 1, pr == y), z3.Implies(y == 1, pr == x)))
                            table[key] = p
                        p = table[key]
                        if acc.is_int() and nxt.is_int():
                            acc = p
                        else:
                            acc = to_real(p) if p.is_int() else p
                    out = acc
                    for c in consts:
                        if out.is_int() and not c.is_int():
                            out = z3.ToReal(out)
                        if c.is_int() and not out.is_int():
                            c = z3.ToReal(c)
                        out = c * out
                    if out.sort() != t.sort():
                        out = z3.ToReal(out) if t.is_real() else out
                    cache[k] = out
                    return out
            try:
                r = t.decl()(*args) if not z3.is_quantifier(t) else t
            except Exception:   # noqa  (sort mismatch after a rewrite: keep the original sub-term)
                r = t
            cache[k] = r
            return r
        cache[k] = t
        return t
    f2 = walk(formula)
    if not table:
        return None
    return z3.And(f2, *lemmas)


def goal_conjuncts(hyp, goal):
    """(hyp', [g1..gk]) with  hyp -> goal  ==  hyp' -> (g1 and ... and gk)   (implications pushed into the hypothesis, top-level
    conjunctions flattened)"""
    goal = zbool(goal)
    while z3.is_implies(goal):
        hyp = And_(hyp, goal.arg(0))
        goal = goal.arg(1)
    out = []

    def flat(g):
        if z3.is_and(g):
            for c in g.children():
                flat(c)
        else:
            out.append(g)
    flat(goal)
    return hyp, out


def discharge_split(ob, timeout_ms, want_model=True):
    """second line for an obligation the solvers leave open: prove the conjuncts of the goal one by one (each under the whole
    hypothesis).  All valid -> valid; one refuted -> refuted (its model falsifies the whole goal); otherwise unknown."""
    hyp, parts = goal_conjuncts(ob.hyp, ob.goal)
    if len(parts) < 2:
        return None
    model = None
    for k, g in enumerate(parts):
        sub = Obligation(f'{ob.id}#part{k}', ob.kind, hyp, g, ob.prop, ob.label, ob.meta)
        r = discharge(sub, timeout_ms / SCALE, second_opinion=True, want_model=want_model, split=False)
        if r['status'] == REFUTED:
            return {'status': REFUTED, 'backend': r['backend'] + f'+split({k + 1}/{len(parts)})', 'model': r['model']}
        if r['status'] != VALID:
            return {'status': UNKNOWN, 'backend': r['backend'] + f'+split({k + 1}/{len(parts)})', 'model': None}
    return {'status': VALID, 'backend': f'z3-5.1(py)+split({len(parts)})', 'model': None}


def discharge(ob, timeout_ms=10000, second_opinion=True, want_model=True, split=True):
    """returns dict(status, backend, seconds, model) -- status in valid/refuted/unknown
    (for covers: 'valid' means satisfiable as required)"""
    t0 = time.time()
    # head-room: the budgets in the drivers were sized on an idle machine; verdicts must not flip to `unknown` when all cores are busy
    timeout_ms = int(timeout_ms * SCALE)
    neg = ob.negation()
    cb = concrete_bool(z3.simplify(neg))
    backend = 'z3-5.1(py)'
    model = None
    if cb is False:
        res = 'unsat'
        backend = 'simplifier'
    elif cb is True:
        res = 'sat'
        backend = 'simplifier'
        if want_model:
            s = z3.Solver(); s.add(neg); s.check(); model = s.model()
    else:
        s = z3.Solver()
        s.set('timeout', int(timeout_ms))
        s.add(neg)
        r = s.check()
        res = 'sat' if r == z3.sat else ('unsat' if r == z3.unsat else 'unknown')
        if res == 'sat' and want_model:
            model = s.model()
        if res == 'unknown':
            # nonlinear arithmetic is erratic (the same obligation: 0.03 s or no answer, depending on term order): try the product-free
            # over-approximation, whose `unsat` carries over
            try:
                lin = linearize(neg)
            except Exception:   # noqa
                lin = None
            if lin is not None:
                s2 = z3.SolverFor('QF_LIRA')         # (the default strategy has been seen to give up on this linear problem)
                s2.set('timeout', min(int(timeout_ms), 15000))
                s2.add(lin)
                if s2.check() == z3.unsat:
                    res, backend = 'unsat', 'z3-5.1(py)+products-abstracted'
        if res == 'unknown' and second_opinion:
            text = smt2_of(neg)
            tl = max(1, int(timeout_ms / 1000))
            for name, cmd in (('cvc5-1.0.3', ['/usr/bin/cvc5', f'--tlimit={tl * 1000}']),
                              ('z3-4.8.12', ['/usr/bin/z3', f'-T:{tl}'])):
                if not os.path.exists(cmd[0]):
                    continue
                r2 = run_cli(cmd, text, tl)
                if r2 in ('sat', 'unsat'):
                    res, backend = r2, name
                    break
    if res == 'unknown' and os.environ.get('PYVC_DUMP_UNKNOWN'):
        try:
            open(os.path.join(os.environ['PYVC_DUMP_UNKNOWN'], re.sub(r'[^A-Za-z0-9_.-]+', '_', ob.id)[:120] + '.smt2'), 'w').write(smt2_of(neg))
        except Exception:   # noqa
            pass
    if res == 'unknown' and split and ob.kind not in ('cover', 'canary'):
        r3 = discharge_split(ob, timeout_ms, want_model)
        if r3 is not None and r3['status'] != UNKNOWN:
            return {'status': r3['status'], 'backend': r3['backend'], 'seconds': round(time.time() - t0, 4), 'model': r3['model']}
    secs = time.time() - t0
    if ob.kind == 'cover':
        status = VALID if res == 'sat' else (REFUTED if res == 'unsat' else UNKNOWN)
    else:
        status = VALID if res == 'unsat' else (REFUTED if res == 'sat' else UNKNOWN)
    return {'status': status, 'backend': backend, 'seconds': round(secs, 4), 'model': model}

"""Run-time guard: the precondition components of the contracts are evaluated NATIVELY on real hands.

The proofs assume each function's precondition components at entry.  If real states violated one of
them, the proofs would say nothing about those states (vacuity) -- so every check that uses the cascade
contracts plays random hands on the real engine (all predefined variants, random automation subsets,
both modes, short stacks, several boards, explicit mucks, cash-game folds) with every function of the
contract table wrapped: the precondition components are evaluated at every entry, the postcondition
components at every normal exit (nested, automated calls included).  A failing component is a checker
error (exit 3), never a verdict.  This is not part of the proof.
"""
from __future__ import annotations

import collections
import functools
import random
import time
import warnings


def make_state(rng, pk, explicit=False):
    A = pk.Automation
    ALL = tuple(A)
    autos = tuple(a for a in ALL if rng.random() < 0.6)
    if (A.HOLE_DEALING in autos or A.BOARD_DEALING in autos) and A.CARD_BURNING not in autos:
        autos += (A.CARD_BURNING,)       # dealing automated without burning trips defect F5 (a C07 matter)
    n = rng.choice([2, 2, 3, 3, 4, 5, 6])
    stacks = [rng.choice([1, 2, 3, 5, 8, 13, 20, 50, 200]) for _ in range(n)]
    mode = rng.choice(list(pk.Mode))
    trim = rng.random() < .5
    ante = rng.choice([0, 0, 1, 3])
    b = rng.choice([1, 1, 2])
    bl = rng.choice([(1, 2), (1, 2), (2, 4), (0, 2), (1, 2, 4), {0: 1, 1: 2, -1: -2}])
    if isinstance(bl, tuple) and len(bl) > n:
        bl = (1, 2)
    kind = rng.choice(['NT', 'NS', 'F7S', 'F7S8', 'FR', 'FB', 'PO', 'FO8', 'N2L1D', 'F2L3D', 'FT', 'NG'])
    kw = dict(mode=mode, starting_board_count=b)
    kw1 = dict(mode=mode)
    f = {
        'NT': lambda: pk.NoLimitTexasHoldem.create_state(autos, trim, ante, bl, 2, stacks, n, **kw),
        'NS': lambda: pk.NoLimitShortDeckHoldem.create_state(autos, trim, max(ante, 1), {-1: 2}, 2, stacks, n, **kw),
        'FT': lambda: pk.FixedLimitTexasHoldem.create_state(autos, trim, ante, bl, 2, 4, stacks, n, **kw),
        'PO': lambda: pk.PotLimitOmahaHoldem.create_state(autos, trim, ante, bl, 2, stacks, n, **kw),
        'NG': lambda: pk.NoLimitGreekHoldem.create_state(autos, trim, ante, bl, 2, stacks, n, **kw) if hasattr(pk, 'NoLimitGreekHoldem')
        else pk.NoLimitTexasHoldem.create_state(autos, trim, ante, bl, 2, stacks, n, **kw),
        'FO8': lambda: pk.FixedLimitOmahaHoldemHighLowSplitEightOrBetter.create_state(autos, trim, ante, bl, 2, 4, stacks, n, **kw),
        'F7S': lambda: pk.FixedLimitSevenCardStud.create_state(autos, trim, max(ante, 1), 1, 2, 4, stacks, n, **kw1),
        'F7S8': lambda: pk.FixedLimitSevenCardStudHighLowSplitEightOrBetter.create_state(autos, trim, max(ante, 1), 1, 2, 4, stacks, n, **kw1),
        'FR': lambda: pk.FixedLimitRazz.create_state(autos, trim, max(ante, 1), 1, 2, 4, stacks, n, **kw1),
        'FB': lambda: pk.FixedLimitBadugi.create_state(autos, trim, ante, bl, 2, 4, stacks, n, **kw1),
        'N2L1D': lambda: pk.NoLimitDeuceToSevenLowballSingleDraw.create_state(autos, trim, ante, bl, 2, stacks, n, **kw1),
        'F2L3D': lambda: pk.FixedLimitDeuceToSevenLowballTripleDraw.create_state(autos, trim, ante, bl, 2, 4, stacks, n, **kw1),
    }[kind]
    return kind, f


def legal_ops(s, rng, wild):
    ops = []
    if s.can_post_ante():
        ops.append(lambda: s.post_ante(rng.choice(list(s.ante_poster_indices))))
    if s.can_collect_bets():
        ops.append(s.collect_bets)
    if s.can_post_blind_or_straddle():
        ops.append(lambda: s.post_blind_or_straddle(rng.choice(list(s.blind_or_straddle_poster_indices))))
    if s.can_burn_card():
        ops.append(s.burn_card)
    if s.can_deal_hole():
        ops.append(s.deal_hole)
    if s.can_deal_board():
        ops.append(s.deal_board)
    if s.can_stand_pat_or_discard():
        hc = s.hole_cards[s.stander_pat_or_discarder_index]
        ops.append(lambda: s.stand_pat_or_discard(rng.sample(hc, rng.randint(0, len(hc)))))
    if s.can_fold() and (wild or s.bets[s.actor_index] < max(s.bets)):
        ops.append(s.fold)
    if s.can_check_or_call():
        ops += [s.check_or_call] * 2
    if s.can_post_bring_in():
        ops.append(s.post_bring_in)
    if s.can_complete_bet_or_raise_to():
        lo, hi = s.min_completion_betting_or_raising_to_amount, s.max_completion_betting_or_raising_to_amount
        ops.append(lambda: s.complete_bet_or_raise_to(rng.choice([lo, hi, rng.randint(lo, hi)])))
    if any(s.runout_count_selector_statuses):
        ops.append(lambda: s.select_runout_count(rng.choice([None, 1, 2, 2, 3])))
    if s.can_show_or_muck_hole_cards():
        ops.append(s.show_or_muck_hole_cards)
        if wild and s.can_show_or_muck_hole_cards(False) and sum(s.statuses) > 1:
            ops.append(lambda: s.show_or_muck_hole_cards(False))
    if s.can_kill_hand():
        ops.append(lambda: s.kill_hand(rng.choice(list(s.hand_killing_indices))))
    if s.can_push_chips():
        ops.append(s.push_chips)
    if s.can_pull_chips():
        ops.append(lambda: s.pull_chips(rng.choice(list(s.chips_pulling_indices))))
    return ops


def play(hands, seed, table, components, budget_s=20.0, wild_fraction=0.3):
    """returns dict(boundaries, failures: {(component, where): count}, examples, hands, ops, crashes)"""
    import pokerkit as pk
    from pokerkit.state import State
    warnings.simplefilter('ignore')
    failures = collections.Counter()
    examples = {}
    counts = collections.Counter()
    originals = {}

    def check(s, comps, where):
        for c in comps:
            counts['evaluations'] += 1
            try:
                ok = bool(components[c](s))
            except Exception as e:   # noqa
                ok = False
                examples.setdefault((c, where), f'raised {type(e).__name__}: {e}')
            if not ok:
                failures[(c, where)] += 1
                examples.setdefault((c, where), f'stacks={s.stacks} bets={s.bets} payoffs={s.payoffs} statuses={s.statuses} '
                                    f'street={s.street_index} pots={s._pots} ops={len(s.operations)}')

    def wrap(name, pre, post):
        f = getattr(State, name)
        originals[name] = f

        @functools.wraps(f)
        def g(self, *a, **k):
            check(self, pre, f'entry of {name}')
            counts['boundaries'] += 1
            r = f(self, *a, **k)
            check(self, post, f'exit of {name}')
            return r
        setattr(State, name, g)
    for name, (pre, post) in table.items():
        if hasattr(State, name):
            wrap(name, pre, post)
    t0 = time.time()
    crashes = collections.Counter()
    done = 0
    ops_total = 0
    try:
        for h in range(hands):
            if time.time() - t0 > budget_s:
                break
            rng = random.Random(seed * 1000003 + h)
            kind, f = make_state(rng, pk)
            wild = rng.random() < wild_fraction
            try:
                s = f()
            except Exception as e:   # noqa  (constructor crashes are C07's subject)
                crashes[(kind, 'ctor', type(e).__name__)] += 1
                continue
            steps = 0
            while s.status and steps < 400:
                ops = legal_ops(s, rng, wild)
                if not ops:
                    crashes[(kind, 'stuck')] += 1
                    break
                try:
                    rng.choice(ops)()
                except Exception as e:   # noqa
                    crashes[(kind, 'op', type(e).__name__)] += 1
                    break
                steps += 1
            ops_total += len(s.operations)
            done += 1
    finally:
        for name, f in originals.items():
            setattr(State, name, f)
    return {'hands': done, 'operations': ops_total, 'boundaries': counts['boundaries'], 'evaluations': counts['evaluations'],
            'failures': {f'{c} at {w}': k for (c, w), k in failures.items()},
            'examples': {f'{c} at {w}': v for (c, w), v in list(examples.items())[:8]},
            'crashes_part_way (C07 subject, not judged here)': {str(k): v for k, v in crashes.items()},
            'seconds': round(time.time() - t0, 2)}


def guard_task(task):
    """task: module (with TABLE and the component functions), hands, seed, budget_s, prop"""
    import importlib
    mod = importlib.import_module(task['table_module'])
    comps = {k: v for k, v in vars(mod).items() if callable(v)}
    if task.get('table_module') == 'contracts.flow':
        import contracts.engine as E0
        comps = dict({k: v for k, v in vars(E0).items() if callable(v)}, **comps)
    out = play(task.get('hands', 300), task.get('seed', 0), getattr(mod, task.get('table_name', 'TABLE')), comps,
               budget_s=task.get('budget_s', 20.0), wild_fraction=task.get('wild_fraction', 0.3))
    ok = not out['failures'] and out['boundaries'] > 0
    return {'results': [{'id': f"{task['prop']}/native-guard/precondition-components-hold-on-real-hands", 'kind': 'guard', 'prop': task['prop'],
                         'label': 'native', 'status': 'valid' if ok else 'refuted', 'backend': 'CPython', 'seconds': out['seconds'],
                         'detail': out, 'meta': {}}], 'contract': None}

"""Sidecar contract declarations.

A contract file is ordinary Python.  It is (a) imported natively -- the clause functions then run on
real `State` objects (replay, run-time monitors) -- and (b) parsed by pyvc, which executes the very
same clause functions symbolically.  Nothing here depends on z3, so contract modules import under the
test-suite interpreter too.

    @contract('pokerkit.state.State.post_ante')
    class post_ante:
        args = {'player_index': OptIndex()}
        def requires(s, player_index): ...
        raises = {ValueError: 'refused'}            # name of the clause function giving the exact condition
        def refused(s, player_index): ...
        @P('C01')
        def moves_ante(old, s, r, player_index): ...
        @A
        def keeps_inv(old, s, r, player_index): ...
"""
from __future__ import annotations

REGISTRY = {}          # (property or None, qualname) -> contract class


class ArgSpec:
    """how to make a symbolic argument"""
    kind = 'value'

    def __init__(self, **kw):
        self.__dict__.update(kw)


class OptIndex(ArgSpec):
    """None or a player index 0..n-1"""
    kind = 'opt_index'


class Index(ArgSpec):
    kind = 'index'


class OptInt(ArgSpec):
    """None or any integer"""
    kind = 'opt_int'


class Int(ArgSpec):
    kind = 'int'


class Chips(ArgSpec):
    kind = 'chips'


class OptChips(ArgSpec):
    kind = 'opt_chips'


class Bool(ArgSpec):
    kind = 'bool'


class Cards(ArgSpec):
    """tuple of up to `cap` cards (any cards: known, unknown, foreign)"""
    kind = 'cards'
    cap = 2


class OptCardsOrInt(ArgSpec):
    """None | int | tuple of cards   (dealing operations)"""
    kind = 'opt_cards_or_int'
    cap = 2


class Const(ArgSpec):
    kind = 'const'


def contract(qualname, prop=None):
    def deco(cls):
        cls.target = qualname
        cls.prop = prop
        REGISTRY[(prop, qualname)] = cls
        clauses = []
        seen = set()
        for klass in cls.__mro__:
            for name, f in list(vars(klass).items()):
                if isinstance(f, staticmethod):
                    f = f.__func__
                if name in seen or not callable(f) or isinstance(f, type):
                    continue
                seen.add(name)
                if hasattr(f, '_clause'):
                    clauses.append((name, f))
        for klass in cls.__mro__:
            if klass is object:
                continue
            for name, f in list(vars(klass).items()):
                if callable(f) and not isinstance(f, (type, staticmethod, classmethod)) and not name.startswith('__'):
                    # plain functions in a class body: static, so that natively `cls.f(...)` works
                    setattr(klass, name, staticmethod(f))
        cls.clauses = clauses
        return cls
    return deco


def clause_source_name(cls, name):
    """module-qualified name of the function that defines clause `name` (searching the MRO)"""
    for klass in cls.__mro__:
        if name in vars(klass):
            f = vars(klass)[name]
            if isinstance(f, staticmethod):
                f = f.__func__
            return f'{f.__module__}.{f.__qualname__}'
    raise KeyError(name)


def P(prop, note=''):
    """property-carrying clause: its text comes from the property statement"""
    def deco(f):
        f._clause = ('P', prop, note)
        return f
    return deco


def A(f=None, note=''):
    """auxiliary clause (invariant preservation, frames, callee preconditions, ranking)"""
    def deco(fn):
        fn._clause = ('A', None, note)
        return fn
    if f is not None:
        return deco(f)
    return deco

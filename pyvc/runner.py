"""Per-property check driver: runs tasks on a process pool, replays counter-models on the real
code, matches known findings, writes evidence, decides the exit code.

exit 0  every obligation discharged (or matched a listed known finding)
exit 1  VIOLATION printed (refuted obligation, confirmed by native replay or with no-failing-input-found)
exit 2  undecided (unknown / timeout in all back ends)          -- never printed as a violation
exit 3  checker error (unsupported construct, crash, proved canary, unsat cover, replay disagrees)
"""
from __future__ import annotations

import hashlib
import json
import multiprocessing as mp
import os
import re
import subprocess
import sys
import time
import traceback

ROOT = os.path.dirname(os.path.dirname(os.path.abspath(__file__)))
OUT = os.environ.get('PYVC_OUT') or ROOT          # where evidence/ and replay/ are written (seed tests redirect it)
REPO = os.environ.get('PYVC_REPO', '/repo')
NATIVE_PY = os.environ.get('PYVC_NATIVE_PY', '/venv/bin/python')

TRUSTED_BASE = [
    'pyvc encoding of Python semantics (interpreter + builtin/container models in /verif/pyvc), cross-checked '
    'against CPython by the conformance run but not proved',
    'z3 5.1.0 (python API); cvc5 1.0.3 and z3 4.8.12 as second opinions on unknowns',
    'Python int modelled as mathematical integers (exact); chips of type float/Decimal treated as mathematical',
    'extraction drops docstrings, type annotations, f-string texts (opaque atoms), cast() type arguments',
    'argument types are the documented ones (player indices within 0..n-1, counts are ints, cards are Card objects)',
]

_SRC = None


def source(extra):
    global _SRC
    from .source import SourceTable
    if _SRC is None:
        _SRC = SourceTable(extra_modules=extra)
    else:
        for m in extra:
            if m not in _SRC.modules:
                _SRC.load(m)
    return _SRC


def _run_task(task):
    t0 = time.time()
    if task.get('isolate'):
        import pickle
        try:
            p = subprocess.run([sys.executable, '-m', 'pyvc.isolated'], input=pickle.dumps(task), capture_output=True, timeout=3600,
                               env=dict(os.environ, PYTHONPATH=f'{REPO}:{ROOT}'), cwd=ROOT)
            blob = p.stdout.split(b'\n==PYVC-RESULT==\n', 1)
            if len(blob) == 2:
                out = pickle.loads(blob[1])
                out['wall_s'] = round(time.time() - t0, 3)
                return out
            return {'task': task.get('name', task['fn']), 'error': 'crash: isolated task gave no result: ' + p.stderr.decode(errors='replace')[-800:],
                    'results': [], 'wall_s': round(time.time() - t0, 3)}
        except Exception:   # noqa
            return {'task': task.get('name', task['fn']), 'error': 'crash: ' + traceback.format_exc(), 'results': [], 'wall_s': round(time.time() - t0, 3)}
    try:
        mod = __import__(task['module'], fromlist=['x'])
        out = getattr(mod, task['fn'])(task)
        out.setdefault('task', task.get('name', task['fn']))
        out['wall_s'] = round(time.time() - t0, 3)
        return out
    except Exception:
        return {'task': task.get('name', task['fn']), 'error': 'crash: ' + traceback.format_exc(), 'results': [],
                'wall_s': round(time.time() - t0, 3)}


def relabel(res, prop):
    """obligations of a contract shared with another property: the same discharged obligation is reported under `prop`
    (its clause text belongs to both statements)"""
    for r in res.get('results', []):
        if r.get('prop') == 'C07' and prop != 'C07':
            continue          # exits part-way (asserts etc.) stay with C07
        r['shared_with'] = r.get('prop')
        r['prop'] = prop
        r['id'] = prop + r['id'][r['id'].index('/'):] if '/' in r['id'] else r['id']
    return res


def sanitize(s):
    return re.sub(r'[^A-Za-z0-9_.@-]+', '_', s)[:150]


class Check:
    def __init__(self, prop, level, argv=None):
        self.prop = prop
        self.level = level
        argv = sys.argv[1:] if argv is None else argv
        self.tier = os.environ.get('VERIF_TIER', 'quick')
        if '--tier' in argv:
            self.tier = argv[argv.index('--tier') + 1]
        if self.tier not in ('quick', 'thorough'):
            self.tier = 'quick'
        self.seed = int(os.environ.get('VERIF_SEED', '0') or 0)
        self.t0 = time.time()
        self.results = []
        self.task_reports = []
        self.errors = []
        self.assumptions = []
        self.extra_cov = {}
        self.jobs = int(os.environ.get('PYVC_JOBS', '0') or 0) or min(16, os.cpu_count() or 4)
        d = os.path.join(OUT, 'replay', self.prop)
        if os.path.isdir(d):
            for f in os.listdir(d):
                if f.endswith('.json'):
                    os.unlink(os.path.join(d, f))

    # ----------------------------------------------------------------------------------------------------
    def run_tasks(self, tasks):
        if not tasks:
            return []
        # largest first
        tasks = sorted(tasks, key=lambda t: -t.get('weight', 1))
        if self.jobs == 1 or len(tasks) == 1:
            outs = [_run_task(t) for t in tasks]
        else:
            ctx = mp.get_context('fork')
            with ctx.Pool(min(self.jobs, len(tasks))) as pool:
                outs = list(pool.imap_unordered(_run_task, tasks, chunksize=1))
        # a task that left something undecided is run once more in a fresh interpreter: solver verdicts on nonlinear obligations depend on
        # the state of a long-lived worker (see pyvc/isolated.py); the second result replaces the first only if it decides more
        by_name = {t.get('name', t['fn']): t for t in tasks}
        for k, o in enumerate(outs):
            unk = [r for r in o.get('results', []) if r.get('status') == 'unknown']
            t = by_name.get(o.get('task'))
            if unk and t is not None and not t.get('isolate') and t.get('module') != 'pyvc.native':
                o2 = _run_task(dict(t, isolate=True))
                unk2 = [r for r in o2.get('results', []) if r.get('status') == 'unknown']
                if not o2.get('error') and len(unk2) < len(unk):
                    o2['retried_in_a_fresh_interpreter'] = True
                    outs[k] = o2
        for o in outs:
            # a bounded stand-in (label B) is never counted as proved; a failure it finds is a real failing input
            si = o.get('standin')
            if si and si.get('failures'):
                o.setdefault('results', []).append({
                    'id': f"{self.prop}/bounded-stand-in/{o.get('task', 'standin')}", 'kind': 'P', 'prop': self.prop, 'label': 'B',
                    'status': 'refuted', 'backend': 'CPython (bounded)', 'seconds': 0.0, 'native': True,
                    'detail': f"failing inputs found by the bounded stand-in: {si['failures'][:4]}", 'meta': {'bound': si.get('bound')},
                    'model': {'standin_failures': si['failures'][:6]}})
            self.task_reports.append({k: v for k, v in o.items() if k != 'results' and not k.startswith('_')})
            if o.get('error'):
                self.errors.append(f"{o.get('task')}: {o['error']}")
            for r in o.get('results', []):
                r.setdefault('contract', o.get('contract'))
                self.results.append(r)
        return outs

    # ----------------------------------------------------------------------------------------------------
    def known_findings(self):
        path = os.path.join(ROOT, 'known_findings.jsonl')
        out = []
        if os.path.exists(path):
            for line in open(path):
                line = line.strip()
                if line and not line.startswith('#'):
                    out.append(json.loads(line))
        return out

    def match_finding(self, r, findings):
        for f in findings:
            if f.get('status') == 'fixed':
                continue
            if f.get('property') != (r.get('prop') or self.prop) and f.get('property') != self.prop:
                continue
            if not re.search(f['obligation'], r['id']):
                continue
            w = f.get('witness')
            if w and 'model' in r:
                try:
                    ok = bool(eval(w, {'re': re}, {'m': r['model'], 'r': r}))
                except Exception:
                    ok = False
                if not ok:
                    continue
            return f
        return None

    def replay(self, r):
        """write the replay file and run the native replay; returns (path, outcome dict)"""
        d = os.path.join(OUT, 'replay', self.prop)
        os.makedirs(d, exist_ok=True)
        path = os.path.join(d, sanitize(r['id'].replace('/', '__')) + '.json')
        rep = {'property': r.get('prop') or self.prop, 'obligation': {k: r[k] for k in ('id', 'kind', 'meta', 'status', 'backend')},
               'contract': r.get('contract'), 'model': r.get('model'),
               'note': 'the pre-state satisfies the contract precondition (invariant) but is synthetic: it is not '
                       'necessarily reachable by a history'}
        outcome = {'confirmed': None, 'detail': 'no model'}
        if r.get('model') is not None and not r.get('native'):
            json.dump(rep, open(path, 'w'), indent=1, default=str)
            env = dict(os.environ, PYTHONPATH=f'{REPO}:{ROOT}')
            try:
                p = subprocess.run([NATIVE_PY, os.path.join(ROOT, 'tools', 'replay.py'), path], capture_output=True,
                                   text=True, timeout=120, env=env)
                line = [l for l in p.stdout.splitlines() if l.startswith('{')]
                outcome = json.loads(line[-1]) if line else {'confirmed': None, 'detail': 'replay gave no output: ' + p.stderr[-500:]}
            except Exception as e:
                outcome = {'confirmed': None, 'detail': f'replay failed: {e!r}'}
        elif r.get('native'):
            outcome = {'confirmed': True, 'detail': r.get('detail', 'failing element found by native exhaustive evaluation')}
        if (r.get('meta') or {}).get('native_fact'):
            outcome = {'confirmed': True, 'detail': (r.get('meta') or {}).get('note') or 'structural fact of the executed code'}
        rep['replay'] = outcome
        rep['solver_output'] = r.get('solver_output', f"{r.get('backend')}: {r.get('status')}")
        json.dump(rep, open(path, 'w'), indent=1, default=str)
        return os.path.relpath(path, OUT), outcome

    def conformance(self, counted):
        """native replay of sampled inputs of DISCHARGED obligations (see pyvc/run.py: conformance_samples)"""
        import random
        from concurrent.futures import ThreadPoolExecutor
        recs = [r for r in counted if r.get('conform_model') is not None and r['status'] == 'valid']
        cap = int(os.environ.get('PYVC_CONFORM_CAP', '64' if self.tier == 'quick' else '600'))
        random.Random(self.seed).shuffle(recs)
        recs = recs[:cap]
        d = os.path.join(OUT, 'replay', self.prop, 'conformance')
        out = {'sampled': len(recs), 'agree': 0, 'not_comparable': 0, 'disagreements': [],
               'what': 'for each sampled discharged obligation: a model of its hypothesis, decoded, run on the real code; the proved clause '
                       'must hold natively'}
        if not recs:
            return out
        os.makedirs(d, exist_ok=True)
        env = dict(os.environ, PYTHONPATH=f'{REPO}:{ROOT}')

        def one(kr):
            k, r = kr
            path = os.path.join(d, sanitize(r['id'].replace('/', '__')) + f'.{k}.json')
            rep = {'property': self.prop, 'obligation': {k: r[k] for k in ('id', 'kind', 'meta', 'status', 'backend')},
                   'contract': r.get('contract'), 'model': r['conform_model'], 'conformance': True}
            json.dump(rep, open(path, 'w'), indent=1, default=str)
            try:
                p = subprocess.run([NATIVE_PY, os.path.join(ROOT, 'tools', 'replay.py'), path], capture_output=True, text=True,
                                   timeout=120, env=env)
                line = [l for l in p.stdout.splitlines() if l.startswith('{')]
                o = json.loads(line[-1]) if line else {'confirmed': None, 'detail': 'no output'}
            except Exception as e:   # noqa
                o = {'confirmed': None, 'detail': f'replay failed: {e!r}'}
            return r, path, o
        with ThreadPoolExecutor(max(2, self.jobs // 2)) as ex:
            outs = list(ex.map(one, enumerate(recs)))
        for r, path, o in outs:
            det = str(o.get('detail', ''))
            # disagreement: the proved clause is false natively, or the native run leaves the path the model is on
            bad = o.get('confirmed') is True or det.startswith('operation raised') or (det.startswith('the call of') and 'was not reached' in det)
            if bad and r['conform_model'].get('abstract_callees'):
                bad, o = False, {'confirmed': None}      # abstract callees take other values natively: not comparable
            if o.get('confirmed') is None:
                out['not_comparable'] += 1
                os.unlink(path)
            elif bad:
                out['disagreements'].append(f"{r['id']}: {det[:300]} (input: {os.path.relpath(path, OUT)})")
            else:
                out['agree'] += 1
                os.unlink(path)
        return out

    # ----------------------------------------------------------------------------------------------------
    def finish(self, checker_cmd, explanation='', functions=None, standin=None, exhaustive=None):
        findings = self.known_findings()
        mine = [r for r in self.results if (r.get('prop') or self.prop) == self.prop]
        others = [r for r in self.results if (r.get('prop') or self.prop) != self.prop]
        violations, known, undecided, checker_errors = [], [], [], list(self.errors)
        counted = [r for r in mine if r['kind'] not in ('canary', 'cover', 'guard', 'assumed', 'note')]
        notes = [r for r in mine if r['kind'] == 'note']
        assumed = [r for r in mine if r['kind'] == 'assumed']
        canaries = [r for r in mine if r['kind'] == 'canary']
        covers = [r for r in mine if r['kind'] == 'cover']
        guards = [r for r in mine if r['kind'] == 'guard']
        for r in canaries:
            if r['status'] == 'valid':
                checker_errors.append(f'canary proved (unsound engine or vacuous precondition): {r["id"]}')
        for r in covers:
            if r['status'] == 'refuted':
                checker_errors.append(f'cover unsatisfiable (vacuous precondition): {r["id"]}')
        # components the run-time guard saw violated on REAL hands (component name -> example)
        guard_hits = {}
        for r in guards:
            if r['status'] != 'valid' and isinstance(r.get('detail'), dict):
                for k, ex in (r['detail'].get('examples') or {}).items():
                    guard_hits.setdefault(k.split(' at ')[0], (k, ex))
                for k in (r['detail'].get('failures') or {}):
                    guard_hits.setdefault(k.split(' at ')[0], (k, 'see guard_details'))
        explained_guard = set()
        for r in counted:
            if r['status'] == 'valid':
                continue
            if r['status'] == 'unknown':
                undecided.append(r)
                continue
            f = self.match_finding(r, findings)
            path, outcome = self.replay(r)
            comp = (r.get('meta') or {}).get('component')
            if outcome.get('confirmed') is not True and comp in guard_hits:
                # the same component is violated on a real hand played by the guard: that hand is the failing input
                outcome = {'confirmed': True, 'detail': f'refuted deductively; the run-time guard saw the same component violated on a real '
                           f'hand: {guard_hits[comp][0]}: {guard_hits[comp][1]}'}
                explained_guard.add(comp)
            r['replay'] = outcome
            r['replay_file'] = path
            try:
                fp = os.path.join(OUT, path)
                rep = json.load(open(fp))
                rep['replay'] = outcome
                json.dump(rep, open(fp, 'w'), indent=1, default=str)
            except Exception:     # noqa
                pass
            if f is not None:
                known.append((r, f))
                continue
            if outcome.get('confirmed') is False:
                checker_errors.append(f'refuted obligation not confirmed by native replay (encoding or contract issue): '
                                      f'{r["id"]}: {outcome.get("detail")}')
                continue
            violations.append((r, path, outcome))
        for r in guards:
            if r['status'] != 'valid':
                d = r.get('detail') if isinstance(r.get('detail'), dict) else {}
                names = {k.split(' at ')[0] for k in (d.get('failures') or {})}
                if not names or not names <= explained_guard:
                    checker_errors.append(f'run-time guard failed (no refuted obligation explains it: the component is too strong, or the '
                                          f'repository is defective): {r["id"]}: {str(r.get("detail", ""))[:1500]}')
        conf = self.conformance(counted)
        for d in conf['disagreements']:
            checker_errors.append('conformance: the real code contradicts a DISCHARGED obligation on a sampled input (the encoding or the '
                                  f'decoding is wrong): {d}')
        seen_known = set()
        for r, f in known:
            if f['what'] not in seen_known:
                seen_known.add(f['what'])
                print(f'KNOWN-FINDING: property={self.prop} {f["what"]}')
        for r, path, outcome in violations:
            tail = '' if outcome.get('confirmed') else ' no-failing-input-found'
            print(f'VIOLATION property={self.prop} replay={path} obligation={r["id"]}{tail}')
        for e in checker_errors:
            print('CHECKER-ERROR:', e[:2000])
        for r in undecided:
            print(f'UNDECIDED: {r["id"]} ({r.get("backend")})')
        discharged = [r for r in counted if r['status'] == 'valid']
        by_label, by_backend = {}, {}
        for r in counted:
            by_label[r.get('label', 'D/shape')] = by_label.get(r.get('label', 'D/shape'), 0) + 1
        for r in discharged:
            by_backend[r.get('backend', '?')] = by_backend.get(r.get('backend', '?'), 0) + 1
        samples = []
        for r in counted:
            if 'smt2' in r and len(samples) < 3:
                samples.append({'obligation': r['id'], 'kind': r['kind'], 'status': r['status'], 'smt2_negation': r['smt2']})
        for r in counted:
            if len(samples) >= 6:
                break
            if 'smt2' not in r:
                samples.append({'obligation': r['id'], 'kind': r['kind'], 'label': r.get('label'), 'status': r['status'],
                                'backend': r.get('backend'), 'seconds': r.get('seconds'), 'meta': r.get('meta')})
        solver_s = round(sum(r.get('seconds', 0) for r in mine), 3)
        cov = {
            # obligations refuted by a LISTED known finding are reported separately, not as discharged
            'obligations': len(counted) - len(known), 'discharged': len(discharged),
            'obligations_refuted_by_listed_known_findings': [r['id'] for r, f in known],
            'obligations_excluded_by_a_stated_hypothesis': [{'id': r['id'], 'status': r['status'], 'hypothesis': r.get('hypothesis')} for r in assumed],
            'checker_cmd': checker_cmd, 'trusted_base': TRUSTED_BASE,
            'by_label': by_label, 'by_backend': by_backend,
            'canaries_refuted': len([r for r in canaries if r['status'] == 'refuted']),
            'covers_sat': len([r for r in covers if r['status'] == 'valid']),
            'guards_passed': len([r for r in guards if r['status'] == 'valid']),
            'guard_details': [{'id': r['id'], 'detail': r.get('detail')} for r in guards],
            'solver_seconds_total': solver_s,
            'solver_seconds_max': max([r.get('seconds', 0) for r in mine] or [0]),
            'slowest_obligations': [{'id': r['id'], 'seconds': r.get('seconds'), 'backend': r.get('backend')}
                                    for r in sorted(mine, key=lambda r: -(r.get('seconds') or 0))[:6]],
            'functions_under_contract': functions or sorted({r['meta'].get('function') for r in mine if r.get('meta', {}).get('function')}),
            'shapes': sorted({r['meta'].get('shape') for r in mine if r.get('meta', {}).get('shape')}),
            'known_findings_matched': sorted(seen_known),
            'undecided': [r['id'] for r in undecided],
            'obligations_reassigned_to_other_properties': len(others),
            'notes': [{'id': r['id'], 'status': r['status'], 'meta': r.get('meta')} for r in notes],
            'samples': samples,
            'conformance_sampling': {k: v for k, v in conf.items() if k != 'disagreements'} | {'disagreements': conf['disagreements'][:10]},
            'tasks': self.task_reports[:200],
            'explanation': explanation,
        }
        if exhaustive is not None:
            cov['exhaustive'] = exhaustive
        if standin is not None:
            cov['standin'] = standin
        cov.update(self.extra_cov)
        ev = {'property_id': self.prop, 'tier': self.tier, 'seed': self.seed, 'level': self.level, 'coverage': cov,
              'assumptions': self.assumptions, 'wall_s': round(time.time() - self.t0, 2), 'violations': len(violations)}
        os.makedirs(os.path.join(OUT, 'evidence'), exist_ok=True)
        json.dump(ev, open(os.path.join(OUT, 'evidence', f'{self.prop}.json'), 'w'), indent=1, default=str)
        print(f'{self.prop}: obligations={len(counted)} discharged={len(discharged)} known={len(known)} '
              f'violations={len(violations)} undecided={len(undecided)} checker_errors={len(checker_errors)} '
              f'canaries={len(canaries)} covers={len(covers)} wall={ev["wall_s"]}s tier={self.tier}')
        # a violation confirmed on the real code stands even if another task of the same run could not be decided
        # or set up (e.g. a changed function uses a construct outside the supported subset)
        if any(outcome.get('confirmed') for _, _, outcome in violations):
            return 1
        if checker_errors:
            return 3
        if violations:
            return 1
        if undecided:
            return 2
        if not counted:
            print('CHECKER-ERROR: zero obligations generated')
            return 3
        return 0

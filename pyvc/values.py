"""Value domain of the pyvc symbolic interpreter.

Concrete Python values (int, bool, None, str, enum members, classes, tuples of values) are kept
concrete so that shapes (lengths, ranges, class dispatch) fold away.  Symbolic scalars are z3 terms
(Int, Real, Bool).  Everything else is one of the small classes below.  All values are immutable;
mutable Python objects (lists, deques, sets, dataclass instances) live in heap cells addressed by
`Ref`, and the heap is a persistent (copy-on-write) dict.
"""
from __future__ import annotations

import itertools
import z3

# ------------------------------------------------------------------------------------------------
# z3 helpers with constant folding
# ------------------------------------------------------------------------------------------------

TRUE = z3.BoolVal(True)
FALSE = z3.BoolVal(False)


def is_sym(v):
    return isinstance(v, z3.ExprRef)


def is_num(v):
    """int / bool / Fraction-free numeric scalars (concrete or symbolic, not Bool terms)."""
    if isinstance(v, bool):
        return True
    if isinstance(v, int):
        return True
    if isinstance(v, z3.ArithRef):
        return True
    return False


def is_boolish(v):
    return isinstance(v, bool) or isinstance(v, z3.BoolRef)


def zbool(v):
    """to z3 Bool term"""
    if isinstance(v, bool):
        return TRUE if v else FALSE
    if isinstance(v, z3.BoolRef):
        return v
    raise TypeError(f'not a boolean: {v!r}')


def znum(v):
    """to z3 arithmetic term"""
    if isinstance(v, bool):
        return z3.IntVal(int(v))
    if isinstance(v, int):
        return z3.IntVal(v)
    if isinstance(v, z3.ArithRef):
        return v
    if isinstance(v, z3.BoolRef):
        return z3.If(v, z3.IntVal(1), z3.IntVal(0))
    raise TypeError(f'not a number: {v!r}')


def b2i(v):
    """Python semantics bool -> int (True == 1) for arithmetic on booleans."""
    if isinstance(v, bool):
        return int(v)
    if isinstance(v, z3.BoolRef):
        if z3.is_true(v):
            return 1
        if z3.is_false(v):
            return 0
        return z3.If(v, z3.IntVal(1), z3.IntVal(0))
    return v


def Not_(a):
    if isinstance(a, bool):
        return not a
    if z3.is_true(a):
        return False
    if z3.is_false(a):
        return True
    if z3.is_not(a):
        return a.arg(0)
    return z3.Not(a)


def And_(*xs):
    out = []
    for x in xs:
        if isinstance(x, bool):
            if not x:
                return False
            continue
        if z3.is_true(x):
            continue
        if z3.is_false(x):
            return False
        out.append(x)
    if not out:
        return True
    if len(out) == 1:
        return out[0]
    return z3.And(*out)


def Or_(*xs):
    out = []
    for x in xs:
        if isinstance(x, bool):
            if x:
                return True
            continue
        if z3.is_false(x):
            continue
        if z3.is_true(x):
            return True
        out.append(x)
    if not out:
        return False
    if len(out) == 1:
        return out[0]
    return z3.Or(*out)


def Implies_(a, b):
    return Or_(Not_(a), b)


def same_term(a, b):
    if a is b:
        return True
    if isinstance(a, z3.ExprRef) and isinstance(b, z3.ExprRef):
        return a.eq(b)
    if isinstance(a, z3.ExprRef) or isinstance(b, z3.ExprRef):
        return False
    try:
        return type(a) is type(b) and a == b
    except Exception:
        return False


def If_(c, a, b):
    """scalar if-then-else with folding; a, b numeric or boolean scalars"""
    if isinstance(c, bool):
        return a if c else b
    if z3.is_true(c):
        return a
    if z3.is_false(c):
        return b
    if same_term(a, b):
        return a
    if is_boolish(a) and is_boolish(b):
        if a is True and b is False:
            return c
        if a is False and b is True:
            return Not_(c)
        return z3.If(c, zbool(a), zbool(b))
    # booleans mixed with ints: Python lets True act as 1
    return z3.If(c, znum(a), znum(b))


def simp(t):
    if isinstance(t, z3.ExprRef):
        return z3.simplify(t)
    return t


def concrete_bool(t):
    """True / False if t is a concrete truth value, else None"""
    if isinstance(t, bool):
        return t
    if isinstance(t, z3.BoolRef):
        if z3.is_true(t):
            return True
        if z3.is_false(t):
            return False
    return None


def concrete_int(t):
    if isinstance(t, bool):
        return int(t)
    if isinstance(t, int):
        return t
    if isinstance(t, z3.ArithRef) and z3.is_int_value(t):
        return t.as_long()
    return None


# ------------------------------------------------------------------------------------------------
# structured values
# ------------------------------------------------------------------------------------------------

class Ref:
    """address of a heap cell holding a mutable object's (immutable) content"""
    __slots__ = ('cell', 'kind')
    _ctr = itertools.count(1)

    def __init__(self, kind, cell=None):
        self.kind = kind                     # 'list' | 'deque' | 'set' | 'obj' | 'dict'
        self.cell = next(Ref._ctr) if cell is None else cell

    def __repr__(self):
        return f'<{self.kind}#{self.cell}>'

    def __eq__(self, o):
        return isinstance(o, Ref) and o.cell == self.cell

    def __hash__(self):
        return hash(('Ref', self.cell))


class SymObj:
    """an instance of a (data)class with named fields; immutable record (heap cells hold these for mutable objs)"""
    __slots__ = ('cls', 'fields', 'ident')

    def __init__(self, cls, fields, ident=None):
        self.cls = cls
        self.fields = fields                 # dict name -> value
        self.ident = ident                   # identity tag for `is` on value objects (e.g. streets)

    def with_field(self, name, v):
        f = dict(self.fields)
        f[name] = v
        return SymObj(self.cls, f, self.ident)

    def __repr__(self):
        return f'{self.cls.__name__}({", ".join(f"{k}={v!r}" for k, v in self.fields.items())})'


class SymSeq:
    """sequence whose elements are the slots whose flag holds, in slot order (a *sparse* sequence:
    conditional appends, filters and comprehensions just add flagged slots -- no shifting).
    If `n` is not None the sequence is in prefix form: flags[k] == (n > k) and 0 <= n <= len(slots)
    (guaranteed by whoever builds it), so len == n and element i sits in slot i."""
    __slots__ = ('slots', 'flags', 'n', 'perms')

    def __init__(self, slots, n=None, flags=None, perms=()):
        self.slots = tuple(slots)
        # perms: ((lo, hi, original, guard), ...): slots[lo:hi] (with their flags) are an arbitrary permutation of
        # the sequence `original` (result of a shuffle); membership tests are answered on the original
        self.perms = tuple(perms)
        if flags is None:
            cn = concrete_int(n)
            if cn is not None:
                flags = tuple(cn > k for k in range(len(self.slots)))
            else:
                flags = tuple(simp(znum(n) > k) for k in range(len(self.slots)))
        self.flags = tuple(flags)
        self.n = n

    @property
    def cap(self):
        return len(self.slots)

    def __repr__(self):
        if self.n is not None:
            return f'SymSeq(n={self.n}, {list(self.slots)!r})'
        return 'SymSeq(' + ', '.join(f'{f}?{v!r}' for f, v in zip(self.flags, self.slots)) + ')'


class TailSeq:
    """a list whose first part is an opaque prefix of unknown length (only appended to):
    prefix id + concrete tuple of appended items.  Used for `operations`."""
    __slots__ = ('prefix', 'items')

    def __init__(self, prefix, items=()):
        self.prefix = prefix
        self.items = tuple(items)

    def __repr__(self):
        return f'TailSeq({self.prefix}+{list(self.items)!r})'


class Choice:
    """guarded alternatives of values that cannot be merged into one term (None vs int, different enum
    members, different references ...).  Guards are pairwise exclusive and exhaustive under the pc."""
    __slots__ = ('alts',)

    def __init__(self, alts):
        self.alts = tuple(alts)              # ((guard, value), ...)

    def __repr__(self):
        return 'Choice(' + ' | '.join(f'{g}: {v!r}' for g, v in self.alts) + ')'


class SymEnum:
    """symbolic member of an Enum class: index into list(cls)"""
    __slots__ = ('cls', 'idx', 'members')

    def __init__(self, cls, idx):
        self.cls = cls
        self.idx = idx
        self.members = tuple(cls)

    def __repr__(self):
        return f'SymEnum({self.cls.__name__}, {self.idx})'


class BitSet:
    """set of small ints 0..len(bits)-1 as a tuple of booleans (content of a 'set' heap cell)"""
    __slots__ = ('bits',)

    def __init__(self, bits):
        self.bits = tuple(bits)

    def __repr__(self):
        return f'BitSet({list(self.bits)!r})'


class FlagSet:
    """membership-only container over concrete hashable keys (the automation tuple): key -> bool term"""
    __slots__ = ('flags',)

    def __init__(self, flags):
        self.flags = dict(flags)

    def __repr__(self):
        return f'FlagSet({self.flags!r})'


class SymMapping:
    """a dict given by its (key, value) pairs; keys pairwise distinct (precondition where it is built)"""
    __slots__ = ('pairs',)

    def __init__(self, pairs):
        self.pairs = tuple(pairs)

    def __repr__(self):
        return f'SymMapping({list(self.pairs)!r})'


class AbsSeq:
    """an abstract finite stream of atoms of UNBOUNDED symbolic length (pyvc/streams.py): element i is stream.at(sid, i),
    the length is stream.len(sid) >= 0; only loop contracts and the ghost quantifiers can look inside"""

    def __init__(self, sid):
        self.sid = sid

    def __repr__(self):
        return f'AbsSeq({self.sid})'


class Opaque:
    """an atom the interpreter never looks into (message strings, commentary)"""
    __slots__ = ('tag',)

    def __init__(self, tag):
        self.tag = tag

    def __repr__(self):
        return f'Opaque({self.tag})'

    def __eq__(self, o):
        return isinstance(o, Opaque) and o.tag == self.tag

    def __hash__(self):
        return hash(('Opaque', self.tag))


class Closure:
    """lambda / nested def with captured environment"""
    __slots__ = ('node', 'env', 'module', 'defaults', 'qual')

    def __init__(self, node, env, module, defaults=None, qual=None):
        self.node = node
        self.env = env
        self.module = module
        self.defaults = defaults
        self.qual = qual


class Func:
    """a function of the code under verification (FunctionDef from the real source)"""
    __slots__ = ('node', 'module', 'qual', 'cls')

    def __init__(self, node, module, qual, cls=None):
        self.node = node
        self.module = module                 # python module object (for globals)
        self.qual = qual                     # e.g. 'pokerkit.state.State.post_ante'
        self.cls = cls                       # defining class (python object) or None

    def __repr__(self):
        return f'<Func {self.qual}>'


class BoundMethod:
    __slots__ = ('func', 'self_val')

    def __init__(self, func, self_val):
        self.func = func
        self.self_val = self_val

    def __repr__(self):
        return f'<BoundMethod {self.func!r}>'


class BuiltinMethod:
    """method of a modelled container (e.g. list.append) bound to its receiver"""
    __slots__ = ('recv', 'name')

    def __init__(self, recv, name):
        self.recv = recv
        self.name = name

    def __repr__(self):
        return f'<BuiltinMethod {self.name} of {self.recv!r}>'


class Partial:
    __slots__ = ('fn', 'args', 'kwargs')

    def __init__(self, fn, args, kwargs=None):
        self.fn = fn
        self.args = tuple(args)
        self.kwargs = dict(kwargs or {})


class SuperProxy:
    """zero-argument super(): attribute lookup continues after `cls` in the MRO of the instance's class"""
    __slots__ = ('self_val', 'cls')

    def __init__(self, self_val, cls):
        self.self_val = self_val
        self.cls = cls


class Snapshot:
    """read-only view of an object in an earlier heap (the `old` of a postcondition)"""
    __slots__ = ('heap', 'ref')

    def __init__(self, heap, ref):
        self.heap = heap
        self.ref = ref


class Unbound:
    """placeholder for a local that is bound on only some merged paths"""
    def __repr__(self):
        return '<unbound>'


UNBOUND = Unbound()


class PyvcUnsupported(Exception):
    """construct outside the supported subset: the run stops (exit 3), never a verdict"""

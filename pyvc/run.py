"""Run the VCs of one contract for one shape and discharge them (used by the per-property drivers,
possibly inside a worker process)."""
from __future__ import annotations

import time
import traceback

from .harness import FunctionVC
from .vc import discharge, smt2_of, VALID, REFUTED, UNKNOWN
from .values import PyvcUnsupported


def expected(kind):
    return REFUTED if kind == 'canary' else VALID


def verify_contract(src, K, shape, chips='int', cuts=None, timeout_ms=10000, configure=None, unwind=16,
                    keep_smt=0, only=None, with_state=True, arg_makers=None, tag=None, setup=None, cuts_factory=None):
    """returns dict(function, shape, chips, build_s, results=[...], error=None|str)"""
    t0 = time.time()
    out = {'function': K.target, 'contract': f'{K.__module__}.{K.__qualname__}', 'shape': shape.as_dict(),
           'chips': chips, 'results': [], 'error': None, 'notes': []}
    try:
        vc = FunctionVC(src, K, shape, chips=chips, cuts=cuts, unwind=unwind, configure=configure,
                        with_state=with_state, arg_makers=arg_makers, setup=setup)
        if tag:
            vc.shape.tag = tag
        if cuts_factory is not None:
            vc.I.cuts.update(cuts_factory(vc))
        obs = vc.build()
    except PyvcUnsupported as e:
        out['error'] = f'unsupported: {e}'
        out['build_s'] = round(time.time() - t0, 3)
        return out
    except Exception:
        out['error'] = 'crash: ' + traceback.format_exc()
        out['build_s'] = round(time.time() - t0, 3)
        return out
    out['build_s'] = round(time.time() - t0, 3)
    out['notes'] = vc.notes
    out['stats'] = dict(vc.I.stats)
    pairs = []
    for ob in obs:
        if only is not None and not only(ob):
            continue
        r = discharge(ob, timeout_ms)
        rec = {'id': ob.id, 'kind': ob.kind, 'prop': ob.prop, 'label': ob.label, 'status': r['status'],
               'backend': r['backend'], 'seconds': r['seconds'], 'meta': ob.meta,
               'ok': r['status'] == expected(ob.kind)}
        if r['status'] == REFUTED and ob.kind not in ('canary',) and r['model'] is not None:
            try:
                rec['model'] = vc.decode_model(r['model'])
            except Exception as e:
                rec['model_error'] = repr(e)
        if keep_smt and len([x for x in out['results'] if 'smt2' in x]) < keep_smt and ob.kind in ('P', 'raises'):
            txt = smt2_of(ob.negation())
            rec['smt2'] = txt if len(txt) < 6000 else txt[:6000] + '\n; ... truncated'
        out['results'].append(rec)
        pairs.append((ob, rec))
    try:
        conformance_samples(vc, pairs)
    except Exception:   # noqa  (sampling is an extra; never let it break a verdict)
        out['notes'] = list(out.get('notes', [])) + ['conformance sampling failed: ' + traceback.format_exc()[-400:]]
    out['total_s'] = round(time.time() - t0, 3)
    return out


def conformance_samples(vc, pairs, per_contract=None):
    """Conformance of the encoding with CPython, by sampling: for a few DISCHARGED obligations take a model of the hypothesis (an
    input on that path -- diversified by random equalities on the pre-state's integers), decode it, and let the native replay run the
    real function on it and evaluate the same clause.  The clause was proved, so natively it must hold; if it does not, the encoding
    (or the decoding) is wrong.  The models are attached here; the runner replays them."""
    import os
    import random
    import z3
    n = int(os.environ.get('PYVC_CONFORM', '2')) if per_contract is None else per_contract
    if n <= 0:
        return
    rng = random.Random(hash(vc.ccls.target) & 0xffff)
    # callees replaced by an abstract contract (uninterpreted validity / strength, custom cuts of a driver) take values natively that
    # the model need not take: such runs are not comparable, so nothing is sampled there
    abstract = [q for q, c in (vc.I.cuts or {}).items() if not getattr(c, '_havoc', False) and not getattr(c, '_replayable', False)]
    if getattr(vc.I, 'native_cuts', None):
        return
    cands = [(ob, rec) for ob, rec in pairs if ob.kind in ('P', 'A', 'raises', 'frame') and rec.get('status') == VALID
             and not str(ob.meta.get('path', '')).startswith('loop-') and (ob.meta.get('clause') or ob.kind == 'frame')]
    rng.shuffle(cands)
    done = 0
    for ob, rec in cands:
        if done >= n:
            break
        s = z3.Solver()
        s.set('timeout', 3000)
        s.add(ob.hyp if not isinstance(ob.hyp, bool) else z3.BoolVal(ob.hyp))
        if s.check() != z3.sat:
            continue
        model = s.model()
        ints = [d() for d in model.decls() if d.arity() == 0 and d.range() == z3.IntSort() and not d.name().startswith(('arg.mode', 'q!', 'k!'))]
        for attempt in range(6):
            pick = rng.sample(ints, min(len(ints), rng.choice([2, 3, 4]))) if ints else []
            s.push()
            for v in pick:
                s.add(v == rng.choice([0, 1, 1, 2, 3, 5, 8]))
            if s.check() == z3.sat:
                model = s.model()
                s.pop()
                break
            s.pop()
        try:
            m = vc.decode_model(model)
            m['abstract_callees'] = sorted(set(m.get('abstract_callees') or []) | set(abstract))
            rec['conform_model'] = m
            done += 1
        except Exception:   # noqa
            continue

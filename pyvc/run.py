"""Run the VCs of one contract for one shape and discharge them (used by the per-property drivers,
possibly inside a worker process)."""
from __future__ import annotations

import time
import traceback

from .harness import FunctionVC
from .vc import discharge, smt2_of, VALID, REFUTED, UNKNOWN
from .values import PyvcUnsupported


def expected(kind):
    return REFUTED if kind == 'canary' else VALID


def verify_contract(src, K, shape, chips='int', cuts=None, timeout_ms=10000, configure=None, unwind=16,
                    keep_smt=0, only=None, with_state=True, arg_makers=None, tag=None, setup=None, cuts_factory=None):
    """returns dict(function, shape, chips, build_s, results=[...], error=None|str)"""
    t0 = time.time()
    out = {'function': K.target, 'contract': f'{K.__module__}.{K.__qualname__}', 'shape': shape.as_dict(),
           'chips': chips, 'results': [], 'error': None, 'notes': []}
    try:
        vc = FunctionVC(src, K, shape, chips=chips, cuts=cuts, unwind=unwind, configure=configure,
                        with_state=with_state, arg_makers=arg_makers, setup=setup)
        if tag:
            vc.shape.tag = tag
        if cuts_factory is not None:
            vc.I.cuts.update(cuts_factory(vc))
        obs = vc.build()
    except PyvcUnsupported as e:
        out['error'] = f'unsupported: {e}'
        out['build_s'] = round(time.time() - t0, 3)
        return out
    except Exception:
        out['error'] = 'crash: ' + traceback.format_exc()
        out['build_s'] = round(time.time() - t0, 3)
        return out
    out['build_s'] = round(time.time() - t0, 3)
    out['notes'] = vc.notes
    out['stats'] = dict(vc.I.stats)
    for ob in obs:
        if only is not None and not only(ob):
            continue
        r = discharge(ob, timeout_ms)
        rec = {'id': ob.id, 'kind': ob.kind, 'prop': ob.prop, 'label': ob.label, 'status': r['status'],
               'backend': r['backend'], 'seconds': r['seconds'], 'meta': ob.meta,
               'ok': r['status'] == expected(ob.kind)}
        if r['status'] == REFUTED and ob.kind not in ('canary',) and r['model'] is not None:
            try:
                rec['model'] = vc.decode_model(r['model'])
            except Exception as e:
                rec['model_error'] = repr(e)
        if keep_smt and len([x for x in out['results'] if 'smt2' in x]) < keep_smt and ob.kind in ('P', 'raises'):
            txt = smt2_of(ob.negation())
            rec['smt2'] = txt if len(txt) < 6000 else txt[:6000] + '\n; ... truncated'
        out['results'].append(rec)
    out['total_s'] = round(time.time() - t0, 3)
    return out

"""Models of the Python builtins / stdlib helpers and container methods used by the code under contract.

Every model mirrors CPython's documented behaviour on the value domain of `values.py`; error
behaviour (IndexError, ValueError on empty min/max, StopIteration, ...) is reported through
`interp.raise_if`, i.e. as an exceptional exit the caller may catch, exactly like real Python.
These models are the trusted part of the encoding (DESIGN 2.2 assumption 1) and are cross-checked
against CPython by the conformance run.
"""
from __future__ import annotations

import ast
import builtins
import collections
import enum
import functools
import itertools
import numbers
import operator
import random
import typing
import warnings
import z3

from .values import *  # noqa
from .values import (And_, Or_, Not_, If_, same_term, is_num, is_boolish, concrete_bool, concrete_int, zbool,
                     znum, b2i, simp, is_sym)
from .core import (Exc, TypeErr, merge_value, mk_choice, alts_of, as_symseq, to_symenum, UnwindLimit)

typing_cast = typing.cast

_MODELS = {}


def model(*natives):
    def deco(fn):
        for n in natives:
            _MODELS[id(n)] = (n, fn)
        return fn
    return deco


def lookup(f):
    try:
        ent = _MODELS.get(id(f))
    except Exception:
        return None
    if ent is not None and ent[0] is f:
        return ent[1]
    return None


def is_concrete(v):
    if isinstance(v, (z3.ExprRef, Ref, Snapshot, SymObj, SymSeq, Choice, SymEnum, BitSet, FlagSet, TailSeq, SymMapping,
                      Closure, Func, BoundMethod, BuiltinMethod, Partial, Opaque, Exc, AbsSeq)):
        return False
    if isinstance(v, tuple):
        return all(is_concrete(x) for x in v)
    return True


# ------------------------------------------------------------------------------------------------
# heap access
# ------------------------------------------------------------------------------------------------

def content(I, ctx, v):
    """(content, heap it was read from) of a reference / snapshot"""
    if isinstance(v, Snapshot):
        return v.heap[v.ref.cell], v.heap
    if isinstance(v, Ref):
        return ctx.heap[v.cell], ctx.heap
    raise PyvcUnsupported(f'not a reference: {type(v).__name__}')


def wrap(v, heap, ctx):
    """values read out of an old heap keep pointing into that heap"""
    if heap is ctx.heap:
        return v
    if isinstance(v, Ref):
        return Snapshot(heap, v)
    if isinstance(v, Choice):
        return mk_choice([(g, wrap(a, heap, ctx)) for g, a in v.alts])
    return v


def wrap_seq(seq, heap, ctx):
    if heap is ctx.heap:
        return seq
    if isinstance(seq, tuple):
        return tuple(wrap(x, heap, ctx) for x in seq)
    if isinstance(seq, SymSeq):
        return SymSeq([wrap(x, heap, ctx) for x in seq.slots], seq.n, seq.flags, seq.perms)
    return seq


def to_seq(I, ctx, v):
    """immutable sequence (tuple | SymSeq) of the elements of an iterable value"""
    if isinstance(v, (tuple, SymSeq)):
        return v
    if isinstance(v, range):
        return tuple(v)
    if isinstance(v, Ref) and v.kind == 'iter':
        # a one-shot iterator (generator, filter object, ...): what is left is yielded once, then it is exhausted
        c = ctx.heap[v.cell]
        ctx.put(v, ())
        return c
    if isinstance(v, (Ref, Snapshot)):
        c, heap = content(I, ctx, v)
        if isinstance(c, (tuple, SymSeq)):
            return wrap_seq(c, heap, ctx)
        if isinstance(c, BitSet):
            out = ()
            for k, b in enumerate(c.bits):
                out = seq_append_if(I, ctx, out, b, k)
            return out
        if isinstance(c, TailSeq):
            raise PyvcUnsupported('iteration over abstract list prefix')
        if isinstance(c, SymObj):
            kind, f = I.src.class_attr(c.cls, '__iter__')
            if kind == 'func':
                return to_seq(I, ctx, I.call_func(ctx, f, [v], {}))
        raise PyvcUnsupported(f'iteration over {type(c).__name__}')
    if isinstance(v, str):
        return tuple(v)
    if hasattr(v, '__next__') and hasattr(v, '__iter__') and type(v).__module__ == 'builtins':
        return tuple(I.from_native(x) for x in v)       # a native iterator over concrete things (iter(()), reversed(...))
    if isinstance(v, Choice):
        out = None
        for g, a in reversed(v.alts):
            if a is None:
                I.raise_if(ctx, g, TypeErr, 'type:iterate-None')
                continue
            s = to_seq(I, ctx, a)
            out = s if out is None else merge_value(g, s, out)
        return out if out is not None else ()
    if isinstance(v, enum.Enum) and isinstance(v, tuple):
        return tuple(I.from_native(x) for x in v)
    if isinstance(v, type) and issubclass(v, enum.Enum):
        return tuple(v)
    if isinstance(v, (list, collections.deque, set, frozenset)):
        return tuple(I.from_native(x) for x in v)
    if isinstance(v, dict):
        return tuple(v)
    raise PyvcUnsupported(f'not iterable: {type(v).__name__}')


def seq_len(seq):
    if isinstance(seq, SymSeq):
        if seq.n is not None:
            return seq.n
        return sum_terms([b2i(f) for f in seq.flags])
    return len(seq)


def ranks(seq):
    """rank[k] = number of present elements before slot k"""
    out, acc = [], 0
    for f in seq.flags:
        out.append(acc)
        acc = acc + b2i(f)
        if is_sym(acc):
            acc = simp(acc)
    return out


def to_dense(I, ctx, seq):
    """prefix form of a sparse sequence (compaction)"""
    if isinstance(seq, tuple) or seq.n is not None:
        return seq
    if all(concrete_bool(f) is not None for f in seq.flags):
        return tuple(v for f, v in zip(seq.flags, seq.slots) if concrete_bool(f))
    rk = ranks(seq)
    n = seq_len(seq)
    slots = []
    for i in range(seq.cap):
        e = None
        for k in range(seq.cap - 1, i - 1, -1):
            hit = And_(seq.flags[k], I.eq(rk[k], i, ctx))
            e = seq.slots[k] if e is None else merge_value(hit, seq.slots[k], e)
        slots.append(e)
    return SymSeq(slots, n)


def seq_append(I, ctx, seq, v):
    if isinstance(seq, SymSeq):
        return SymSeq(seq.slots + (v,), flags=seq.flags + (True,))
    return tuple(seq) + (v,)


def seq_append_if(I, ctx, seq, cond, v):
    cb = concrete_bool(cond)
    if cb is True:
        return seq_append(I, ctx, seq, v)
    if cb is False:
        return seq
    s_ = as_symseq(seq)
    return SymSeq(s_.slots + (v,), flags=s_.flags + (cond,))


def seq_concat(I, ctx, a, b):
    if isinstance(a, tuple) and isinstance(b, tuple):
        return a + b
    sa, sb = as_symseq(a), as_symseq(b)
    perms = sa.perms + tuple((lo + sa.cap, hi + sa.cap, o, g) for lo, hi, o, g in sb.perms)
    return SymSeq(sa.slots + sb.slots, flags=sa.flags + sb.flags, perms=perms)


def seq_repeat(I, ctx, seq, count, node):
    """seq * count with a symbolic count (single-element seq): bounded by the unwinding limit"""
    if len(seq) == 0:
        return ()
    if len(seq) != 1:
        raise PyvcUnsupported('repetition of a longer sequence by a symbolic count')
    c = znum(b2i(count))
    I.raise_if(ctx, simp(c > I.unwind), UnwindLimit, 'repeat@' + I.where(node))
    return SymSeq(tuple(seq) * I.unwind, simp(z3.If(c < 0, 0, c)))


def norm_index(I, ctx, idx, n, node, what='index'):
    """non-negative index term for 0 <= i < n (raises IndexError exit otherwise); n may be symbolic"""
    ci = concrete_int(idx)
    cn = concrete_int(n)
    if ci is not None and cn is not None:
        if -cn <= ci < cn:
            return ci % cn if cn else ci
        I.raise_if(ctx, True, IndexError, f'{what}@' + I.where(node))
        return None
    i, nn = znum(idx), znum(n)
    ok = simp(z3.And(i >= -nn, i < nn))
    I.raise_if(ctx, Not_(ok), IndexError, f'{what}@' + I.where(node))
    if ctx.dead:
        return None
    if ci is not None and ci >= 0:
        return ci
    return simp(z3.If(i < 0, i + nn, i))


def select(I, seq_slots, i):
    """slots[i] for an in-range index term"""
    ci = concrete_int(i)
    if ci is not None:
        return seq_slots[ci]
    out = seq_slots[-1]
    for k in range(len(seq_slots) - 2, -1, -1):
        out = merge_value(simp(znum(i) == k), seq_slots[k], out)
    return out


def nth(I, ctx, seq, i):
    """element of rank i (0 <= i < len already established) of a tuple / SymSeq"""
    if isinstance(seq, tuple):
        return select(I, seq, i)
    if seq.n is not None:
        return select(I, seq.slots, i)
    rk = ranks(seq)
    out = None
    for k in range(seq.cap - 1, -1, -1):
        if concrete_bool(seq.flags[k]) is False:
            continue
        hit = And_(seq.flags[k], I.eq(rk[k], i, ctx))
        out = seq.slots[k] if out is None else merge_value(hit, seq.slots[k], out)
    return out


def position_flags(I, ctx, seq, i):
    """flags[k] = slot k holds the element of rank i"""
    s_ = as_symseq(seq)
    if s_.n is not None:
        return [I.eq(i, k, ctx) for k in range(s_.cap)]
    rk = ranks(s_)
    return [And_(s_.flags[k], I.eq(rk[k], i, ctx)) for k in range(s_.cap)]


def getitem(I, ctx, obj, idx, node):
    if isinstance(obj, Choice):
        def one(sub, a):
            if a is None:
                I.raise_if(sub, True, TypeErr, 'type:subscript-None@' + I.where(node))
                return None
            return getitem(I, sub, a, idx, node)
        return I.split(ctx, obj, one)
    if isinstance(idx, Choice):
        def one(sub, a):
            if a is None:
                I.raise_if(sub, True, TypeErr, 'type:index-None@' + I.where(node))
                return None
            return getitem(I, sub, obj, a, node)
        return I.split(ctx, idx, one)
    if is_boolish(idx):
        idx = b2i(idx)
    heap = ctx.heap
    seq = obj
    if isinstance(obj, (Ref, Snapshot)):
        seq, heap = content(I, ctx, obj)
        if isinstance(seq, SymObj):
            kind, f = I.src.class_attr(seq.cls, '__getitem__')
            if kind == 'func':
                return I.call_func(ctx, f, [obj, idx], {}, node)
            raise PyvcUnsupported(f'subscript of {seq.cls.__name__}')
    if isinstance(seq, dict):
        if is_concrete(idx):
            if idx in seq:
                return wrap(seq[idx], heap, ctx)
            I.raise_if(ctx, True, KeyError, 'key@' + I.where(node))
            return None
        raise PyvcUnsupported('dict with symbolic key')
    if isinstance(seq, range):
        seq = tuple(seq)
    if isinstance(seq, tuple):
        if isinstance(idx, SymEnum) or isinstance(idx, enum.Enum):
            raise PyvcUnsupported('enum index')
        i = norm_index(I, ctx, idx, len(seq), node)
        if i is None or ctx.dead:
            return None
        return wrap(select(I, seq, i), heap, ctx)
    if isinstance(seq, SymSeq):
        i = norm_index(I, ctx, idx, seq_len(seq), node)
        if i is None or ctx.dead:
            return None
        if seq.cap == 0 or (concrete_int(i) is not None and concrete_int(i) >= seq.cap):
            ctx.kill()           # len <= cap always: the in-range path does not exist
            return None
        return wrap(nth(I, ctx, seq, i), heap, ctx)
    if isinstance(seq, TailSeq):
        ci = concrete_int(idx)
        if ci is not None and ci < 0 and -ci <= len(seq.items):
            return seq.items[ci]
        raise PyvcUnsupported('index into abstract list prefix')
    if isinstance(seq, str) and concrete_int(idx) is not None:
        return seq[concrete_int(idx)]
    if is_concrete(seq) and is_concrete(idx):
        try:
            return I.from_native(seq[idx])
        except (IndexError, KeyError) as e:
            I.raise_if(ctx, True, type(e), 'subscript@' + I.where(node))
            return None
    raise PyvcUnsupported(f'subscript of {type(seq).__name__} at {I.where(node)}')


def setitem(I, ctx, obj, idx, v, node):
    if isinstance(obj, Choice):
        I.split(ctx, obj, lambda sub, a: setitem(I, sub, a, idx, v, node))
        return
    if isinstance(idx, Choice):
        def one(sub, a):
            if a is None:
                I.raise_if(sub, True, TypeErr, 'type:index-None@' + I.where(node))
                return None
            return setitem(I, sub, obj, a, v, node)
        I.split(ctx, idx, one)
        return
    if not isinstance(obj, Ref):
        raise PyvcUnsupported(f'item assignment on {type(obj).__name__} at {I.where(node)}')
    if is_boolish(idx):
        idx = b2i(idx)
    seq = ctx.get(obj)
    if isinstance(seq, dict):
        if is_concrete(idx):
            d = dict(seq); d[idx] = v
            ctx.put(obj, d)
            return
        raise PyvcUnsupported('dict store with symbolic key')
    if isinstance(seq, tuple):
        i = norm_index(I, ctx, idx, len(seq), node, 'store-index')
        if i is None or ctx.dead:
            return
        ci = concrete_int(i)
        if ci is not None:
            ctx.put(obj, seq[:ci] + (v,) + seq[ci + 1:])
        else:
            ctx.put(obj, tuple(merge_value(simp(znum(i) == k), v, s) for k, s in enumerate(seq)))
        return
    if isinstance(seq, SymSeq):
        i = norm_index(I, ctx, idx, seq_len(seq), node, 'store-index')
        if i is None or ctx.dead:
            return
        if concrete_int(i) is not None and concrete_int(i) >= seq.cap:
            ctx.kill()
            return
        pf = position_flags(I, ctx, seq, i)
        ctx.put(obj, SymSeq([merge_value(pf[k], v, s) for k, s in enumerate(seq.slots)], seq.n, seq.flags))
        return
    raise PyvcUnsupported(f'item assignment on {type(seq).__name__}')


def getslice(I, ctx, obj, lo, hi, node):
    # an optional bound (None | int): `xs[:None]` is the whole sequence in Python
    if isinstance(lo, Choice):
        return I.split(ctx, lo, lambda sub, a: getslice(I, sub, obj, a, hi, node))
    if isinstance(hi, Choice):
        return I.split(ctx, hi, lambda sub, a: getslice(I, sub, obj, lo, a, node))
    if isinstance(obj, Choice):
        def one(sub, a):
            if a is None:
                I.raise_if(sub, True, TypeErr, 'type:slice-of-None@' + I.where(node))
                return None
            return getslice(I, sub, a, lo, hi, node)
        return I.split(ctx, obj, one)
    heap = ctx.heap
    seq = obj
    is_ref = isinstance(obj, (Ref, Snapshot))
    if is_ref:
        seq, heap = content(I, ctx, obj)
    if isinstance(seq, range):
        seq = tuple(seq)
    lo_c = concrete_int(lo) if lo is not None else None
    hi_c = concrete_int(hi) if hi is not None else None
    symbolic = isinstance(seq, SymSeq) or (lo is not None and lo_c is None) or (hi is not None and hi_c is None)
    if not symbolic:
        if isinstance(seq, (tuple, str)):
            res = wrap_seq(seq[lo_c:hi_c], heap, ctx)
        else:
            raise PyvcUnsupported(f'slice of {type(seq).__name__}')
    else:
        if not isinstance(seq, (tuple, SymSeq)):
            raise PyvcUnsupported('slice')
        s_ = as_symseq(seq)
        ln = znum(b2i(seq_len(s_)))

        def norm(b):
            """Python's slice bound: negative counts from the end; clamped to [0, len]"""
            v = znum(b2i(b))
            return simp(z3.If(v < 0, z3.If(v + ln < 0, 0, v + ln), z3.If(v < ln, v, ln)))
        lo_n = norm(lo) if lo is not None and lo_c != 0 else None
        hi_n = norm(hi) if hi is not None else None
        rk = list(range(s_.cap)) if s_.n is not None else ranks(s_)
        flags = []
        for k in range(s_.cap):
            f = s_.flags[k]
            if lo_n is not None:
                f = And_(f, simp(znum(b2i(rk[k])) >= lo_n))
            if hi_n is not None:
                f = And_(f, simp(znum(b2i(rk[k])) < hi_n))
            flags.append(f)
        if s_.n is not None and lo_n is None:
            # prefix of a prefix-form sequence stays in prefix form
            res0 = s_ if hi_n is None else SymSeq(s_.slots, hi_n)
        else:
            res0 = SymSeq(s_.slots, flags=flags)
        res = wrap_seq(res0, heap, ctx)
    if is_ref:
        kind = obj.kind if isinstance(obj, Ref) else obj.ref.kind
        return ctx.alloc(kind, res)
    return res


# ------------------------------------------------------------------------------------------------
# membership, equality
# ------------------------------------------------------------------------------------------------

def contains(I, ctx, container, x, node):
    if isinstance(container, Choice):
        return Or_(*[And_(g, contains(I, ctx, a, x, node)) for g, a in container.alts if a is not None])
    if isinstance(container, FlagSet):
        if isinstance(x, SymEnum):
            return Or_(*[And_(znum(x.idx) == k, container.flags.get(m, False)) for k, m in enumerate(x.members)])
        return container.flags.get(x, False)
    c = container
    if isinstance(container, (Ref, Snapshot)):
        c, heap = content(I, ctx, container)
        if isinstance(c, SymObj):
            kind, f = I.src.class_attr(c.cls, '__contains__')
            if kind == 'func':
                return I.truth(I.call_func(ctx, f, [container, x], {}), ctx)
            raise PyvcUnsupported('in on object')
    if isinstance(c, BitSet):
        if concrete_int(x) is not None:
            k = concrete_int(x)
            return c.bits[k] if 0 <= k < len(c.bits) else False
        if isinstance(x, Choice):
            return Or_(*[And_(g, contains(I, ctx, container, a, node)) for g, a in x.alts if a is not None])
        return Or_(*[And_(simp(znum(x) == k), b) for k, b in enumerate(c.bits)])
    if isinstance(c, range):
        if c.step == 1:
            if concrete_int(x) is not None:
                return concrete_int(x) in c
            if isinstance(x, Choice):
                return Or_(*[And_(g, contains(I, ctx, c, a, node)) for g, a in x.alts if a is not None])
            return simp(z3.And(znum(x) >= c.start, znum(x) < c.stop))
        c = tuple(c)
    if isinstance(c, tuple):
        return Or_(*[I.eq(e, x, ctx) for e in c])
    if isinstance(c, SymSeq):
        covered = set()
        parts = []
        for lo, hi, orig, g in c.perms:
            parts.append(And_(g, contains(I, ctx, orig, x, node)))
            covered.update(range(lo, hi))
        parts += [And_(f, I.eq(e, x, ctx)) for k, (f, e) in enumerate(zip(c.flags, c.slots))
                  if concrete_bool(f) is not False and k not in covered]
        return Or_(*parts)
    if isinstance(c, dict) and is_concrete(x):
        return x in c
    if is_concrete(c) and is_concrete(x):
        return x in c
    if is_concrete(c) and isinstance(c, (tuple, list, frozenset, set)):
        return Or_(*[I.eq(I.from_native(e), x, ctx) for e in c])
    raise PyvcUnsupported(f'membership in {type(c).__name__} at {I.where(node)}')


def seq_eq(I, ctx, a, b):
    if isinstance(a, tuple) and isinstance(b, tuple):
        if len(a) != len(b):
            return False
        return And_(*[I.eq(x, y, ctx) for x, y in zip(a, b)])
    sa, sb = as_symseq(a), as_symseq(b)
    conds = [I.eq(seq_len(sa), seq_len(sb), ctx)]
    if sa.n is not None and sb.n is not None:
        for k in range(min(sa.cap, sb.cap)):
            conds.append(Implies_(sa.flags[k], I.eq(sa.slots[k], sb.slots[k], ctx)))
        return And_(*conds)
    ra = list(range(sa.cap)) if sa.n is not None else ranks(sa)
    rb = list(range(sb.cap)) if sb.n is not None else ranks(sb)
    for i in range(sa.cap):
        if concrete_bool(sa.flags[i]) is False:
            continue
        for j in range(sb.cap):
            if concrete_bool(sb.flags[j]) is False:
                continue
            same_rank = I.eq(ra[i], rb[j], ctx)
            if concrete_bool(same_rank) is False:
                continue
            conds.append(Implies_(And_(sa.flags[i], sb.flags[j], same_rank), I.eq(sa.slots[i], sb.slots[j], ctx)))
    return And_(*conds)


def kind_of(v):
    if isinstance(v, Ref):
        return v.kind
    if isinstance(v, Snapshot):
        return v.ref.kind
    return 'tuple'


def container_eq(I, ctx, a, b):
    ka, kb = kind_of(a), kind_of(b)
    if ka != kb:
        return False
    ca = content(I, ctx, a)[0] if isinstance(a, (Ref, Snapshot)) else a
    cb = content(I, ctx, b)[0] if isinstance(b, (Ref, Snapshot)) else b
    ha = content(I, ctx, a)[1] if isinstance(a, (Ref, Snapshot)) else ctx.heap
    hb = content(I, ctx, b)[1] if isinstance(b, (Ref, Snapshot)) else ctx.heap
    if isinstance(ca, SymObj) and isinstance(cb, SymObj):
        if isinstance(a, Ref) and isinstance(b, Ref) and a.cell == b.cell:
            return True
        kind, f = I.src.class_attr(ca.cls, '__eq__')
        if kind == 'func':
            r = I.call_func(ctx, f, [a, b], {})
            return False if r is NotImplemented else I.truth(r, ctx)
        wa = SymObj(ca.cls, {k: wrap(v, ha, ctx) for k, v in ca.fields.items()}, ca.ident)
        wb = SymObj(cb.cls, {k: wrap(v, hb, ctx) for k, v in cb.fields.items()}, cb.ident)
        return I.obj_eq(wa, wb, ctx)
    if ka == 'set':
        if isinstance(ca, BitSet) and isinstance(cb, BitSet):
            return And_(*[I.eq(x, y, ctx) for x, y in zip(ca.bits, cb.bits)])
        sa, sb = wrap_seq(ca, ha, ctx), wrap_seq(cb, hb, ctx)
        return And_(subset(I, ctx, sa, sb), subset(I, ctx, sb, sa))
    if isinstance(ca, TailSeq) or isinstance(cb, TailSeq):
        return I.eq(ca, cb, ctx)
    if isinstance(ca, dict) and isinstance(cb, dict):
        if set(ca) != set(cb):
            return False
        return And_(*[I.eq(wrap(ca[k], ha, ctx), wrap(cb[k], hb, ctx), ctx) for k in ca])
    return seq_eq(I, ctx, wrap_seq(ca, ha, ctx), wrap_seq(cb, hb, ctx))


def subset(I, ctx, sa, sb):
    """every element of sequence sa occurs in sb"""
    return And_(*[Implies_(g, contains(I, ctx, sb, e, None)) for g, e in items_of(sa)])


def set_content(I, ctx, v):
    c, heap = content(I, ctx, v)
    if isinstance(c, BitSet):
        return to_seq(I, ctx, v)
    return wrap_seq(c, heap, ctx)


def set_order(I, ctx, op, a, b, node):
    if kind_of(a) != 'set' or kind_of(b) != 'set':
        raise PyvcUnsupported(f'ordering of containers at {I.where(node)}')
    sa, sb = set_content(I, ctx, a), set_content(I, ctx, b)
    a_in_b, b_in_a = subset(I, ctx, sa, sb), subset(I, ctx, sb, sa)
    if isinstance(op, ast.LtE):
        return a_in_b
    if isinstance(op, ast.GtE):
        return b_in_a
    if isinstance(op, ast.Lt):
        return And_(a_in_b, Not_(b_in_a))
    return And_(b_in_a, Not_(a_in_b))


def set_difference(I, ctx, a, b, node):
    sa, sb = set_content(I, ctx, a), set_content(I, ctx, b)
    out = ()
    for g, e in items_of(sa):
        out = seq_append_if(I, ctx, out, And_(g, Not_(contains(I, ctx, sb, e, node))), e)
    return ctx.alloc('set', out)


# ------------------------------------------------------------------------------------------------
# folds
# ------------------------------------------------------------------------------------------------

def items_of(seq):
    """[(present guard, element)]"""
    if isinstance(seq, SymSeq):
        return [(f, e) for f, e in zip(seq.flags, seq.slots) if concrete_bool(f) is not False]
    return [(True, e) for e in seq]


def fold_extreme(I, ctx, seq, key, want_max, node, what):
    """first maximal / minimal element (Python's max/min); ValueError exit when empty"""
    items = items_of(seq)
    if not items:
        I.raise_if(ctx, True, ValueError, f'{what}-of-empty@' + I.where(node))
        return None
    nonempty = Or_(*[g for g, _ in items])
    I.raise_if(ctx, Not_(nonempty), ValueError, f'{what}-of-empty@' + I.where(node))
    if ctx.dead:
        return None
    best = None          # (valid, elem, key)
    for g, e in items:
        sub = ctx if concrete_bool(g) is True else ctx.fork(g)
        k = I.call(key, [e], {}, sub, node) if key is not None else e
        if best is None:
            best = (g, e, k)
            continue
        bv, be, bk = best
        sub2 = sub if concrete_bool(bv) is True else sub.fork(bv)
        better = I.order(ast.Gt() if want_max else ast.Lt(), k, bk, sub2, node)
        take = And_(g, Or_(Not_(bv), better))
        best = (Or_(bv, g), merge_value(take, e, be), merge_value(take, k, bk))
    return best[1]


# ------------------------------------------------------------------------------------------------
# builtin functions
# ------------------------------------------------------------------------------------------------

@model(builtins.len)
def m_len(I, ctx, args, kwargs, node):
    v = args[0]
    if isinstance(v, Choice):
        return I.lift1(v, lambda a, cx: m_len(I, cx, [a], {}, node) if a is not None else I.type_error(cx, node, 'len-None'), ctx)
    if isinstance(v, (Ref, Snapshot)):
        c, _ = content(I, ctx, v)
        if isinstance(c, BitSet):
            return sum_terms([b2i(b) for b in c.bits])
        if isinstance(c, SymObj):
            kind, f = I.src.class_attr(c.cls, '__len__')
            if kind == 'func':
                return I.call_func(ctx, f, [v], {}, node)
            raise PyvcUnsupported('len of object')
        if isinstance(c, TailSeq):
            return simp(z3.Int(f'len!{c.prefix}') + len(c.items))
        if isinstance(c, dict):
            return len(c)
        if kind_of(v) == 'set' and not isinstance(c, BitSet):
            return distinct_count(I, ctx, c)
        return seq_len(c)
    if isinstance(v, (tuple, str, range)):
        return len(v)
    if isinstance(v, SymSeq):
        return seq_len(v)
    if is_concrete(v):
        return len(v)
    raise PyvcUnsupported(f'len of {type(v).__name__}')


def distinct_count(I, ctx, seq):
    """number of distinct elements of a sequence (len of a set built from it)"""
    items = items_of(seq)
    total = 0
    for k, (g, e) in enumerate(items):
        dup = Or_(*[And_(g2, I.eq(e2, e, ctx)) for g2, e2 in items[:k]])
        total = total + b2i(And_(g, Not_(dup)))
    return simp(total) if is_sym(total) else total


def sum_terms(ts):
    out = 0
    for t in ts:
        out = out + t
    return simp(out) if is_sym(out) else out


@model(builtins.sum)
def m_sum(I, ctx, args, kwargs, node):
    seq = to_seq(I, ctx, args[0])
    out = args[1] if len(args) > 1 else 0
    for g, e in items_of(seq):
        if isinstance(e, Choice) and all(a is None or is_num(a) or is_boolish(a) for _, a in e.alts) \
                and any(a is not None for _, a in e.alts):
            # a number chosen by guards (e.g. an optional argument replaced by its default): nested if-then-else;
            # a None alternative is a TypeError on its guard
            alts = []
            for g2, a in e.alts:
                if a is None:
                    I.raise_if(ctx, And_(g, g2), TypeErr, 'type:sum-of-None@' + I.where(node))
                else:
                    alts.append((g2, a))
            acc = b2i(alts[-1][1])
            for g2, a in reversed(alts[:-1]):
                acc = If_(g2, b2i(a), acc)
            e = acc
        if isinstance(e, Choice) or not (is_num(e) or is_boolish(e)):
            if isinstance(e, tuple) or isinstance(e, SymSeq):
                raise PyvcUnsupported('sum of sequences')
            raise PyvcUnsupported(f'sum over {type(e).__name__}')
        e = b2i(e)
        gb = concrete_bool(g)
        out = out + (e if gb is True else If_(g, e, 0))
    return simp(out) if is_sym(out) else out


@model(builtins.any)
def m_any(I, ctx, args, kwargs, node):
    seq = to_seq(I, ctx, args[0])
    return Or_(*[And_(g, I.truth(e, ctx)) for g, e in items_of(seq)])


@model(builtins.all)
def m_all(I, ctx, args, kwargs, node):
    seq = to_seq(I, ctx, args[0])
    return And_(*[Implies_(g, I.truth(e, ctx)) for g, e in items_of(seq)])


def _minmax(want_max):
    def m(I, ctx, args, kwargs, node):
        key = kwargs.get('key')
        if len(args) == 1:
            seq = to_seq(I, ctx, args[0])
        else:
            seq = tuple(args)
        if 'default' in kwargs and len(args) == 1:
            # max(xs, default=d): d when xs is empty
            kw2 = {k: v for k, v in kwargs.items() if k != 'default'}
            items = items_of(seq)
            nonempty = Or_(*[g for g, _ in items]) if items else False
            nb = concrete_bool(nonempty)
            if nb is False:
                return kwargs['default']
            if nb is True:
                return m(I, ctx, [seq], kw2, node)
            sub = ctx.fork(nonempty)
            r = m(I, sub, [seq], kw2, node)
            return merge_value(nonempty, r, kwargs['default'])
        if key is None and all(concrete_bool(g) is True and (is_num(e) or is_boolish(e)) for g, e in items_of(seq)) and len(seq) > 0:
            out = b2i(seq[0])
            for e in seq[1:]:
                e = b2i(e)
                if not is_sym(out) and not is_sym(e):
                    out = max(out, e) if want_max else min(out, e)
                else:
                    out = If_(simp(znum(e) > znum(out)) if want_max else simp(znum(e) < znum(out)), e, out)
            return out
        # math.inf support: min(x, inf) = x
        if len(args) == 2 and any(isinstance(a, float) and a == float('inf') for a in args) and not want_max:
            return args[0] if isinstance(args[1], float) else args[1]
        return fold_extreme(I, ctx, seq, key, want_max, node, 'max' if want_max else 'min')
    return m


model(builtins.max)(_minmax(True))
model(builtins.min)(_minmax(False))


@model(builtins.abs)
def m_abs(I, ctx, args, kwargs, node):
    v = b2i(args[0])
    if not is_sym(v):
        return abs(v)
    return If_(simp(v < 0), -v, v)


@model(builtins.range)
def m_range(I, ctx, args, kwargs, node):
    cs = [concrete_int(a) for a in args]
    if all(c is not None for c in cs):
        return range(*cs)
    # symbolic stop: sequence 0..stop-1 bounded by unwind
    if len(args) == 1:
        stop = znum(b2i(args[0]))
        I.raise_if(ctx, simp(stop > I.unwind), UnwindLimit, 'range@' + I.where(node))
        return SymSeq(tuple(range(I.unwind)), simp(z3.If(stop < 0, 0, stop)))
    if len(args) == 2 and cs[0] is not None:
        start, stop = cs[0], znum(b2i(args[1]))
        I.raise_if(ctx, simp(stop - start > I.unwind), UnwindLimit, 'range@' + I.where(node))
        return SymSeq(tuple(range(start, start + I.unwind)), simp(z3.If(stop - start < 0, 0, stop - start)))
    if len(args) == 2:
        start, stop = znum(b2i(args[0])), znum(b2i(args[1]))
        I.raise_if(ctx, simp(stop - start > I.unwind), UnwindLimit, 'range@' + I.where(node))
        return SymSeq(tuple(simp(start + k) for k in range(I.unwind)), simp(z3.If(stop - start < 0, 0, stop - start)))
    raise PyvcUnsupported('range with symbolic step')


@model(builtins.tuple)
def m_tuple(I, ctx, args, kwargs, node):
    if not args:
        return ()
    return to_seq(I, ctx, args[0])


@model(builtins.list)
def m_list(I, ctx, args, kwargs, node):
    return ctx.alloc('list', to_seq(I, ctx, args[0]) if args else ())


@model(collections.deque)
def m_deque(I, ctx, args, kwargs, node):
    return ctx.alloc('deque', to_seq(I, ctx, args[0]) if args else ())


@model(builtins.set, builtins.frozenset)
def m_set(I, ctx, args, kwargs, node):
    return ctx.alloc('set', to_seq(I, ctx, args[0]) if args else ())


@model(builtins.bool)
def m_bool(I, ctx, args, kwargs, node):
    return I.truth(args[0], ctx) if args else False


@model(builtins.int)
def m_int(I, ctx, args, kwargs, node):
    v = args[0]
    if is_boolish(v):
        return b2i(v)
    if is_num(v):
        if is_sym(v) and v.is_real():
            raise PyvcUnsupported('int() of real')
        return v
    if is_concrete(v):
        return int(v)
    raise PyvcUnsupported('int()')


@model(builtins.isinstance)
def m_isinstance(I, ctx, args, kwargs, node):
    v, t = args
    return isinstance_(I, ctx, v, t)


def isinstance_(I, ctx, v, t):
    if isinstance(t, tuple):
        return Or_(*[isinstance_(I, ctx, v, x) for x in t])
    if isinstance(v, Choice):
        return Or_(*[And_(g, isinstance_(I, ctx, a, t)) for g, a in v.alts])
    if isinstance(v, bool) or isinstance(v, z3.BoolRef):
        return issubclass(bool, t)
    if isinstance(v, int) or (isinstance(v, z3.ArithRef) and v.is_int()):
        if getattr(v, '_pyvc_chip', False) and I.chips == 'real':
            return t in (numbers.Number, numbers.Real, numbers.Rational, object)
        return issubclass(int, t)
    if isinstance(v, z3.ArithRef):
        return t in (numbers.Number, numbers.Real, numbers.Rational, object)
    if v is None:
        return t is type(None) or t is object
    if isinstance(v, (Ref, Snapshot)):
        c, _ = content(I, ctx, v)
        if isinstance(c, SymObj):
            return issubclass(c.cls, t)
        if isinstance(c, dict):
            return issubclass(dict, t)
        pyt = {'list': list, 'deque': collections.deque, 'set': set, 'dict': dict}[kind_of(v)]
        return issubclass(pyt, t)
    if isinstance(v, SymObj):
        return issubclass(v.cls, t)
    if isinstance(v, (tuple, SymSeq)):
        return issubclass(tuple, t)
    if isinstance(v, SymMapping):
        return issubclass(dict, t)
    if isinstance(v, SymEnum):
        return issubclass(v.cls, t)
    if isinstance(v, Opaque):
        return issubclass(str, t)
    if isinstance(v, (Func, Closure, BoundMethod, Partial)):
        return t in (object, collections.abc.Callable)
    return isinstance(v, t)


@model(builtins.sorted)
def m_sorted(I, ctx, args, kwargs, node):
    arg = args[0]
    is_set = isinstance(arg, (Ref, Snapshot)) and kind_of(arg) == 'set'
    rev = kwargs.get('reverse', False)
    numeric = is_set or all(is_num(e) or is_boolish(e) for _, e in items_of(to_seq(I, ctx, arg)))
    if not is_set and not kwargs:
        seq0 = to_seq(I, ctx, arg)
        elems = list(seq0.slots) if isinstance(seq0, SymSeq) else list(seq0)

        def numeric_part(x):
            # an optional number that the comprehension's filter has already found to be present (`if entry is not None`): its value
            if isinstance(x, Choice):
                nums = [a for _, a in x.alts if a is not None and (is_num(a) or is_boolish(a))]
                others = [a for _, a in x.alts if a is not None and not (is_num(a) or is_boolish(a))]
                if len(nums) == 1 and not others:
                    return nums[0]
            return x
        if elems and all(isinstance(e, tuple) and len(e) == len(elems[0]) for e in elems):
            conv = [tuple(numeric_part(x) for x in e) for e in elems]
            if all(all(is_num(x) or is_boolish(x) for x in e) for e in conv):
                seq1 = SymSeq(conv, seq0.n, seq0.flags) if isinstance(seq0, SymSeq) else tuple(conv)
                return ctx.alloc('list', sort_seq_lex(I, ctx, seq1))
    if 'key' in kwargs or not numeric or set(kwargs) - {'key', 'reverse'} or not isinstance(rev, bool):
        # keys / non-numeric elements: only when everything needed for the order is concrete (CPython sorts)
        seq = to_seq(I, ctx, arg)
        if not isinstance(seq, tuple) or set(kwargs) - {'key', 'reverse'} or not isinstance(rev, bool):
            raise PyvcUnsupported('sorted with key over a symbolic-length sequence')
        key = kwargs.get('key')
        keys = [I.call(key, [e], {}, ctx, node) if key is not None else e for e in seq]

        def conc(v):
            if isinstance(v, tuple):
                return tuple(conc(x) for x in v)
            if isinstance(v, z3.ExprRef):
                c = concrete_int(v)
                if c is None:
                    raise PyvcUnsupported('sorted with a symbolic key')
                return c
            if not is_concrete(v):
                raise PyvcUnsupported('sorted with a symbolic key')
            return v
        ks = [conc(k) for k in keys]
        order = sorted(range(len(seq)), key=lambda i: ks[i], reverse=rev)
        return ctx.alloc('list', tuple(seq[i] for i in order))
    if is_set:
        seq = dedupe(I, ctx, set_content(I, ctx, arg))
    else:
        seq = to_seq(I, ctx, arg)
    if rev:
        # descending order of numbers: sort the negated values ascending, negate back (absent slots stay last)
        neg = SymSeq([simp(-znum(b2i(e))) if is_sym(b2i(e)) else -b2i(e) for e in as_symseq(seq).slots], as_symseq(seq).n, as_symseq(seq).flags) \
            if isinstance(seq, SymSeq) else tuple((simp(-znum(b2i(e))) if is_sym(b2i(e)) else -b2i(e)) for e in seq)
        out = sort_seq(I, ctx, neg)
        if isinstance(out, SymSeq):
            back = SymSeq([simp(-znum(e)) if is_sym(e) else -e for e in out.slots], out.n, out.flags)
        else:
            back = tuple((simp(-znum(e)) if is_sym(e) else -e) for e in out)
        return ctx.alloc('list', back)
    return ctx.alloc('list', sort_seq(I, ctx, seq))


def sort_seq_lex(I, ctx, seq):
    """ascending lexicographic sort of equal-length tuples of numbers (odd-even transposition network); absent slots sort last"""
    if isinstance(seq, SymSeq):
        vals = [(f, tuple(b2i(x) for x in e)) for f, e in zip(seq.flags, seq.slots)]
    else:
        vals = [(True, tuple(b2i(x) for x in e)) for e in seq]

    def lex_lt(a, b):
        out = False
        for x, y in reversed(list(zip(a, b))):
            lt = simp(znum(x) < znum(y)) if (is_sym(x) or is_sym(y)) else (x < y)
            eq = simp(znum(x) == znum(y)) if (is_sym(x) or is_sym(y)) else (x == y)
            out = Or_(lt, And_(eq, out))
        return out
    n = len(vals)
    for rnd in range(n):
        for i in range(rnd % 2, n - 1, 2):
            (ga, a), (gb, b) = vals[i], vals[i + 1]
            sw = And_(gb, Or_(Not_(ga), lex_lt(b, a)))
            vals[i] = (If_(sw, gb, ga), tuple(If_(sw, y, x) for x, y in zip(a, b)))
            vals[i + 1] = (If_(sw, ga, gb), tuple(If_(sw, x, y) for x, y in zip(a, b)))
    if isinstance(seq, SymSeq):
        return SymSeq([e for _, e in vals], seq_len(seq))
    return tuple(e for _, e in vals)


def dedupe(I, ctx, seq):
    items = items_of(seq)
    out = ()
    for k, (g, e) in enumerate(items):
        dup = Or_(*[And_(g2, I.eq(e2, e, ctx)) for g2, e2 in items[:k]])
        out = seq_append_if(I, ctx, out, And_(g, Not_(dup)), e)
    return out


def sort_seq(I, ctx, seq):
    """ascending sort of numbers (odd-even transposition network); absent slots sort last, so the
    result is in prefix form"""
    if isinstance(seq, SymSeq):
        vals = [(f, b2i(e)) for f, e in zip(seq.flags, seq.slots)]
    else:
        vals = [(True, b2i(e)) for e in seq]
    for g, e in vals:
        if not is_num(e):
            raise PyvcUnsupported('sort of non-numbers')
    n = len(vals)
    for rnd in range(n):
        for i in range(rnd % 2, n - 1, 2):
            (ga, a), (gb, b) = vals[i], vals[i + 1]
            if not is_sym(a) and not is_sym(b) and concrete_bool(ga) is True and concrete_bool(gb) is True:
                sw = b < a
            else:
                sw = And_(gb, Or_(Not_(ga), simp(znum(b) < znum(a))))
            vals[i] = (If_(sw, gb, ga), If_(sw, b, a))
            vals[i + 1] = (If_(sw, ga, gb), If_(sw, a, b))
    if isinstance(seq, SymSeq):
        return SymSeq([e for _, e in vals], seq_len(seq))
    return tuple(e for _, e in vals)


@model(builtins.enumerate)
def m_enumerate(I, ctx, args, kwargs, node):
    seq = to_seq(I, ctx, args[0])
    start = args[1] if len(args) > 1 else kwargs.get('start', 0)
    c = concrete_int(start) if not isinstance(start, bool) else int(start)
    if c is not None:
        start = c
    elif not (isinstance(start, z3.ExprRef) and is_num(start)):
        raise PyvcUnsupported('enumerate with a start that is not an integer')

    def at(k):
        if isinstance(start, int):
            return start + k if not is_sym(k) else simp(start + k) if start else k
        return simp(start + k)
    if isinstance(seq, SymSeq):
        rk = list(range(seq.cap)) if seq.n is not None else ranks(seq)
        return SymSeq([(at(rk[k]), e) for k, e in enumerate(seq.slots)], seq.n, seq.flags)
    return tuple((at(k), e) for k, e in enumerate(seq))


@model(builtins.zip)
def m_zip(I, ctx, args, kwargs, node):
    seqs = [to_seq(I, ctx, a) for a in args]
    if all(isinstance(s_, tuple) for s_ in seqs):
        return tuple(zip(*seqs))
    ss = [as_symseq(to_dense(I, ctx, s_)) for s_ in seqs]
    cap = min(s_.cap for s_ in ss)
    n = ss[0].n
    for s_ in ss[1:]:
        n = If_(I.order(ast.Lt(), s_.n, n, ctx, node), s_.n, n)
    return SymSeq([tuple(s_.slots[k] for s_ in ss) for k in range(cap)], n)


@model(builtins.map)
def m_map(I, ctx, args, kwargs, node):
    fn = args[0]
    if len(args) == 2:
        seq = to_seq(I, ctx, args[1])
        if isinstance(seq, SymSeq):
            slots = []
            for g, e in zip(seq.flags, seq.slots):
                if concrete_bool(g) is False:
                    slots.append(None)
                    continue
                sub = ctx.fork(g)
                slots.append(I.call(fn, [e], {}, sub, node))
            return SymSeq(slots, seq.n, seq.flags)
        return tuple(I.call(fn, [e], {}, ctx, node) for e in seq)
    seqs = [to_seq(I, ctx, a) for a in args[1:]]
    if all(isinstance(s, tuple) for s in seqs):
        return tuple(I.call(fn, list(es), {}, ctx, node) for es in zip(*seqs))
    raise PyvcUnsupported('map over several symbolic sequences')


@model(itertools.starmap)
def m_starmap(I, ctx, args, kwargs, node):
    fn = args[0]
    seq = to_seq(I, ctx, args[1])
    if isinstance(seq, SymSeq):
        raise PyvcUnsupported('starmap over symbolic-length sequence')
    return tuple(I.call(fn, list(to_seq(I, ctx, es)), {}, ctx, node) for es in seq)


def _filter(I, ctx, fn, seq, node, negate=False):
    out = ()
    for g, e in items_of(seq):
        if concrete_bool(g) is False:
            continue
        sub = ctx if concrete_bool(g) is True else ctx.fork(g)
        keep = I.truth(e if fn is None else I.call(fn, [e], {}, sub, node), sub)
        if negate:
            keep = Not_(keep)
        if isinstance(e, Choice):
            # alternatives excluded by the filter condition itself are dropped from the kept element
            alts = [(ga, a) for ga, a in e.alts if concrete_bool(simp(And_(ga, keep))) is not False]
            if alts and len(alts) < len(e.alts):
                e = mk_choice(alts)
        out = seq_append_if(I, ctx, out, And_(g, keep), e)
    return out


@model(builtins.filter)
def m_filter(I, ctx, args, kwargs, node):
    return _filter(I, ctx, args[0], to_seq(I, ctx, args[1]), node)


@model(itertools.filterfalse)
def m_filterfalse(I, ctx, args, kwargs, node):
    return _filter(I, ctx, args[0], to_seq(I, ctx, args[1]), node, negate=True)


@model(itertools.chain)
def m_chain(I, ctx, args, kwargs, node):
    out = ()
    for a in args:
        out = seq_concat(I, ctx, out, to_seq(I, ctx, a))
    return out


def object_init_marker(*a):
    raise RuntimeError('marker')


@model(object_init_marker)
def m_object_init(I, ctx, args, kwargs, node):
    return None


def chain_from_iterable_marker(*a):
    raise RuntimeError('marker')


@model(chain_from_iterable_marker)
def m_chain_from_iterable(I, ctx, args, kwargs, node):
    outer = to_seq(I, ctx, args[0])
    out = ()
    for g, inner in items_of(outer):
        s_ = to_seq(I, ctx, inner)
        if concrete_bool(g) is True:
            out = seq_concat(I, ctx, out, s_)
        else:
            s2 = as_symseq(s_)
            out = seq_concat(I, ctx, out, SymSeq(s2.slots, flags=[And_(g, f) for f in s2.flags]))
    return out


@model(itertools.combinations)
def m_combinations(I, ctx, args, kwargs, node):
    """assumption 4 of the design: itertools.combinations(xs, k) yields exactly the k-subsequences of xs by index,
    in lexicographic index order -- executed by CPython itself on the concrete index structure"""
    seq = to_seq(I, ctx, args[0])
    k = concrete_int(b2i(args[1]))
    if not isinstance(seq, tuple) or k is None:
        raise PyvcUnsupported('combinations of a symbolic-length sequence')
    return tuple(tuple(seq[i] for i in idx) for idx in itertools.combinations(range(len(seq)), k))


@model(itertools.islice)
def m_islice(I, ctx, args, kwargs, node):
    seq = args[0]
    if len(args) == 2:
        return getslice(I, ctx, to_seq(I, ctx, seq), None, args[1], node)
    if len(args) == 3:
        return getslice(I, ctx, to_seq(I, ctx, seq), args[1], args[2], node)
    raise PyvcUnsupported('islice with step')


@model(builtins.next)
def m_next(I, ctx, args, kwargs, node):
    seq = to_seq(I, ctx, args[0])
    if len(args) > 1:
        raise PyvcUnsupported('next with default')
    items = items_of(seq)
    I.raise_if(ctx, Not_(Or_(*[g for g, _ in items])), StopIteration, 'next@' + I.where(node))
    if ctx.dead or not items:
        return None
    out = items[-1][1]
    for g, e in reversed(items[:-1]):
        out = merge_value(g, e, out)
    return out


@model(functools.partial)
def m_partial(I, ctx, args, kwargs, node):
    return Partial(args[0], args[1:], kwargs)


@model(operator.getitem)
def m_getitem(I, ctx, args, kwargs, node):
    return getitem(I, ctx, args[0], args[1], node)


@model(operator.gt)
def m_gt(I, ctx, args, kwargs, node):
    return I.order(ast.Gt(), args[0], args[1], ctx, node)


@model(operator.eq)
def m_eq(I, ctx, args, kwargs, node):
    return I.eq(args[0], args[1], ctx)


@model(operator.contains)
def m_contains(I, ctx, args, kwargs, node):
    return contains(I, ctx, args[0], args[1], node)


@model(list.copy)
def m_list_copy(I, ctx, args, kwargs, node):
    c, heap = content(I, ctx, args[0])
    return ctx.alloc('list', wrap_seq(c, heap, ctx))


@model(random.sample)
def m_sample(I, ctx, args, kwargs, node):
    k = kwargs.get('k', args[1] if len(args) > 1 else None)
    if concrete_int(k) == 0:
        return ctx.alloc('list', ())
    raise PyvcUnsupported('random.sample of a non-empty selection')


@model(operator.sub)
def m_sub(I, ctx, args, kwargs, node):
    return I.binop(ast.Sub(), args[0], args[1], ctx, node)


@model(operator.is_not)
def m_is_not(I, ctx, args, kwargs, node):
    return Not_(I.is_(args[0], args[1], ctx))


@model(warnings.warn)
def m_warn(I, ctx, args, kwargs, node):
    I.raise_if(ctx, I.warn_flag, UserWarning, 'warn@' + I.where(node))
    return None


@model(builtins.repr, builtins.str)
def m_repr(I, ctx, args, kwargs, node):
    if args and isinstance(args[0], str):
        return args[0]
    return Opaque('repr')


@model(random.shuffle)
def m_shuffle(I, ctx, args, kwargs, node):
    """in-place arbitrary permutation: fresh sequence constrained to be a permutation (same length,
    mutual containment for duplicate-free content; for general content: each old element occurs)"""
    ref = args[0]
    seq = ctx.get(ref)
    new = permutation_of(I, ctx, seq)
    ctx.put(ref, new)
    return None


def fresh_like(I, ctx, v, base):
    """fresh symbolic value of the same type/shape as v"""
    if isinstance(v, bool) or isinstance(v, z3.BoolRef):
        return I.fresh(base, 'bool')
    if isinstance(v, int):
        return I.fresh(base, 'int')
    if isinstance(v, z3.ArithRef):
        return I.fresh(base, 'int' if v.is_int() else 'real')
    if isinstance(v, SymEnum) or isinstance(v, enum.Enum):
        e = to_symenum(v)
        idx = I.fresh(base, 'int')
        I.axiom(z3.And(idx >= 0, idx < len(e.members)))
        return SymEnum(e.cls, idx)
    if isinstance(v, SymObj):
        return SymObj(v.cls, {k: fresh_like(I, ctx, x, base + '.' + k) for k, x in v.fields.items()}, v.ident)
    if isinstance(v, tuple):
        return tuple(fresh_like(I, ctx, x, base) for x in v)
    if v is None:
        return None
    raise PyvcUnsupported(f'fresh_like of {type(v).__name__}')


def count_in(I, ctx, seq, x):
    return sum_terms([b2i(And_(g, I.eq(e, x, ctx))) for g, e in items_of(seq)])


def permutation_of(I, ctx, seq):
    """an arbitrary permutation of seq: fresh elements, same length, same members (both directions);
    for every value in I.tracked (skolem constants of pointwise arguments) also the same multiplicity."""
    if isinstance(seq, tuple) and len(seq) <= 1:
        return seq
    s = as_symseq(seq)
    if s.cap == 0:
        return seq
    new_slots = tuple(fresh_like(I, ctx, e, 'perm') for e in s.slots)
    plain = SymSeq(new_slots, s.n, s.flags)
    new = SymSeq(new_slots, s.n, s.flags, perms=((0, s.cap, seq, True),))
    I.axiom(And_(subset(I, ctx, plain, seq), subset(I, ctx, seq, plain)))
    if getattr(I, 'debug', None) is not None:
        I.debug.append(('perm', new, as_symseq(seq)))
    for t in getattr(I, 'tracked', ()):
        I.axiom(I.eq(count_in(I, ctx, plain, t), count_in(I, ctx, seq, t), ctx))
    return new


# enum lookup: Rank('A')
def enum_lookup(I, ctx, cls, v, node):
    if is_concrete(v):
        try:
            return cls(v)
        except ValueError:
            I.raise_if(ctx, True, ValueError, f'enum:{cls.__name__}@' + I.where(node))
            return None
    raise PyvcUnsupported('enum lookup with symbolic value')


@model(builtins.divmod)
def m_divmod(I, ctx, args, kwargs, node):
    a, d = b2i(args[0]), b2i(args[1])
    I.raise_if(ctx, I.eq(d, 0, ctx), ZeroDivisionError, 'divmod@' + I.where(node))
    if ctx.dead:
        return None
    if not is_sym(a) and not is_sym(d):
        return divmod(a, d)
    x, y = znum(a), znum(d)
    if x.is_int() and y.is_int():
        return I.floor_divmod(ctx, x, y)
    # exact rationals (Fraction / Decimal read as the numbers they denote): q = floor(x / y), r = x - q * y, with 0 <= r < |y| towards
    # the sign of y -- stated for a positive divisor, which is the only use (a number of shares)
    I.raise_if(ctx, simp(y < 0), UnwindLimit, 'divmod-of-reals-by-a-negative-divisor@' + I.where(node))
    if ctx.dead:
        return None
    q = I.fresh('floor_quotient', 'int')
    xr, yr = z3.ToReal(x) if x.is_int() else x, z3.ToReal(y) if y.is_int() else y
    I.axiom(z3.Implies(yr > 0, z3.And(z3.ToReal(q) * yr <= xr, xr < (z3.ToReal(q) + 1) * yr)))
    return (q, simp(xr - z3.ToReal(q) * yr))


@model(builtins.round)
def m_round(I, ctx, args, kwargs, node):
    v = args[0]
    if len(args) > 1:
        raise PyvcUnsupported('round with digits')
    if not is_sym(v):
        return round(v)
    x = znum(v)
    if x.is_int():
        return x
    # round-half-even: the result is an integer within 1/2 of x (ties: either neighbour is allowed here,
    # the contract only needs |r - x| <= 1/2)
    r = I.fresh('round', 'int')
    I.axiom(z3.And(2 * z3.ToReal(r) - 2 * x <= 1, 2 * x - 2 * z3.ToReal(r) <= 1))
    return r


@model(builtins.hash)
def m_hash(I, ctx, args, kwargs, node):
    hook = getattr(I, 'hash_hook', None)
    if hook is not None:
        return hook(ctx, args[0])
    v = args[0]
    if isinstance(v, (Ref, Snapshot)):
        v = content(I, ctx, v)[0]
    import dataclasses as _dc
    if isinstance(v, SymObj) and _dc.is_dataclass(v.cls) and v.cls.__dataclass_params__.frozen and v.cls.__dataclass_params__.eq:
        # frozen dataclass: hash of the tuple of compare-fields -- an (uninterpreted) function of those fields
        fs = [znum(b2i(v.fields[f.name])) for f in _dc.fields(v.cls) if (f.compare if f.hash is None else f.hash)]
        fn = z3.Function(f'pyhash_{v.cls.__name__}', *([z3.IntSort()] * len(fs)), z3.IntSort())
        return fn(*fs)
    if is_concrete(v):
        return hash(v)
    raise PyvcUnsupported('hash')


@model(builtins.getattr)
def m_getattr(I, ctx, args, kwargs, node):
    if not isinstance(args[1], str):
        raise PyvcUnsupported('getattr with symbolic name')
    if len(args) > 2:
        raise PyvcUnsupported('getattr with default')
    return I.getattr(args[0], args[1], ctx, None, node)


@model(builtins.type)
def m_type(I, ctx, args, kwargs, node):
    v = args[0]
    if isinstance(v, (Ref, Snapshot)):
        c, _ = content(I, ctx, v)
        if isinstance(c, SymObj):
            return c.cls
    if isinstance(v, SymObj):
        return v.cls
    if is_concrete(v):
        return type(v)
    raise PyvcUnsupported('type()')


CHOICE_AWARE = {m_len, m_any, m_all, m_bool, m_isinstance, m_tuple, m_list, m_deque, m_set, m_partial, m_is_not,
                m_repr, m_getattr, m_type, m_filter, m_filterfalse, m_map, m_sum, m_next, m_warn}


# ------------------------------------------------------------------------------------------------
# container methods
# ------------------------------------------------------------------------------------------------

def call_method(I, ctx, recv, name, args, kwargs, node):
    if isinstance(recv, Snapshot) and name in MUTATORS:
        raise PyvcUnsupported(f'mutation of an old-state object ({name})')
    if isinstance(recv, (Ref, Snapshot)):
        c, heap = content(I, ctx, recv)
        kind = kind_of(recv)
        fn = METHODS.get((kind, name)) or METHODS.get(('seq', name))
        if fn is None:
            raise PyvcUnsupported(f'method {kind}.{name} at {I.where(node)}')
        return fn(I, ctx, recv, c, heap, args, kwargs, node)
    if isinstance(recv, (tuple, SymSeq, range)):
        seq = tuple(recv) if isinstance(recv, range) else recv
        fn = METHODS.get(('tuple', name)) or METHODS.get(('seq', name))
        if fn is None:
            raise PyvcUnsupported(f'method tuple.{name} at {I.where(node)}')
        return fn(I, ctx, None, seq, ctx.heap, args, kwargs, node)
    if isinstance(recv, SymMapping):
        if name == 'items':
            return recv.pairs
        if name == 'keys':
            return tuple(k for k, _ in recv.pairs)
        if name == 'values':
            return tuple(v for _, v in recv.pairs)
        raise PyvcUnsupported(f'mapping method {name}')
    if type(recv).__name__ == 'AbstractHandType':
        if name in ('from_game', 'from_game_or_none'):
            return abstract_from_game(I, ctx, recv, args, node, name == 'from_game_or_none', kwargs)
        raise PyvcUnsupported(f'abstract hand type method {name}')
    if isinstance(recv, str):
        if all(is_concrete(a) for a in args):
            return I.from_native(getattr(recv, name)(*args, **kwargs))
    raise PyvcUnsupported(f'method {name} of {type(recv).__name__} at {I.where(node)}')


def struct_key(I, ctx, v):
    """canonical text of a symbolic value (for memoising abstract functions)"""
    if isinstance(v, z3.ExprRef):
        return v.sexpr()
    if isinstance(v, tuple):
        return '(' + ' '.join(struct_key(I, ctx, x) for x in v) + ')'
    if isinstance(v, SymSeq):
        return '[' + ' '.join(f'{struct_key(I, ctx, f)}?{struct_key(I, ctx, x)}' for f, x in zip(v.flags, v.slots)) + ']'
    if isinstance(v, SymObj):
        return v.cls.__name__ + '{' + ' '.join(f'{k}={struct_key(I, ctx, x)}' for k, x in v.fields.items()) + '}'
    if isinstance(v, SymEnum):
        return f'{v.cls.__name__}#{struct_key(I, ctx, v.idx)}'
    if isinstance(v, Choice):
        return '<' + ' | '.join(f'{struct_key(I, ctx, g)}:{struct_key(I, ctx, a)}' for g, a in v.alts) + '>'
    if isinstance(v, (Ref, Snapshot)):
        c, heap = content(I, ctx, v)
        if isinstance(c, SymObj):
            return c.cls.__name__ + '{' + ' '.join(f'{k}={struct_key(I, ctx, wrap(x, heap, ctx))}' for k, x in c.fields.items()) + '}'
        return struct_key(I, ctx, wrap_seq(c, heap, ctx) if isinstance(c, (tuple, SymSeq)) else c)
    if isinstance(v, BitSet):
        return 'bits(' + ' '.join(struct_key(I, ctx, b) for b in v.bits) + ')'
    if isinstance(v, TailSeq):
        return f'tail({v.prefix}+' + ' '.join(struct_key(I, ctx, x) for x in v.items) + ')'
    if isinstance(v, FlagSet):
        return 'flags(' + ' '.join(struct_key(I, ctx, b) for b in v.flags.values()) + ')'
    return repr(v)


def abstract_from_game(I, ctx, ht, args, node, or_none, kwargs=None):
    """`hand_type.from_game(hole, board)` for an abstract hand type: the result depends only on the
    cards passed (memoised on their structure); it is a hand of some strength, or ValueError when no
    hand can be formed (C05 contract).  Strengths of one type are totally pre-ordered (C04 contract)."""
    from .shapes import AbstractHand
    args = list(args)
    if kwargs and 'board_cards' in kwargs:
        args = args[:1] + [kwargs['board_cards']]
    seqs = [to_seq(I, ctx, a) for a in args]
    key = (ht.k, tuple(struct_key(I, ctx, q) for q in seqs))
    if key not in I.memo_uf:
        k = len(I.memo_uf)
        I.memo_uf[key] = (z3.Bool(f'hand{k}?valid'), z3.Int(f'hand{k}.strength'))
        # the result is a FUNCTION of the cards passed: two calls whose card sequences are equal (however they were computed:
        # filter(None, xs), a comprehension, ...) give the same hand -- congruence axioms between the applications
        if not hasattr(I, 'memo_uf_args'):
            I.memo_uf_args = {}
        v1, s1 = I.memo_uf[key]
        for key2, seqs2 in I.memo_uf_args.items():
            if key2[0] != ht.k or len(seqs2) != len(seqs):
                continue
            same = And_(*[seq_eq(I, ctx, a, b) for a, b in zip(seqs, seqs2)])
            if concrete_bool(same) is False:
                continue
            v2, s2 = I.memo_uf[key2]
            I.axiom(Implies_(same, z3.And(v1 == v2, s1 == s2)))
        I.memo_uf_args[key] = seqs
    valid, strength = I.memo_uf[key]
    hand = SymObj(AbstractHand, {'strength': strength, 'type': ht.k})
    if or_none:
        return mk_choice([(valid, hand), (Not_(valid), None)])
    I.raise_if(ctx, Not_(valid), ValueError, 'no-hand@' + I.where(node))
    return hand


MUTATORS = {'append', 'extend', 'pop', 'popleft', 'remove', 'clear', 'rotate', 'sort', 'add', 'appendleft',
            'insert', 'discard', 'update'}
METHODS = {}


def method(*keys):
    def deco(fn):
        for k in keys:
            METHODS[k] = fn
        return fn
    return deco


@method(('list', 'append'), ('deque', 'append'))
def _append(I, ctx, recv, c, heap, args, kwargs, node):
    if isinstance(c, Choice) and all(isinstance(a, TailSeq) for _, a in c.alts):
        ctx.put(recv, Choice(tuple((g, TailSeq(a.prefix, a.items + (args[0],))) for g, a in c.alts)))
        return None
    if isinstance(c, TailSeq):
        ctx.put(recv, TailSeq(c.prefix, c.items + (args[0],)))
        return None
    ctx.put(recv, seq_append(I, ctx, c, args[0]))
    return None


@method(('list', 'extend'), ('deque', 'extend'))
def _extend(I, ctx, recv, c, heap, args, kwargs, node):
    ctx.put(recv, seq_concat(I, ctx, c, to_seq(I, ctx, args[0])))
    return None


@method(('list', 'clear'), ('deque', 'clear'))
def _clear(I, ctx, recv, c, heap, args, kwargs, node):
    ctx.put(recv, ())
    return None


@method(('set', 'clear'))
def _set_clear(I, ctx, recv, c, heap, args, kwargs, node):
    ctx.put(recv, BitSet([False] * len(c.bits)) if isinstance(c, BitSet) else ())
    return None


@method(('set', 'update'))
def _set_update(I, ctx, recv, c, heap, args, kwargs, node):
    if isinstance(c, BitSet):
        raise PyvcUnsupported('update of an index set')
    cur = c
    for a in args:
        for g, e in items_of(to_seq(I, ctx, a)):
            cur = seq_append_if(I, ctx, cur, g, e)
    ctx.put(recv, cur)
    return None


@method(('set', 'add'))
def _set_add(I, ctx, recv, c, heap, args, kwargs, node):
    x = args[0]
    if isinstance(c, BitSet):
        ci = concrete_int(x)
        if ci is not None:
            ctx.put(recv, BitSet(c.bits[:ci] + (True,) + c.bits[ci + 1:]))
        else:
            I.raise_if(ctx, Not_(simp(z3.And(znum(x) >= 0, znum(x) < len(c.bits)))), IndexError, 'bitset-range@' + I.where(node))
            ctx.put(recv, BitSet([Or_(b, simp(znum(x) == k)) for k, b in enumerate(c.bits)]))
        return None
    ctx.put(recv, seq_append_if(I, ctx, c, Not_(contains(I, ctx, c, x, node)), x))
    return None


@method(('list', 'copy'), ('deque', 'copy'), ('set', 'copy'))
def _copy(I, ctx, recv, c, heap, args, kwargs, node):
    return ctx.alloc(kind_of(recv), wrap_seq(c, heap, ctx) if not isinstance(c, BitSet) else c)


@method(('seq', 'index'))
def _index(I, ctx, recv, c, heap, args, kwargs, node):
    x = args[0]
    seq = as_symseq(wrap_seq(c, heap, ctx)) if not isinstance(c, TailSeq) else None
    if seq is None:
        raise PyvcUnsupported('index in abstract list prefix')
    hits = [And_(f, I.eq(e, x, ctx)) for f, e in zip(seq.flags, seq.slots)]
    I.raise_if(ctx, Not_(Or_(*hits)), ValueError, 'index-absent@' + I.where(node))
    if ctx.dead or not hits:
        return None
    rk = list(range(seq.cap)) if seq.n is not None else ranks(seq)
    out = rk[-1]
    for k in range(len(hits) - 2, -1, -1):
        out = If_(hits[k], rk[k], out)
    return out


@method(('seq', 'count'))
def _count(I, ctx, recv, c, heap, args, kwargs, node):
    x = args[0]
    return sum_terms([b2i(And_(g, I.eq(e, x, ctx))) for g, e in items_of(wrap_seq(c, heap, ctx))])


@method(('seq', '__contains__'))
def _contains(I, ctx, recv, c, heap, args, kwargs, node):
    return contains(I, ctx, recv if recv is not None else c, args[0], node)


def remove_at(I, ctx, c, at_flags):
    """sequence without the element sitting in the flagged slot (at most one flag holds)"""
    if isinstance(c, tuple) and all(concrete_bool(f) is not None for f in at_flags):
        return tuple(e for f, e in zip(at_flags, c) if not concrete_bool(f))
    s_ = as_symseq(c)
    return SymSeq(s_.slots, flags=[And_(f, Not_(a)) for f, a in zip(s_.flags, at_flags)])


@method(('list', 'remove'), ('deque', 'remove'))
def _remove(I, ctx, recv, c, heap, args, kwargs, node):
    x = args[0]
    s_ = as_symseq(c)
    hits = [And_(f, I.eq(e, x, ctx)) for f, e in zip(s_.flags, s_.slots)]
    I.raise_if(ctx, Not_(Or_(*hits)), ValueError, 'remove-absent@' + I.where(node))
    if ctx.dead:
        return None
    first = []
    seen = False
    for h in hits:
        first.append(And_(h, Not_(seen)))
        seen = Or_(seen, h)
    ctx.put(recv, remove_at(I, ctx, c, first))
    return None


@method(('set', 'remove'), ('set', 'discard'))
def _set_remove(I, ctx, recv, c, heap, args, kwargs, node):
    x = args[0]
    if isinstance(c, BitSet):
        ctx.put(recv, BitSet([And_(b, Not_(I.eq(x, k, ctx))) for k, b in enumerate(c.bits)]))
        return None
    raise PyvcUnsupported('set.remove on general set')


@method(('list', 'pop'), ('deque', 'pop'))
def _pop(I, ctx, recv, c, heap, args, kwargs, node):
    n = seq_len(c)
    idx = args[0] if args else -1
    i = norm_index(I, ctx, idx, n, node, 'pop')
    if i is None or ctx.dead:
        return None
    s_ = as_symseq(c)
    if s_.cap == 0 or (concrete_int(i) is not None and concrete_int(i) >= s_.cap):
        ctx.kill()
        return None
    val = nth(I, ctx, s_, i)
    ctx.put(recv, remove_at(I, ctx, c, position_flags(I, ctx, s_, i)))
    return val


@method(('deque', 'popleft'))
def _popleft(I, ctx, recv, c, heap, args, kwargs, node):
    return _pop(I, ctx, recv, c, heap, [0], {}, node)


@method(('deque', 'rotate'))
def _rotate(I, ctx, recv, c, heap, args, kwargs, node):
    r = b2i(args[0]) if args else 1
    if not isinstance(c, tuple):
        # symbolic length: bring to prefix form, then decide per possible length l (0..cap):
        #   new[j] = old[(j - r) mod l]  for j < l
        d = to_dense(I, ctx, c)
        if isinstance(d, tuple):
            ctx.put(recv, d)
            return _rotate(I, ctx, recv, d, heap, args, kwargs, node)
        cap = d.cap
        ln = znum(seq_len(d))
        slots = []
        for j in range(cap):
            e = d.slots[j]
            for l in range(cap, 1, -1):
                if j >= l:
                    continue
                _, rm = I.floor_divmod(ctx, znum(r), z3.IntVal(l))
                ej = d.slots[(j - (l - 1)) % l]
                for s_ in range(l - 2, -1, -1):
                    ej = merge_value(simp(rm == s_), d.slots[(j - s_) % l], ej)
                e = merge_value(simp(ln == l), ej, e)
            slots.append(e)
        ctx.put(recv, SymSeq(slots, d.n))
        return None
    n = len(c)
    if n == 0:
        return None
    cr = concrete_int(r)
    if cr is not None:
        k = cr % n
        ctx.put(recv, c[-k:] + c[:-k] if k else c)
        return None
    # new[j] = old[(j - r) mod n]
    _, rm = I.floor_divmod(ctx, znum(r), z3.IntVal(n))
    new = []
    for j in range(n):
        e = c[(j - (n - 1)) % n]
        for s_ in range(n - 2, -1, -1):
            e = merge_value(simp(rm == s_), c[(j - s_) % n], e)
        new.append(e)
    ctx.put(recv, tuple(new))
    return None


@method(('list', 'sort'))
def _sort(I, ctx, recv, c, heap, args, kwargs, node):
    if kwargs:
        raise PyvcUnsupported('sort with key')
    ctx.put(recv, sort_seq(I, ctx, c))
    return None


@method(('dict', 'items'))
def _items(I, ctx, recv, c, heap, args, kwargs, node):
    return tuple((k, wrap(v, heap, ctx)) for k, v in c.items())


@method(('dict', 'get'))
def _dget(I, ctx, recv, c, heap, args, kwargs, node):
    if is_concrete(args[0]):
        return wrap(c.get(args[0], args[1] if len(args) > 1 else None), heap, ctx)
    raise PyvcUnsupported('dict.get symbolic key')

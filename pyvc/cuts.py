"""Replacement of callee bodies by contracts at call sites (modular verification)."""
from __future__ import annotations

from .values import *  # noqa
from .shapes import fresh_state
from .values import znum, zbool, concrete_int
import z3

CONFIG_FIELDS = ('automations', 'deck', 'hand_types', 'streets', 'betting_structure', 'ante_trimming_status',
                 'bring_in', 'player_count', 'mode', 'starting_board_count', 'divmod', 'rake', 'antes',
                 'blinds_or_straddles', 'starting_stacks')

_havoc_ctr = [0]


def havoc_state(I, ctx, ref, shape, keep=CONFIG_FIELDS, logged=0):
    """replace every non-configuration field of the State at `ref` by fresh symbolic content.  The operation log is append-only (C15):
    the new log is at least as long as the old one, longer by `logged` when the callee was handed that many records to append."""
    from . import models
    _havoc_ctr[0] += 1
    new_ref, wf = fresh_state(I, ctx, shape, prefix=f'h{_havoc_ctr[0]}.')
    old = ctx.get(ref)
    new = ctx.get(new_ref)
    try:
        old_len = models.m_len(I, ctx, [old.fields['operations']], {}, None)
        new_len = models.m_len(I, ctx, [new.fields['operations']], {}, None)
        I.axiom(znum(new_len) >= znum(old_len) + logged)
    except Exception:   # noqa  (a state without a log: nothing to say)
        pass
    fields = dict(new.fields)
    for k in keep:
        fields[k] = old.fields[k]
    ctx.put(ref, SymObj(old.cls, fields, old.ident))
    I.axiom(wf)
    return new_ref


def havoc_cut(shape, keep=CONFIG_FIELDS):
    """contract `ensures true, modifies every non-configuration field, raises nothing`"""
    def cut(I, ctx, fn, args, kwargs, node):
        havoc_state(I, ctx, args[0], shape, keep, logged=1 if (len(args) > 1 and args[1] is not None and not isinstance(args[1], Choice)) else 0)
        return None
    cut._havoc = True
    return cut


def state_key(I, ctx, ref):
    from . import models
    c = ctx.get(ref) if isinstance(ref, Ref) else ref.heap[ref.ref.cell]
    return models.struct_key(I, ctx, ref)


def pure_cut(result, name=None, ignore_fields=()):
    """contract `pure: modifies nothing, raises nothing, result is a function of (state, arguments)`.
    result: 'bool' | 'chips' | 'int'.  The same (state, arguments) give the same result symbol, so two
    calls on an unchanged state agree (determinism is part of the callee's contract)."""
    def cut(I, ctx, fn, args, kwargs, node):
        from . import models
        if ignore_fields:
            # the callee does not read these fields (frame of the callee, checked structurally by the driver that uses this)
            st, heap = models.content(I, ctx, args[0])
            skey = tuple((k, models.struct_key(I, ctx, models.wrap(v, heap, ctx))) for k, v in st.fields.items() if k not in ignore_fields)
        else:
            skey = models.struct_key(I, ctx, args[0])
        key = (fn.qual, skey, tuple(models.struct_key(I, ctx, a) for a in args[1:]))
        memo = I.memo_uf
        if key not in memo:
            k = len(memo)
            base = (name or fn.qual.rsplit('.', 1)[-1]) + f'!{k}'
            memo[key] = I.fresh(base, {'bool': 'bool', 'chips': 'chips', 'int': 'int'}[result])
            if not hasattr(I, 'cut_log'):
                I.cut_log = []
            I.cut_log.append((fn.qual, memo[key]))
        return memo[key]
    cut._replayable = True        # the native replay stubs the callee with the solver's values
    return cut


def optional_strength_cut(name='entry'):
    """contract of a lookup query (`get_entry_or_none`) used where only its order matters: the result is
    None or an entry; entries are totally pre-ordered by their index (C04), modelled as an integer strength"""
    def cut(I, ctx, fn, args, kwargs, node):
        import z3
        from . import models
        # the same lookup asked about the same cards gives the same answer (the lookup is a constant table)
        lk = ctx.get(args[0]) if isinstance(args[0], Ref) else args[0]
        key = (type(lk).__name__ if not isinstance(lk, SymObj) else lk.cls.__name__,
               models.struct_key(I, ctx, models.to_seq(I, ctx, args[1])))
        memo = I.__dict__.setdefault('strength_memo', {})
        if key not in memo:
            none = I.fresh(name + '?none', 'bool')
            v = I.fresh(name, 'int')
            memo[key] = Choice(((none, None), (z3.Not(none), v)))
        return memo[key]
    return cut


def rake_cut():
    """assumed contract of `State.rake` (proved for the default helper under C19; assumed of a user-supplied one):
    for amount >= 0 the result is a pair (raked, unraked) with raked + unraked == amount, both >= 0"""
    def cut(I, ctx, fn, args, kwargs, node):
        amount = args[0]
        raked = I.fresh('raked', 'chips')
        unraked = I.fresh('unraked', 'chips')
        I.axiom(z3.Implies(znum(amount) >= 0, z3.And(raked + unraked == znum(amount), raked >= 0, unraked >= 0)))
        if not hasattr(I, 'cut_log'):
            I.cut_log = []
        I.cut_log.append(('pokerkit.utilities.rake#raked', raked))
        I.cut_log.append(('pokerkit.utilities.rake#unraked', unraked))
        return (raked, unraked)
    cut._replayable = True        # the native replay stubs State.rake with the solver's values
    return cut


def can_win_now_cut():
    """assumed contract of `State.can_win_now` where only hand killing uses it (lemma m1 of C12 / C02): pure, and
    among the players still in the hand at least one can win now (a strongest hand of some pot's contenders)"""
    def cut(I, ctx, fn, args, kwargs, node):
        st = ctx.get(args[0])
        i = concrete_int(args[1])
        if i is None:
            raise PyvcUnsupported('can_win_now cut with a symbolic player index')
        memo = I.__dict__.setdefault('cwn', {})
        if not memo:
            from . import models
            statuses = models.to_seq(I, ctx, st.fields['statuses'])
            n = len(statuses)
            for k in range(n):
                memo[k] = I.fresh(f'can_win_now[{k}]', 'bool')
            live = [zbool(x) for x in statuses]
            I.axiom(z3.Implies(z3.Or(*live), z3.Or(*[z3.And(live[k], memo[k]) for k in range(n)])))
        return memo[i]
    return cut


def pots_cut(vc, shape, contract_cls, clause='pots_hold_the_collected_chips', pre=(), more=()):
    """`State.pots` replaced by its contract (contracts/c01.py:pots, discharged on its own): the
    precondition components are obligations at the call, the result is a fresh list of at most n pots about
    which only the postcondition clause is known"""
    from .shapes import Builder
    from .cascade import add_clause_obligation
    from .harness import FunctionVC
    import importlib
    st = importlib.import_module('pokerkit.state')
    counter = [0]

    memo = {}

    def cut(I, ctx, fn, args, kwargs, node):
        from . import models
        skey = models.struct_key(I, ctx, args[0])
        if skey in memo:               # State.pots is a function of the state: the same state has the same pots
            return memo[skey]
        k = counter[0]
        counter[0] += 1
        b0 = dict(vc.bindings)
        b0['s'] = args[0]
        for comp in pre:
            add_clause_obligation(vc, ctx, comp, b0, f'{comp}-at-call-pots' + (f'#{k}' if k else ''), kind='P',
                                  path=f'call:{fn.qual}@{getattr(node, "lineno", "?")}', extra_meta={'callee': fn.qual, 'component': comp})
        b = Builder(I, f'pots{k}.', {})
        n = shape.n

        def pot(nm):
            return ctx.alloc('obj', SymObj(st.Pot, {
                'raked_amount': b.chips(nm + '.raked_amount'), 'unraked_amount': b.chips(nm + '.unraked_amount'),
                'player_indices': b.seq(nm + '.player_indices', n, lambda x: b.int(x, 0, n - 1))}))
        res = b.seq('pot', shape.pots_cap, pot)
        I.axiom(And_(*b.wf))
        # assume the callee's postcondition about (state at the call, result)
        sub_vc = vc.__class__.__new__(vc.__class__)
        sub_vc.__dict__.update(vc.__dict__)
        sub_vc.ccls = contract_cls
        t, sub, defs = FunctionVC.eval_clause(sub_vc, clause, ctx, {'s': args[0], 'r': res})
        for d in defs:
            ctx.assume(d)
        ctx.assume(t)
        for cls2, clause2 in more:            # further postcondition clauses of State.pots discharged under other properties
            sub_vc.ccls = cls2
            t2, _, defs2 = FunctionVC.eval_clause(sub_vc, clause2, ctx, {'s': args[0], 'r': res})
            for d in defs2:
                ctx.assume(d)
            ctx.assume(t2)
        memo[skey] = res
        return res
    return cut

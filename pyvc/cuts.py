"""Replacement of callee bodies by contracts at call sites (modular verification)."""
from __future__ import annotations

from .values import *  # noqa
from .shapes import fresh_state

CONFIG_FIELDS = ('automations', 'deck', 'hand_types', 'streets', 'betting_structure', 'ante_trimming_status',
                 'bring_in', 'player_count', 'mode', 'starting_board_count', 'divmod', 'rake', 'antes',
                 'blinds_or_straddles', 'starting_stacks')

_havoc_ctr = [0]


def havoc_state(I, ctx, ref, shape, keep=CONFIG_FIELDS):
    """replace every non-configuration field of the State at `ref` by fresh symbolic content"""
    _havoc_ctr[0] += 1
    new_ref, wf = fresh_state(I, ctx, shape, prefix=f'h{_havoc_ctr[0]}.')
    old = ctx.get(ref)
    new = ctx.get(new_ref)
    fields = dict(new.fields)
    for k in keep:
        fields[k] = old.fields[k]
    ctx.put(ref, SymObj(old.cls, fields, old.ident))
    I.axiom(wf)
    return new_ref


def havoc_cut(shape, keep=CONFIG_FIELDS):
    """contract `ensures true, modifies every non-configuration field, raises nothing`"""
    def cut(I, ctx, fn, args, kwargs, node):
        havoc_state(I, ctx, args[0], shape, keep)
        return None
    cut._havoc = True
    return cut


def state_key(I, ctx, ref):
    from . import models
    c = ctx.get(ref) if isinstance(ref, Ref) else ref.heap[ref.ref.cell]
    return models.struct_key(I, ctx, ref)


def pure_cut(result, name=None):
    """contract `pure: modifies nothing, raises nothing, result is a function of (state, arguments)`.
    result: 'bool' | 'chips' | 'int'.  The same (state, arguments) give the same result symbol, so two
    calls on an unchanged state agree (determinism is part of the callee's contract)."""
    def cut(I, ctx, fn, args, kwargs, node):
        from . import models
        key = (fn.qual, models.struct_key(I, ctx, args[0]), tuple(models.struct_key(I, ctx, a) for a in args[1:]))
        memo = I.memo_uf
        if key not in memo:
            k = len(memo)
            base = (name or fn.qual.rsplit('.', 1)[-1]) + f'!{k}'
            memo[key] = I.fresh(base, {'bool': 'bool', 'chips': 'chips', 'int': 'int'}[result])
            if not hasattr(I, 'cut_log'):
                I.cut_log = []
            I.cut_log.append((fn.qual, memo[key]))
        return memo[key]
    return cut

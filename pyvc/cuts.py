"""Replacement of callee bodies by contracts at call sites (modular verification)."""
from __future__ import annotations

from .values import *  # noqa
from .shapes import fresh_state

CONFIG_FIELDS = ('automations', 'deck', 'hand_types', 'streets', 'betting_structure', 'ante_trimming_status',
                 'bring_in', 'player_count', 'mode', 'starting_board_count', 'divmod', 'rake', 'antes',
                 'blinds_or_straddles', 'starting_stacks')

_havoc_ctr = [0]


def havoc_state(I, ctx, ref, shape, keep=CONFIG_FIELDS):
    """replace every non-configuration field of the State at `ref` by fresh symbolic content"""
    _havoc_ctr[0] += 1
    new_ref, wf = fresh_state(I, ctx, shape, prefix=f'h{_havoc_ctr[0]}.')
    old = ctx.get(ref)
    new = ctx.get(new_ref)
    fields = dict(new.fields)
    for k in keep:
        fields[k] = old.fields[k]
    ctx.put(ref, SymObj(old.cls, fields, old.ident))
    I.axiom(wf)
    return new_ref


def havoc_cut(shape, keep=CONFIG_FIELDS):
    """contract `ensures true, modifies every non-configuration field, raises nothing`"""
    def cut(I, ctx, fn, args, kwargs, node):
        havoc_state(I, ctx, args[0], shape, keep)
        return None
    return cut

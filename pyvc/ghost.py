"""Specification helpers usable inside contract clauses.  This module is the NATIVE implementation
(used when clauses run on real objects: replay, monitors); `ghost_models.py` gives the symbolic one."""
from __future__ import annotations

import dataclasses
import warnings


def state_equal(a, b):
    """every dataclass field of the two states is structurally equal"""
    for f in dataclasses.fields(a):
        if getattr(a, f.name) != getattr(b, f.name):
            return False
    extra_a = {k: v for k, v in vars(a).items() if k not in {f.name for f in dataclasses.fields(a)}}
    extra_b = {k: v for k, v in vars(b).items() if k not in {f.name for f in dataclasses.fields(b)}}
    return extra_a == extra_b


def differing_fields(a, b):
    return [f.name for f in dataclasses.fields(a) if getattr(a, f.name) != getattr(b, f.name)]


def succeeds(thunk):
    """the call returns normally (it is refused iff it raises ValueError, or UserWarning when warnings
    are errors); any other exception propagates"""
    try:
        thunk()
    except (ValueError, UserWarning):
        return False
    return True


def implies(a, b):
    return (not a) or bool(b)


def iff(a, b):
    return bool(a) == bool(b)


def close(a, b):
    """numbers equal (natively: up to float rounding; symbolically: exactly)"""
    try:
        return abs(a - b) <= 1e-9 * max(1.0, abs(a), abs(b))
    except TypeError:
        return a == b


def appended(old_list, new_list):
    """the items appended to a list that is only ever appended to: new_list[len(old_list):] (None if new_list does not extend old_list)"""
    k = len(old_list)
    if len(new_list) < k or list(new_list[:k]) != list(old_list):
        return None
    return tuple(new_list[k:])


# ---- finite streams of candidates (C05, unbounded mode) ----------------------------------------------------------------
# natively these are plain tuples; symbolically (pyvc/streams.py) a stream is abstract: uninterpreted length and elements, and
# the quantifiers below become real first-order quantifiers over the index

def chained(a, b):
    """the cards of a followed by the cards of b"""
    return tuple(a) + tuple(b)


def combos(xs, k):
    """the k-element sub-sequences of xs, in the order itertools.combinations yields them"""
    import itertools
    return tuple(itertools.combinations(tuple(xs), k))


def forall(xs, fn):
    return all(fn(x) for x in xs)


def exists(xs, fn):
    return any(fn(x) for x in xs)


def forall_before(xs, k, fn):
    """fn holds for the first k elements of xs"""
    return all(fn(x) for x in tuple(xs)[:k])


def exists_before(xs, k, fn):
    return any(fn(x) for x in tuple(xs)[:k])

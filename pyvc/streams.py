"""Unbounded mode for loops over candidate streams (label D-infinity).

A *stream* is a finite sequence of atoms whose length is an arbitrary natural number:

        stream.len(sid) >= 0                       (uninterpreted, axiom: non-negative)
        stream.at(sid, i)                          (uninterpreted element)
        stream.chain(a, b), stream.combinations(p, k)   (uninterpreted constructors: equal arguments give the same stream)

`for x in <stream>: body` is cut by a sidecar loop invariant INV(k) (k = number of elements consumed):

        obligation  INV(0)                         at loop entry
        havoc the variables the loop assigns; fresh k with 0 <= k < len; assume INV(k)
        x := at(sid, k); execute the REAL body; obligation INV(k+1) at its end     (exceptions leave the loop with their path)
        havoc again; assume INV(len); continue after the loop

which is ordinary induction on k -- no bound on the length anywhere.  The ghost quantifiers of pyvc/ghost.py (forall, exists,
forall_before, exists_before) become first-order quantifiers over the index; the solver instantiates them.
"""
from __future__ import annotations

import ast
import itertools

import z3

from .values import *  # noqa
from .values import And_, Or_, Not_, Implies_, zbool, concrete_bool, AbsSeq
from .core import Ctx, Exit, merge_exits
from .vc import Obligation
from . import models, ghost
from .cascade import add_clause_obligation, assume_clause

I_ = z3.IntSort()
LEN = z3.Function('stream.len', I_, I_)
AT = z3.Function('stream.at', I_, I_, I_)
CHAIN = z3.Function('stream.chain', I_, I_, I_)
COMB = z3.Function('stream.combinations', I_, I_, I_)

_s = z3.Int('stream.q0')
AXIOMS = [z3.ForAll([_s], LEN(_s) >= 0, patterns=[LEN(_s)])]

_fresh = itertools.count()


def fresh_int(tag):
    return z3.Int(f'{tag}!{next(_fresh)}')


def is_atom(v):
    return isinstance(v, z3.ExprRef) and v.sort() == I_


def stream_id(I, ctx, v):
    if isinstance(v, AbsSeq):
        return v.sid
    if is_atom(v):
        return v
    raise PyvcUnsupported(f'not a stream: {type(v).__name__}')


# ---- models of the code's library calls in this mode (installed per interpreter: I.native_cuts) ---------------------------
def chain_cut(I, ctx, args, kwargs, node):
    if len(args) == 2 and all(is_atom(a) or isinstance(a, AbsSeq) for a in args):
        return CHAIN(stream_id(I, ctx, args[0]), stream_id(I, ctx, args[1]))
    raise PyvcUnsupported('chain() of other than two abstract card collections in stream mode')


def combinations_cut(I, ctx, args, kwargs, node):
    xs, k = args
    if not isinstance(k, int):
        raise PyvcUnsupported('combinations with a symbolic size')
    out = AbsSeq(COMB(stream_id(I, ctx, xs), z3.IntVal(k)))
    out.size = k
    return out


def tuple_cut(I, ctx, args, kwargs, node):
    # tuple(<abstract collection>) is the same abstract collection
    if len(args) == 1 and (is_atom(args[0]) or isinstance(args[0], AbsSeq)):
        return args[0]
    return NotImplemented


def native_cuts():
    return {id(itertools.chain): (itertools.chain, chain_cut), id(itertools.combinations): (itertools.combinations, combinations_cut),
            id(tuple): (tuple, tuple_cut)}


# ---- ghost models --------------------------------------------------------------------------------------------------------
@models.model(ghost.chained)
def m_chained(I, ctx, args, kwargs, node):
    a, b = args
    if is_atom(a) or is_atom(b) or isinstance(a, AbsSeq) or isinstance(b, AbsSeq):
        return CHAIN(stream_id(I, ctx, a), stream_id(I, ctx, b))
    return tuple(models.to_seq(I, ctx, a)) + tuple(models.to_seq(I, ctx, b))


@models.model(ghost.combos)
def m_combos(I, ctx, args, kwargs, node):
    xs, k = args
    if is_atom(xs) or isinstance(xs, AbsSeq):
        if not isinstance(k, int):
            raise PyvcUnsupported('combos with a symbolic size')
        return AbsSeq(COMB(stream_id(I, ctx, xs), z3.IntVal(k)))
    seq = models.to_seq(I, ctx, xs)
    return tuple(tuple(seq[i] for i in idx) for idx in itertools.combinations(range(len(seq)), k))


def _quantify(I, ctx, xs, bound, fn, node, universal):
    """forall / exists over the first `bound` elements (None: all) of xs"""
    if not isinstance(xs, AbsSeq):
        seq = models.to_seq(I, ctx, xs)
        items = list(models.items_of(seq))
        outs = []
        for pos, (g, v) in enumerate(items):
            sub = ctx.fork()
            sub.exits = []
            t = I.truth(I.call(fn, [v], {}, sub, node), sub)
            if any(e.kind == 'raise' for e in sub.exits):
                raise PyvcUnsupported('a quantified body may raise')
            inb = True if bound is None else (pos < bound)
            inb = zbool(inb) if isinstance(inb, z3.ExprRef) else inb
            outs.append(Implies_(And_(g, inb), t) if universal else And_(g, inb, t))
        return And_(*outs) if universal else Or_(*outs)
    q = fresh_int('q')
    sub = ctx.fork()
    sub.exits = []
    k0 = len(ctx.pcl)
    t = I.truth(I.call(fn, [AT(xs.sid, q)], {}, sub, node), sub) if True else None
    # as for clauses: a body that raises on some path is false there (such paths are usually infeasible: the second
    # evaluation of hand_or_none(c) after `is None` was excluded)
    bad = Or_(*[And_(*e.pcl[k0:]) for e in sub.exits if e.kind == 'raise'])
    if sub.dead:
        t = False
    else:
        extra = list(sub.pcl[k0:]) if sub.pcl[:k0] == ctx.pcl[:k0] else None
        if extra is None:
            raise PyvcUnsupported('a quantified body rewrites the path condition')
        # conjuncts added on the normal path only exclude the raising paths (raise_if assumes the negation)
        t = And_(t, *extra)
    t = And_(t, Not_(bad))
    hi = LEN(xs.sid) if bound is None else bound
    rng = z3.And(q >= 0, q < hi, q < LEN(xs.sid))
    t = zbool(t) if not isinstance(t, bool) else z3.BoolVal(t)
    return z3.ForAll([q], z3.Implies(rng, t)) if universal else z3.Exists([q], z3.And(rng, t))


@models.model(ghost.forall)
def m_forall(I, ctx, args, kwargs, node):
    return _quantify(I, ctx, args[0], None, args[1], node, True)


@models.model(ghost.exists)
def m_exists(I, ctx, args, kwargs, node):
    return _quantify(I, ctx, args[0], None, args[1], node, False)


@models.model(ghost.forall_before)
def m_forall_before(I, ctx, args, kwargs, node):
    return _quantify(I, ctx, args[0], args[1], args[2], node, True)


@models.model(ghost.exists_before)
def m_exists_before(I, ctx, args, kwargs, node):
    return _quantify(I, ctx, args[0], args[1], args[2], node, False)


# ---- the loop contract -----------------------------------------------------------------------------------------------------
def read_after(fn_node, st):
    """names the function reads after the loop `st` has finished (anywhere outside the loop body on a later line, or in an enclosing
    loop that comes round again)"""
    inside = {id(n) for n in ast.walk(st)}
    enclosing = [n for n in ast.walk(fn_node) if isinstance(n, (ast.For, ast.While)) and n is not st and any(m is st for m in ast.walk(n))]
    out = set()
    for n in ast.walk(fn_node):
        if isinstance(n, ast.Name) and isinstance(n.ctx, ast.Load) and id(n) not in inside:
            if n.lineno > st.end_lineno or any(id(n) in {id(m) for m in ast.walk(e)} for e in enclosing):
                out.add(n.id)
    return out


def assigned_names(st):
    out = set()
    for n in ast.walk(st):
        if isinstance(n, ast.Name) and isinstance(n.ctx, ast.Store):
            out.add(n.id)
    return sorted(out)


def for_cut(vc, inv, havoc, ordinal=0, kind='P', fn_node=None):
    """loop contract for `for target in <stream>`: `inv` names a clause of the contract with parameters among the contract's
    bindings, the function's local variables, `xs` (the stream) and `k` (elements consumed); `havoc(I, ctx, name, tag)` gives
    an arbitrary value of the right type for a variable the loop assigns"""
    passes = itertools.count()

    def run(I, st, ctx, env):
        nth = next(passes)
        sfx = f'-pass{nth}' if nth else ''
        it = I.eval(st.iter, ctx, env)
        if ctx.dead:
            return
        if not isinstance(it, AbsSeq):
            raise PyvcUnsupported(f'loop contract on a loop over {type(it).__name__}')
        line = getattr(st, 'lineno', '?')
        names = assigned_names(st)
        # the invariant names program variables by ROLE, not by spelling: `acc` is the one variable the loop assigns and the code
        # reads afterwards (the running result); `xs_size` is the subset size of the stream; parameters keep their (API) names
        live = [n for n in names if fn_node is not None and n in read_after(fn_node, st)]
        if len(live) != 1:
            raise PyvcUnsupported(f'loop at line {line}: expected one running result assigned in the loop and read after it, found {live}')
        acc_name = live[0]

        def bind(ev, k):
            b = dict(vc.bindings)
            b.update({n: v for n, v in ev.items() if isinstance(n, str) and not n.startswith('__')})
            b['xs'] = it
            b['xs_size'] = getattr(it, 'size', None)
            b['k'] = k
            b['acc'] = ev[acc_name]
            return b
        add_clause_obligation(vc, ctx, inv, bind(env, 0), f'{inv}-at-entry-of-for{ordinal}{sfx}', kind=kind, path=f'loop-entry@{line}',
                              extra_meta={'loop': line})
        # an arbitrary iteration
        for n in names:
            env[n] = havoc(I, ctx, 'acc' if n == acc_name else n, f'it{ordinal}{sfx}')
        k = fresh_int(f'k{ordinal}{sfx}')
        body = ctx.fork(z3.And(k >= 0, k < LEN(it.sid)))
        benv = dict(env)
        assume_clause(vc, body, inv, bind(benv, k))
        saved = body.exits
        body.exits = []
        I.assign(st.target, AT(it.sid, k), body, benv)
        I.exec_block(st.body, body, benv)
        breaks = []
        for e in body.exits:
            if e.kind == 'break':
                breaks.append(e)           # leaves the loop with the state it has (no invariant needed there)
            elif e.kind in ('continue', 'return'):
                raise PyvcUnsupported(f'{e.kind} inside a loop cut by an invariant')
            else:
                ctx.exits.append(e)
        body.exits = saved
        if not body.dead:
            add_clause_obligation(vc, body, inv, bind(benv, k + 1), f'{inv}-kept-by-body-of-for{ordinal}{sfx}', kind=kind,
                                  path=f'loop-body@{line}', extra_meta={'loop': line})
            vc.add(Obligation(vc.oid(f'canary-body-of-for{ordinal}{sfx}'), 'canary', body.pc, False, vc.prop))
        if st.orelse:
            raise PyvcUnsupported('for-else under a loop contract')
        # after the loop: exhausted (arbitrary values satisfying the invariant at the full length) or left by `break`
        for n in names:
            env[n] = havoc(I, ctx, 'acc' if n == acc_name else n, f'after{ordinal}{sfx}')
        assume_clause(vc, ctx, inv, bind(env, LEN(it.sid)))
        if breaks:
            outs = [Exit('break', None, e.pcl, e.heap, e.env) for e in breaks]
            if not ctx.dead:
                outs.append(Exit('break', None, ctx.pcl, ctx.heap, dict(env)))
            pc, heap, _, e2 = merge_exits(outs)
            ctx.set_pc(pc)
            ctx.heap = heap
            env.clear()
            env.update(e2)
    return run


def install_for_cuts(vc, qual, invariants, havoc):
    """invariants: clause names by `for`-loop ordinal (source order) of the function `qual`"""
    f = vc.src.func(qual)
    nodes = sorted([n for n in ast.walk(f.node) if isinstance(n, ast.For)], key=lambda n: n.lineno)
    if len(nodes) != len(invariants):
        raise PyvcUnsupported(f'{qual}: {len(nodes)} for-loops, {len(invariants)} invariants')
    tbl = getattr(vc.I, 'loop_cuts', None)
    if tbl is None:
        tbl = vc.I.loop_cuts = {}
    for k, (node, inv) in enumerate(zip(nodes, invariants)):
        if inv is not None:          # None: a loop over a concrete range, unrolled as usual
            tbl[id(node)] = for_cut(vc, inv, havoc, ordinal=k, fn_node=f.node)

"""Symbolic models of pyvc.ghost."""
from __future__ import annotations

import z3

from .values import *  # noqa
from .values import And_, Or_, Not_, Implies_, zbool, is_sym, concrete_bool
from .core import Ctx, UnwindLimit, ContractPre, TypeErr
from . import models, ghost


def state_equal_sym(I, ctx, a, b):
    ca, ha = models.content(I, ctx, a)
    cb, hb = models.content(I, ctx, b)
    conds = []
    for k in ca.fields:
        va = models.wrap(ca.fields[k], ha, ctx)
        vb = models.wrap(cb.fields[k], hb, ctx)
        conds.append(I.eq(va, vb, ctx))
    return And_(*conds)


@models.model(ghost.state_equal)
def m_state_equal(I, ctx, args, kwargs, node):
    return state_equal_sym(I, ctx, args[0], args[1])


@models.model(ghost.succeeds)
def m_succeeds(I, ctx, args, kwargs, node):
    thunk = args[0]
    sub = ctx.fork()
    sub.exits = []
    I.call(thunk, [], {}, sub, node)
    k = len(ctx.pcl)
    refused = []
    for e in sub.exits:
        if e.kind == 'raise' and issubclass(e.value.cls, (ValueError, UserWarning)) \
                and not issubclass(e.value.cls, (UnwindLimit, ContractPre, TypeErr)):
            refused.append(And_(*e.pcl[k:]))
        else:
            ctx.exits.append(e)         # other exceptions propagate
    others = [And_(*e.pcl[k:]) for e in sub.exits if not (e.kind == 'raise' and issubclass(e.value.cls, (ValueError, UserWarning))
              and not issubclass(e.value.cls, (UnwindLimit, ContractPre, TypeErr)))]
    if others:
        ctx.assume(Not_(Or_(*others)))
    if getattr(I, 'debug', None) is not None:
        I.debug.append(('succeeds', [(e.value, And_(*e.pcl[k:])) for e in sub.exits], And_(*sub.pcl[k:]) if not sub.dead else False))
    # definitional conjuncts introduced while running the thunk (fresh quotients etc.) stay as assumptions
    ok = And_(*sub.pcl[k:]) if not sub.dead else False
    return ok


@models.model(ghost.implies)
def m_implies(I, ctx, args, kwargs, node):
    return Implies_(I.truth(args[0], ctx), I.truth(args[1], ctx))


@models.model(ghost.iff)
def m_iff(I, ctx, args, kwargs, node):
    a, b = I.truth(args[0], ctx), I.truth(args[1], ctx)
    if is_sym(a) or is_sym(b):
        return zbool(a) == zbool(b)
    return a == b


@models.model(ghost.close)
def m_close(I, ctx, args, kwargs, node):
    return I.eq(args[0], args[1], ctx)


@models.model(ghost.appended)
def m_appended(I, ctx, args, kwargs, node):
    a, ha = models.content(I, ctx, args[0])
    b, hb = models.content(I, ctx, args[1])
    if isinstance(b, Choice) and all(isinstance(x, TailSeq) for _, x in b.alts):
        from .core import mk_choice
        outs = []
        for g, x in b.alts:
            if a.prefix != x.prefix or len(x.items) < len(a.items):
                outs.append((g, None))
            else:
                outs.append((g, tuple(models.wrap(y, hb, ctx) for y in x.items[len(a.items):])))
        return mk_choice(outs)
    if isinstance(a, TailSeq) and isinstance(b, TailSeq):
        if a.prefix != b.prefix or len(b.items) < len(a.items):
            return None
        same = And_(*[I.eq(models.wrap(x, ha, ctx), models.wrap(y, hb, ctx), ctx) for x, y in zip(a.items, b.items)])
        rest = tuple(models.wrap(y, hb, ctx) for y in b.items[len(a.items):])
        if concrete_bool(same) is True:
            return rest
        from .core import mk_choice
        return mk_choice([(same, rest), (Not_(same), None)])
    raise PyvcUnsupported('appended() on lists that are not append-only logs')

"""Execution contexts, exits, and value merging for the pyvc interpreter."""
from __future__ import annotations

import enum
import z3

from .values import *  # noqa: F401,F403
from .values import (And_, Or_, Not_, If_, same_term, is_num, is_boolish, concrete_bool, concrete_int,
                     Ref, SymObj, SymSeq, TailSeq, Choice, SymEnum, BitSet, FlagSet, Opaque, UNBOUND,
                     PyvcUnsupported, simp, zbool)


class Exc:
    """an exception value: class + origin (file:line/reason)"""
    __slots__ = ('cls', 'origin')

    def __init__(self, cls, origin=''):
        self.cls = cls
        self.origin = origin

    def __repr__(self):
        return f'Exc({self.cls.__name__}@{self.origin})'


class UnwindLimit(Exception):
    """pseudo exception class: a loop needed more iterations than the unrolling bound"""


class ContractPre(Exception):
    """pseudo exception class: precondition of a callee under contract not established"""


class TypeErr(TypeError):
    """pseudo: operation applied to an alternative of the wrong type (e.g. None + 1)"""


class Exit:
    __slots__ = ('kind', 'value', 'pcl', 'heap', 'env')

    def __init__(self, kind, value, pcl, heap, env=None):
        self.kind = kind          # 'return' | 'raise' | 'break' | 'continue'
        self.value = value
        self.pcl = tuple(pcl) if not isinstance(pcl, tuple) else pcl   # tuple of conjuncts
        self.heap = heap
        self.env = env

    @property
    def pc(self):
        return And_(*self.pcl)


def conj_list(t):
    """flatten a condition into a list of conjuncts"""
    if isinstance(t, bool):
        return [] if t else [False]
    if z3.is_true(t):
        return []
    if z3.is_and(t):
        out = []
        for ch in t.children():
            out.extend(conj_list(ch))
        return out
    return [t]


class Ctx:
    """mutable execution context of one (merged) path: path condition + heap + exit collector.
    The path condition is kept as a tuple of conjuncts (`pcl`) so that forks share a prefix and merges
    only mention what differs."""
    __slots__ = ('pcl', 'heap', 'exits', 'fork_len', '_dead')

    def __init__(self, pc=True, heap=None, exits=None):
        self._dead = False
        self.pcl = ()
        self.heap = {} if heap is None else heap
        self.exits = [] if exits is None else exits
        if isinstance(pc, tuple):
            self.pcl = pc
        else:
            self.assume(pc)
        self.fork_len = len(self.pcl)

    @property
    def pc(self):
        if self._dead:
            return False
        return And_(*self.pcl)

    @property
    def dead(self):
        return self._dead

    def fork(self, guard=True, exits=None):
        c = Ctx(self.pcl, dict(self.heap), self.exits if exits is None else exits)
        c._dead = self._dead
        c.assume(guard)
        c.fork_len = len(c.pcl)
        return c

    @property
    def narrowed(self):
        return self._dead or len(self.pcl) != self.fork_len

    def assume(self, cond):
        if self._dead:
            return
        for t in conj_list(cond):
            if t is False or (isinstance(t, z3.ExprRef) and z3.is_false(t)):
                self._dead = True
                return
            self.pcl = self.pcl + (t,)

    def kill(self):
        self._dead = True

    def set_pc(self, pcl, dead=False):
        self.pcl = tuple(pcl)
        self._dead = dead

    # heap ------------------------------------------------------------------------------------------------
    def alloc(self, kind, content):
        r = Ref(kind)
        self.heap[r.cell] = content
        return r

    def get(self, ref):
        return self.heap[ref.cell]

    def put(self, ref, content):
        self.heap[ref.cell] = content


def common_prefix(lists):
    if not lists:
        return ()
    first = lists[0]
    k = 0
    while all(len(l) > k for l in lists) and all(l[k] is first[k] or same_term(l[k], first[k]) for l in lists[1:]):
        k += 1
    return first[:k]


# ------------------------------------------------------------------------------------------------
# merging
# ------------------------------------------------------------------------------------------------

def is_enum_member(v):
    return isinstance(v, enum.Enum)


def merge_class(v):
    """key: values with the same key can be merged into one term/structure"""
    if v is None:
        return 'none'
    if v is UNBOUND:
        return 'unbound'
    if isinstance(v, bool) or isinstance(v, z3.BoolRef):
        return 'bool'
    if isinstance(v, int) or isinstance(v, z3.ArithRef):
        return 'num'
    if isinstance(v, (tuple, SymSeq)):
        return 'seq'
    if isinstance(v, SymObj):
        return ('obj', v.cls, v.ident)
    if isinstance(v, SymEnum):
        return ('enum', v.cls)
    if is_enum_member(v):
        return ('enum', type(v))
    if isinstance(v, Ref):
        return ('ref', v.cell)
    if isinstance(v, BitSet):
        return ('bitset', len(v.bits))
    if isinstance(v, TailSeq):
        return ('tail', v.prefix, len(v.items))
    if isinstance(v, FlagSet):
        return ('flagset', tuple(v.flags))
    if isinstance(v, (str, Opaque)):
        return ('const', v)
    return ('id', id(v))


def to_symenum(v):
    if isinstance(v, SymEnum):
        return v
    members = tuple(type(v))
    return SymEnum(type(v), members.index(v))


def as_symseq(v):
    if isinstance(v, SymSeq):
        return v
    return SymSeq(v, len(v))


def _same_items(xs, ys):
    return all(x is y or same_term(x, y) for x, y in zip(xs, ys))


def merge_seqs(c, a, b):
    """sequence equal to a under c, b otherwise.  Common prefixes of slots are shared, so a conditional
    append costs one flagged slot."""
    sa, sb = as_symseq(a), as_symseq(b)
    # one is an extension of the other (same leading slots and flags)
    for x, y, cond in ((sa, sb, c), (sb, sa, Not_(c))):
        k = y.cap
        if x.cap >= k and _same_items(x.slots[:k], y.slots) and _same_items(x.flags[:k], y.flags):
            flags = y.flags + tuple(And_(cond, f) for f in x.flags[k:])
            perms = tuple(p for p in y.perms) + tuple((lo, hi, o, And_(cond, g)) for lo, hi, o, g in x.perms if lo >= k)
            return SymSeq(x.slots, flags=flags, perms=perms)
    cap = max(sa.cap, sb.cap)
    slots, flags = [], []
    for k in range(cap):
        fa = sa.flags[k] if k < sa.cap else False
        fb = sb.flags[k] if k < sb.cap else False
        if k < sa.cap and k < sb.cap:
            if concrete_bool(fa) is False:
                v = sb.slots[k]
            elif concrete_bool(fb) is False:
                v = sa.slots[k]
            else:
                v = merge_value(c, sa.slots[k], sb.slots[k])
        else:
            v = sa.slots[k] if k < sa.cap else sb.slots[k]
        slots.append(v)
        flags.append(If_(c, fa, fb))
    n = None
    if sa.n is not None and sb.n is not None:
        n = If_(c, sa.n, sb.n)
        return SymSeq(slots, n)
    return SymSeq(slots, flags=flags)


def merge_value(c, a, b):
    """value that equals a when c holds and b otherwise"""
    cb = concrete_bool(c)
    if cb is True:
        return a
    if cb is False:
        return b
    if a is b or same_term(a, b):
        return a
    if isinstance(a, Choice) or isinstance(b, Choice):
        alts = []
        for g, v in (a.alts if isinstance(a, Choice) else ((True, a),)):
            alts.append((And_(c, g), v))
        for g, v in (b.alts if isinstance(b, Choice) else ((True, b),)):
            alts.append((And_(Not_(c), g), v))
        return mk_choice(alts)
    ka, kb = merge_class(a), merge_class(b)
    if ka != kb:
        # bool/int mix is common (counts); keep Python's bool-is-int view
        if {ka, kb} == {'bool', 'num'}:
            return If_(c, b2i_(a), b2i_(b))
        return mk_choice([(c, a), (Not_(c), b)])
    if ka in ('bool', 'num'):
        return If_(c, a, b)
    if ka == 'seq':
        if isinstance(a, tuple) and isinstance(b, tuple) and len(a) == len(b):
            return tuple(merge_value(c, x, y) for x, y in zip(a, b))
        return merge_seqs(c, a, b)
    if isinstance(a, SymObj):
        if set(a.fields) != set(b.fields):
            return mk_choice([(c, a), (Not_(c), b)])
        return SymObj(a.cls, {k: merge_value(c, a.fields[k], b.fields[k]) for k in a.fields}, a.ident)
    if ka[0] == 'enum':
        ea, eb = to_symenum(a), to_symenum(b)
        return SymEnum(ea.cls, If_(c, ea.idx, eb.idx))
    if isinstance(a, BitSet):
        return BitSet(merge_value(c, x, y) for x, y in zip(a.bits, b.bits))
    if isinstance(a, TailSeq):
        if not isinstance(b, TailSeq) or a.prefix != b.prefix or len(a.items) != len(b.items):
            # logs of different lengths on the two paths: keep both (never drop an appended record)
            return mk_choice([(c, a), (Not_(c), b)])
        return TailSeq(a.prefix, tuple(merge_value(c, x, y) for x, y in zip(a.items, b.items)))
    if isinstance(a, FlagSet):
        return FlagSet({k: If_(c, a.flags[k], b.flags[k]) for k in a.flags})
    if ka == kb and ka[0] in ('ref', 'const'):
        return a
    return mk_choice([(c, a), (Not_(c), b)])


def b2i_(v):
    from .values import b2i
    return b2i(v)


def mk_choice(alts):
    """normalise guarded alternatives: flatten, drop dead ones, merge mergeable ones"""
    flat = []
    for g, v in alts:
        if isinstance(v, Choice):
            for g2, v2 in v.alts:
                flat.append((And_(g, g2), v2))
        else:
            flat.append((g, v))
    groups = {}
    order = []
    for g, v in flat:
        g = simp(g) if isinstance(g, z3.ExprRef) else g
        if concrete_bool(g) is False:
            continue
        k = merge_class(v)
        if k not in groups:
            groups[k] = []
            order.append(k)
        groups[k].append((g, v))
    out = []
    for k in order:
        items = groups[k]
        g_all = Or_(*[g for g, _ in items])
        v = items[-1][1]
        for g, v2 in reversed(items[:-1]):
            v = merge_value(g, v2, v)
        out.append((g_all, v))
    if not out:
        return UNBOUND
    if len(out) == 1:
        return out[0][1]
    return Choice(out)


def alts_of(v):
    if isinstance(v, Choice):
        return v.alts
    return ((True, v),)


def merge_heaps(c, ha, hb):
    if ha is hb:
        return ha
    out = dict(hb)
    for cell, va in ha.items():
        if cell in hb:
            vb = hb[cell]
            out[cell] = va if va is vb else merge_value(c, va, vb)
        else:
            out[cell] = va
    return out


def merge_envs(c, ea, eb):
    out = {}
    for k in set(ea) | set(eb):
        va = ea.get(k, UNBOUND)
        vb = eb.get(k, UNBOUND)
        out[k] = va if va is vb else merge_value(c, va, vb)
    return out


def join(ctx, env, cond, ca, ea, cb, eb):
    """merge two forked contexts (taken when cond / not cond) back into ctx/env (in place)"""
    if ca.dead and cb.dead:
        ctx.kill()
        return
    if ca.dead:
        ctx.set_pc(cb.pcl); ctx.heap = cb.heap
        env.clear(); env.update(eb)
        return
    if cb.dead:
        ctx.set_pc(ca.pcl); ctx.heap = ca.heap
        env.clear(); env.update(ea)
        return
    ctx.heap = merge_heaps(cond, ca.heap, cb.heap)
    merged = merge_envs(cond, ea, eb)
    env.clear(); env.update(merged)
    if not ca.narrowed and not cb.narrowed:
        pass                                  # neither side narrowed: pc unchanged
    else:
        pre = common_prefix([ca.pcl, cb.pcl])
        k = len(pre)
        ctx.set_pc(pre + tuple(conj_list(simp(Or_(And_(*ca.pcl[k:]), And_(*cb.pcl[k:]))))))


def merge_exits(exits):
    """k-way merge of exits with pairwise exclusive pcs -> (pcl, heap, value, env) or None.
    Guards used for merging are relative to the common prefix of the path conditions."""
    exits = list(exits)
    if not exits:
        return None
    if len(exits) == 1:
        e = exits[0]
        return e.pcl, e.heap, e.value, e.env
    pre = common_prefix([e.pcl for e in exits])
    k = len(pre)
    guards = [And_(*e.pcl[k:]) for e in exits]
    heap, value, env = exits[-1].heap, exits[-1].value, exits[-1].env
    for e, g in zip(reversed(exits[:-1]), reversed(guards[:-1])):
        heap = merge_heaps(g, e.heap, heap)
        value = merge_value(g, e.value, value)
        if env is not None and e.env is not None:
            env = merge_envs(g, e.env, env)
    tail = simp(Or_(*guards))
    return pre + tuple(conj_list(tail)), heap, value, env

"""Fresh symbolic `State` objects for a given shape, and decoding of solver models into concrete
field values (for native replay).

A *shape* fixes container sizes only: number of players n, streets S, hand types T, starting boards
B, the capacity of every card pile.  Every number, flag, enum member, card and every container
*length* below its capacity stays symbolic.  The well-formedness constraints produced here (`wf`)
are type invariants (indices in range, lengths within capacity, enum indices valid); they are part
of the precondition of every obligation and are checked to be satisfiable (covers).
"""
from __future__ import annotations

import fractions
import z3

from .values import *  # noqa
from .values import And_, Or_, Not_, concrete_bool, simp
from .core import mk_choice


class Shape:
    def __init__(self, n=3, S=2, T=1, B=1, H=2, deck_cap=2, pile_cap=2, board_cap=2, pots_cap=None,
                 subpots_cap=None, tag='', R=None):
        self.n, self.S, self.T, self.B, self.H = n, S, T, B, H
        self.deck_cap, self.pile_cap, self.board_cap = deck_cap, pile_cap, board_cap
        self.pots_cap = n if pots_cap is None else pots_cap
        self.subpots_cap = 2 if subpots_cap is None else subpots_cap
        self.tag = tag
        self.R = R             # bound on the number of run-outs (None: unbounded symbolic integer)

    def __repr__(self):
        return (f'n={self.n},S={self.S},T={self.T},B={self.B},H={self.H},deck<={self.deck_cap},'
                f'pile<={self.pile_cap},board<={self.board_cap},pots<={self.pots_cap},subpots<={self.subpots_cap}'
                + (f',runouts<={self.R}' if self.R is not None else ''))

    def as_dict(self):
        return dict(n=self.n, S=self.S, T=self.T, B=self.B, H=self.H, deck_cap=self.deck_cap,
                    pile_cap=self.pile_cap, board_cap=self.board_cap, pots_cap=self.pots_cap,
                    subpots_cap=self.subpots_cap, R=self.R)


class AbstractHandType:
    """stands for an arbitrary element of `hand_types`; `from_game` is abstract (C04/C05 contracts)"""
    def __init__(self, k):
        self.k = k

    def __repr__(self):
        return f'<hand type {self.k}>'


class AbstractHand:
    """a hand of an abstract hand type: only its strength (a total pre-order, C04) is known"""
    _pyvc_strength = True


class Builder:
    """creates named symbolic constants; collects well-formedness constraints"""

    def __init__(self, interp, prefix, modules):
        self.I = interp
        self.p = prefix
        self.wf = []
        self.m = modules          # dict with the real classes

    def chips(self, name):
        v = z3.Int(f'{self.p}{name}') if self.I.chips == 'int' else z3.Real(f'{self.p}{name}')
        return v

    def int(self, name, lo=None, hi=None):
        v = z3.Int(f'{self.p}{name}')
        if lo is not None:
            self.wf.append(v >= lo)
        if hi is not None:
            self.wf.append(v <= hi)
        return v

    def bool(self, name):
        return z3.Bool(f'{self.p}{name}')

    def opt(self, name, mk):
        isnone = z3.Bool(f'{self.p}{name}?none')
        k = len(self.wf)
        v = mk(name)
        inner = self.wf[k:]
        del self.wf[k:]
        if inner:
            self.wf.append(z3.Or(isnone, z3.And(*inner)))
        return Choice(((isnone, None), (z3.Not(isnone), v)))

    def enum(self, name, cls):
        idx = self.int(name, 0, len(tuple(cls)) - 1)
        return SymEnum(cls, idx)

    def seq(self, name, cap, mk, fixed=False):
        slots = tuple(mk(f'{name}[{k}]') for k in range(cap))
        if fixed:
            return slots
        n = self.int(f'{name}#len', 0, cap)
        return SymSeq(slots, n)

    def card(self, name):
        Card, Rank, Suit = self.m['Card'], self.m['Rank'], self.m['Suit']
        return SymObj(Card, {'rank': self.enum(name + '.rank', Rank), 'suit': self.enum(name + '.suit', Suit)})


def fresh_state(interp, ctx, shape, prefix='s.', src=None):
    """allocate a symbolic State in ctx.heap; returns (ref, wf constraint)"""
    import importlib
    st = importlib.import_module('pokerkit.state')
    ut = importlib.import_module('pokerkit.utilities')
    mods = {'Card': ut.Card, 'Rank': ut.Rank, 'Suit': ut.Suit}
    b = Builder(interp, prefix, mods)
    n, S, T, B, H = shape.n, shape.S, shape.T, shape.B, shape.H
    A = ctx.alloc
    f = {}
    f['automations'] = FlagSet({a: b.bool(f'auto[{a.name}]') for a in st.Automation})
    f['deck'] = Opaque('deck')
    f['hand_types'] = tuple(AbstractHandType(k) for k in range(T))
    streets = []
    for k in range(S):
        p = f'streets[{k}].'
        streets.append(SymObj(st.Street, {
            'card_burning_status': b.bool(p + 'card_burning_status'),
            'hole_dealing_statuses': b.seq(p + 'hole_dealing_statuses', H, b.bool),
            'board_dealing_count': b.int(p + 'board_dealing_count', 0, shape.board_cap),
            'draw_status': b.bool(p + 'draw_status'),
            'opening': b.enum(p + 'opening', st.Opening),
            'min_completion_betting_or_raising_amount': b.chips(p + 'min_completion_betting_or_raising_amount'),
            'max_completion_betting_or_raising_count': b.opt(p + 'max_completion_betting_or_raising_count', b.int),
        }, ident=('street', k)))
    f['streets'] = tuple(streets)
    f['betting_structure'] = b.enum('betting_structure', st.BettingStructure)
    f['ante_trimming_status'] = b.bool('ante_trimming_status')
    f['bring_in'] = b.chips('bring_in')
    f['player_count'] = n
    f['mode'] = b.enum('mode', st.Mode)
    f['starting_board_count'] = B
    f['divmod'] = interp.src.func('pokerkit.utilities.divmod')
    f['rake'] = interp.src.func('pokerkit.utilities.rake')
    f['antes'] = b.seq('antes', n, b.chips, fixed=True)
    f['blinds_or_straddles'] = b.seq('blinds_or_straddles', n, b.chips, fixed=True)
    f['starting_stacks'] = b.seq('starting_stacks', n, b.chips, fixed=True)
    f['deck_cards'] = A('deque', b.seq('deck_cards', shape.deck_cap, b.card))
    f['board_cards'] = A('list', b.seq('board_cards', shape.board_cap,
                                       lambda nm: A('list', b.seq(nm, B, b.card))))
    f['mucked_cards'] = A('list', b.seq('mucked_cards', shape.pile_cap, b.card))
    f['burn_cards'] = A('list', b.seq('burn_cards', shape.pile_cap, b.card))
    f['statuses'] = A('list', b.seq('statuses', n, b.bool, fixed=True))
    f['bets'] = A('list', b.seq('bets', n, b.chips, fixed=True))
    f['stacks'] = A('list', b.seq('stacks', n, b.chips, fixed=True))
    f['payoffs'] = A('list', b.seq('payoffs', n, b.chips, fixed=True))
    # hole cards and their statuses share one length per player
    hole, holest = [], []
    for i in range(n):
        ln = b.int(f'hole_cards[{i}]#len', 0, H)
        hole.append(A('list', SymSeq(tuple(b.card(f'hole_cards[{i}][{k}]') for k in range(H)), ln)))
        ln2 = b.int(f'hole_card_statuses[{i}]#len', 0, H)
        holest.append(A('list', SymSeq(tuple(b.bool(f'hole_card_statuses[{i}][{k}]') for k in range(H)), ln2)))
    f['hole_cards'] = A('list', tuple(hole))
    f['hole_card_statuses'] = A('list', tuple(holest))
    f['discarded_cards'] = A('list', tuple(A('list', b.seq(f'discarded_cards[{k}]', shape.pile_cap, b.card))
                                           for k in range(S)))
    f['street_index'] = b.opt('street_index', lambda nm: b.int(nm, 0, S - 1))
    f['street_return_index'] = b.opt('street_return_index', lambda nm: b.int(nm, 0, S))
    f['street_return_count'] = b.int('street_return_count')
    f['all_in_status'] = b.bool('all_in_status')
    f['status'] = b.bool('status')
    f['operations'] = A('list', TailSeq(prefix + 'operations'))
    b.wf.append(z3.Int(f'len!{prefix}operations') >= 0)
    f['ante_posting_statuses'] = A('list', b.seq('ante_posting_statuses', n, b.bool, fixed=True))
    f['bet_collection_status'] = b.bool('bet_collection_status')
    f['blind_or_straddle_posting_statuses'] = A('list', b.seq('blind_or_straddle_posting_statuses', n, b.bool, fixed=True))
    f['card_burning_status'] = b.bool('card_burning_status')
    f['hole_dealing_statuses'] = A('list', tuple(A('deque', b.seq(f'hole_dealing_statuses[{i}]', H, b.bool))
                                                 for i in range(n)))
    f['board_dealing_counts'] = A('list', b.seq('board_dealing_counts', B, lambda nm: b.int(nm), fixed=True))
    f['standing_pat_or_discarding_statuses'] = A('list', b.seq('standing_pat_or_discarding_statuses', n, b.bool, fixed=True))
    f['opener_index'] = b.opt('opener_index', lambda nm: b.int(nm, 0, n - 1))
    f['bring_in_status'] = b.bool('bring_in_status')
    f['completion_status'] = b.bool('completion_status')
    f['actor_indices'] = A('deque', b.seq('actor_indices', n, lambda nm: b.int(nm, 0, n - 1)))
    f['completion_betting_or_raising_amount'] = b.chips('completion_betting_or_raising_amount')
    f['completion_betting_or_raising_count'] = b.int('completion_betting_or_raising_count')
    f['acted_player_indices'] = A('set', BitSet(b.bool(f'acted_player_indices[{i}]') for i in range(n)))
    f['consecutive_all_in_completion_betting_or_raising_amounts'] = A('list', b.seq('consecutive_all_in_completion_betting_or_raising_amounts', n, b.chips))
    f['runout_count_selector_statuses'] = A('list', b.seq('runout_count_selector_statuses', n, b.bool, fixed=True))
    f['runout_count'] = b.opt('runout_count', (lambda nm: b.int(nm, None, shape.R)) if shape.R is not None else (lambda nm: b.int(nm)))
    f['runout_count_selection_flag'] = b.bool('runout_count_selection_flag')
    f['showdown_indices'] = A('deque', b.seq('showdown_indices', n, lambda nm: b.int(nm, 0, n - 1)))
    f['hand_killing_statuses'] = A('list', b.seq('hand_killing_statuses', n, b.bool, fixed=True))

    def pot(nm):
        return A('obj', SymObj(st.Pot, {
            'raked_amount': b.chips(nm + '.raked_amount'),
            'unraked_amount': b.chips(nm + '.unraked_amount'),
            'player_indices': b.seq(nm + '.player_indices', n, lambda x: b.int(x, 0, n - 1))}))
    pots_none = z3.Bool(f'{prefix}_pots?none')
    f['_pots'] = Choice(((pots_none, None), (z3.Not(pots_none), A('list', b.seq('_pots', shape.pots_cap, pot)))))

    def subpot(nm):
        return (b.chips(nm + '.amount'), b.int(nm + '.pot_index', 0, max(shape.pots_cap - 1, 0)),
                b.opt(nm + '.board_index', lambda x: b.int(x, 0)),
                b.opt(nm + '.hand_type_index', lambda x: b.int(x, 0, T - 1)))
    f['_sub_pots'] = A('list', b.seq('_sub_pots', shape.subpots_cap, subpot))
    f['chips_pulling_statuses'] = A('list', b.seq('chips_pulling_statuses', n, b.bool, fixed=True))
    # fields of the real dataclass that this builder does not know (a changed tree may add private fields, e.g. a cache): they are
    # taken at their declared defaults -- an assumption recorded in interp.notes; the structural scans (no query writes the state)
    # are what speaks about such fields
    import dataclasses
    for fld in dataclasses.fields(st.State):
        if fld.name in f:
            continue
        ann = str(fld.type).replace(' ', '')
        if ann in ('int|None', 'Optional[int]', 'None|int'):
            # a scalar the contracts do not know: ANY value it may have been left with (not just its default)
            none = b.bool(fld.name + '?none')
            f[fld.name] = Choice(((none, None), (z3.Not(none), b.int(fld.name))))
        elif ann == 'int':
            f[fld.name] = b.int(fld.name)
        elif ann == 'bool':
            f[fld.name] = b.bool(fld.name)
        elif fld.default is not dataclasses.MISSING:
            f[fld.name] = interp.from_native(fld.default)
        elif fld.default_factory is not dataclasses.MISSING:
            try:
                v = fld.default_factory()
            except Exception:   # noqa
                continue
            if isinstance(v, dict) and not v:
                f[fld.name] = A('dict', {})
            elif isinstance(v, (list, tuple)) and not v:
                f[fld.name] = A('list', ())
            elif isinstance(v, set) and not v:
                f[fld.name] = A('set', ())
            else:
                continue
        else:
            continue
        if not hasattr(interp, 'unknown_fields'):
            interp.unknown_fields = []
        interp.unknown_fields.append(fld.name)
    ref = A('obj', SymObj(st.State, f))
    return ref, And_(*b.wf)


# ------------------------------------------------------------------------------------------------
# decoding a model
# ------------------------------------------------------------------------------------------------

def decode(v, heap, model):
    """JSON-able concrete value of v under `model` (tagged dicts for non-JSON types)"""
    import enum as _enum
    if v is None or isinstance(v, (bool, int, str)):
        return v
    if isinstance(v, z3.BoolRef):
        return bool(z3.is_true(model.eval(v, model_completion=True)))
    if isinstance(v, z3.ArithRef):
        r = model.eval(v, model_completion=True)
        if z3.is_int_value(r):
            return r.as_long()
        if z3.is_rational_value(r):
            fr = fractions.Fraction(r.numerator_as_long(), r.denominator_as_long())
            return fr.numerator if fr.denominator == 1 and v.is_int() else {'$frac': [fr.numerator, fr.denominator]}
        if z3.is_algebraic_value(r):
            return {'$approx': r.approx(10).as_decimal(10)}
        return {'$term': str(r)}
    if isinstance(v, _enum.Enum):
        return {'$enum': f'{type(v).__module__}.{type(v).__qualname__}', 'name': v.name}
    if isinstance(v, SymEnum):
        k = decode(v.idx, heap, model)
        m = v.members[k]
        return {'$enum': f'{type(m).__module__}.{type(m).__qualname__}', 'name': m.name}
    if isinstance(v, tuple):
        return {'$tuple': [decode(x, heap, model) for x in v]}
    if isinstance(v, SymSeq):
        return {'$tuple': [decode(x, heap, model) for f, x in zip(v.flags, v.slots) if decode(f, heap, model)]}
    if isinstance(v, Choice):
        for g, a in v.alts:
            if concrete_bool(g) is True or z3.is_true(model.eval(g, model_completion=True)):
                return decode(a, heap, model)
        return {'$unbound': True}
    if isinstance(v, Snapshot):
        return decode(v.ref, v.heap, model)
    if isinstance(v, Ref):
        c = heap[v.cell]
        if isinstance(c, SymObj):
            return decode(c, heap, model)
        if isinstance(c, BitSet):
            return {'$set': [k for k, bit in enumerate(c.bits) if decode(bit, heap, model)]}
        if isinstance(c, TailSeq):
            return {'$list': [decode(x, heap, model) for x in c.items], '$prefix': c.prefix}
        inner = decode(c, heap, model)
        items = inner['$tuple'] if isinstance(inner, dict) and '$tuple' in inner else inner
        return {'$' + v.kind: items}
    if isinstance(v, SymObj):
        return {'$obj': f'{v.cls.__module__}.{v.cls.__qualname__}',
                'fields': {k: decode(x, heap, model) for k, x in v.fields.items()}}
    if isinstance(v, SymMapping):
        return {'$dict': [[decode(k, heap, model), decode(x, heap, model)] for k, x in v.pairs]}
    if isinstance(v, FlagSet):
        return {'$flags': [decode(k, heap, model) for k, b in v.flags.items() if decode(b, heap, model)]}
    if isinstance(v, AbstractHandType):
        return {'$handtype': v.k}
    if isinstance(v, (Opaque,)):
        return {'$opaque': v.tag}
    if isinstance(v, Func):
        return {'$func': v.qual}
    if isinstance(v, type):
        return {'$class': f'{v.__module__}.{v.__qualname__}'}
    return {'$repr': repr(v)}

"""Front end: reads the REAL source of the package under verification on every run.

* the files are parsed with `ast` from <repo>/pokerkit/*.py (the working tree, not an installed copy);
* the same files are imported as Python modules (sys.path[0] = <repo>) so that class hierarchies (MRO),
  class attributes, enum members and module globals are the real ones;
* a function is addressed by `module.__name__ + '.' + __qualname__`.

What extraction drops (stated in every evidence file): docstrings, type annotations, the text of
f-strings (evaluated to opaque atoms), `cast(T, x)` type arguments.
"""
from __future__ import annotations

import ast
import hashlib
import importlib
import os
import sys
import types

from .values import Func, PyvcUnsupported

REPO = os.environ.get('PYVC_REPO', '/repo')
PACKAGE = 'pokerkit'


class SourceTable:
    def __init__(self, repo=REPO, extra_modules=()):
        self.repo = repo
        if sys.path[0] != repo:
            sys.path.insert(0, repo)
        self.funcs = {}            # qualname -> Func
        self.modules = {}          # module name -> module object
        self.trees = {}
        self.files = {}
        pkgdir = os.path.join(repo, PACKAGE)
        names = [PACKAGE + '.' + f[:-3] for f in sorted(os.listdir(pkgdir))
                 if f.endswith('.py') and f != '__init__.py']
        for name in names:
            self.load(name)
        for name in extra_modules:
            self.load(name)

    def load(self, name):
        mod = importlib.import_module(name)
        path = mod.__file__
        if name.startswith(PACKAGE + '.') and not os.path.abspath(path).startswith(os.path.abspath(self.repo)):
            raise RuntimeError(f'{name} imported from {path}, not from {self.repo}')
        src = open(path).read()
        tree = ast.parse(src)
        self.modules[name] = mod
        self.trees[name] = tree
        self.files[name] = path
        self._walk(tree.body, name, mod, None, '')
        return mod

    def _walk(self, body, modname, mod, cls, prefix):
        for node in body:
            if isinstance(node, (ast.FunctionDef,)):
                qual = f'{modname}.{prefix}{node.name}'
                # property setters etc. share a name: keep the first (getter) unless decorated .setter
                if qual in self.funcs and any(isinstance(d, ast.Attribute) and d.attr in ('setter', 'deleter')
                                              for d in node.decorator_list):
                    continue
                self.funcs[qual] = Func(node, mod, qual, cls)
            elif isinstance(node, ast.ClassDef):
                pycls = None
                try:
                    obj = mod
                    for part in (prefix + node.name).split('.'):
                        obj = getattr(obj, part)
                    pycls = obj
                except AttributeError:
                    pycls = None
                self._walk(node.body, modname, mod, pycls, prefix + node.name + '.')

    # ---- lookup -----------------------------------------------------------------------------------------

    def func(self, qual) -> Func:
        try:
            return self.funcs[qual]
        except KeyError:
            raise PyvcUnsupported(f'no source for {qual}')

    def of_native(self, f):
        """Func for a native python function object of the package, else None"""
        if isinstance(f, (classmethod, staticmethod)):
            f = f.__func__
        if isinstance(f, property):
            f = f.fget
        if not isinstance(f, types.FunctionType):
            return None
        qual = f'{f.__module__}.{f.__qualname__}'
        return self.funcs.get(qual)

    def class_attr(self, cls, name):
        """resolve `name` along the real MRO.  Returns (kind, payload):
           ('func', Func) plain function / ('property', Func) / ('classmethod', Func) / ('staticmethod', Func)
           ('native', obj) anything else / (None, None) when absent"""
        for klass in cls.__mro__:
            if name in klass.__dict__:
                raw = klass.__dict__[name]
                if isinstance(raw, property):
                    f = self.of_native(raw.fget)
                    if f is None:
                        return ('native_property', raw)
                    return ('property', f)
                if isinstance(raw, classmethod):
                    f = self.of_native(raw.__func__)
                    return ('classmethod', f) if f is not None else ('native', getattr(cls, name))
                if isinstance(raw, staticmethod):
                    f = self.of_native(raw.__func__)
                    return ('staticmethod', f) if f is not None else ('native', getattr(cls, name))
                if isinstance(raw, types.FunctionType):
                    f = self.of_native(raw)
                    if f is not None:
                        return ('func', f)
                    return ('native_func', raw)
                return ('native', raw)
        return (None, None)

    def source_hash(self, qual):
        f = self.func(qual)
        return hashlib.sha256(ast.dump(f.node).encode()).hexdigest()[:16]

    def lineno(self, qual):
        return self.func(qual).node.lineno

"""Builds the verification conditions of ONE function under contract for ONE shape.

    pre-state  : fresh symbolic State of the shape (+ symbolic arguments)          -- all values free
    assume     : well-formedness (types), contract.requires
    execute    : the REAL body, read from the repository source on this run (callees inlined from
                 source or replaced by their contracts, see Interp.cuts)
    obligations: one per ensures clause, one per raises class (exact refusal condition), one per
                 exceptional exit that the contract does not allow (asserts and implicit safety
                 conditions), `refusal leaves the state unchanged`, plus canaries/covers.
"""
from __future__ import annotations

import inspect
import z3

from .values import *  # noqa
from .values import And_, Or_, Not_, Implies_, concrete_bool, simp, zbool
from .core import Ctx, Exit, Exc, UnwindLimit, ContractPre, TypeErr, common_prefix
from .interp import Interp
from .shapes import fresh_state, Shape, decode, Builder
from .vc import Obligation
from . import contract as C


def make_arg(I, ctx, name, spec, shape, wf):
    n = shape.n
    p = 'arg.'
    if spec.kind == 'opt_index':
        none = z3.Bool(f'{p}{name}?none')
        v = z3.Int(f'{p}{name}')
        wf.append(z3.Or(none, z3.And(v >= 0, v < n)))
        return Choice(((none, None), (z3.Not(none), v)))
    if spec.kind == 'index':
        v = z3.Int(f'{p}{name}')
        wf.append(z3.And(v >= 0, v < n))
        return v
    if spec.kind == 'opt_int':
        none = z3.Bool(f'{p}{name}?none')
        return Choice(((none, None), (z3.Not(none), z3.Int(f'{p}{name}'))))
    if spec.kind == 'int':
        v = z3.Int(f'{p}{name}')
        if getattr(spec, 'lo', None) is not None:
            wf.append(v >= spec.lo)
        if getattr(spec, 'hi', None) is not None:
            wf.append(v <= spec.hi)
        return v
    if spec.kind == 'chips':
        return z3.Int(f'{p}{name}') if I.chips == 'int' else z3.Real(f'{p}{name}')
    if spec.kind == 'opt_chips':
        none = z3.Bool(f'{p}{name}?none')
        v = z3.Int(f'{p}{name}') if I.chips == 'int' else z3.Real(f'{p}{name}')
        return Choice(((none, None), (z3.Not(none), v)))
    if spec.kind == 'bool':
        return z3.Bool(f'{p}{name}')
    if spec.kind == 'const':
        return spec.value
    if spec.kind in ('cards', 'opt_cards', 'opt_cards_or_int', 'status_or_cards', 'cardslike', 'cardslike_or_int'):
        import importlib
        ut = importlib.import_module('pokerkit.utilities')
        b = Builder(I, p, {'Card': ut.Card, 'Rank': ut.Rank, 'Suit': ut.Suit})
        cards = b.seq(name, spec.cap, b.card)
        wf.extend(b.wf)
        if spec.kind == 'cards':
            return cards
        if spec.kind == 'opt_cards':
            none = z3.Bool(f'{p}{name}?none')
            return Choice(((none, None), (z3.Not(none), cards)))
        if spec.kind in ('cardslike', 'cardslike_or_int'):
            # every documented way of naming cards in an operation: None | (a count) | a tuple of cards | ONE bare Card object
            tag = z3.Int(f'{p}{name}?tag')          # 0 None, 1 int, 2 cards, 3 a bare Card
            lo_ok = [0, 2, 3] if spec.kind == 'cardslike' else [0, 1, 2, 3]
            wf.append(z3.Or(*[tag == k for k in lo_ok]))
            one = b.card(name + '!bare')
            wf.extend(b.wf)
            alts = [(tag == 0, None), (tag == 2, cards), (tag == 3, one)]
            if spec.kind == 'cardslike_or_int':
                alts.insert(1, (tag == 1, z3.Int(f'{p}{name}#int')))
            return Choice(tuple(alts))
        if spec.kind == 'opt_cards_or_int':
            tag = z3.Int(f'{p}{name}?tag')          # 0 None, 1 int, 2 cards
            wf.append(z3.And(tag >= 0, tag <= 2))
            return Choice(((tag == 0, None), (tag == 1, z3.Int(f'{p}{name}#int')), (tag == 2, cards)))
        tag = z3.Int(f'{p}{name}?tag')              # 0 None, 1 bool, 2 cards
        wf.append(z3.And(tag >= 0, tag <= 2))
        return Choice(((tag == 0, None), (tag == 1, z3.Bool(f'{p}{name}#bool')), (tag == 2, cards)))
    raise ValueError(spec.kind)


class FunctionVC:
    def __init__(self, src, ccls, shape, chips='int', cuts=None, hooks=None, unwind=16, prop=None,
                 with_state=True, configure=None, arg_makers=None, setup=None):
        self.arg_makers = arg_makers or {}
        self.setup = setup
        self.src = src
        self.ccls = ccls
        self.shape = shape
        self.prop = prop or ccls.prop
        self.I = Interp(src, chips=chips, cuts=cuts, hooks=hooks, unwind=unwind)
        self.with_state = with_state
        self.obligations = []
        self.probed = set()
        self.notes = []
        if configure is not None:
            configure(self.I)

    # -- helpers -------------------------------------------------------------------------------------------
    def clause_func(self, name):
        return self.src.func(C.clause_source_name(self.ccls, name))

    def eval_clause(self, name, ctx, bindings):
        """symbolic value of a clause function on the given bindings (by parameter name).
        Exceptions raised while evaluating a clause make it false on those paths."""
        f = self.clause_func(name)
        params = [a.arg for a in f.node.args.args]
        try:
            args = [self.ccls if p == 'K' else bindings[p] for p in params]
        except KeyError as e:
            raise PyvcUnsupported(f'clause {name}: unknown parameter {e}')
        sub = ctx.fork()
        sub.exits = []
        v = self.I.call_func(sub, f, args, {})
        t = self.I.truth(v, sub) if not sub.dead else False
        k = len(ctx.pcl)
        # a clause that raises on some path is false there
        bad = Or_(*[And_(*e.pcl[k:]) for e in sub.exits if e.kind == 'raise'])
        t = And_(t, Not_(bad))
        # fresh-symbol definitions (floor_divmod etc.) are conjuncts of sub.pcl: they are definitional, keep
        # them as hypotheses; conjuncts that only exclude the raising paths are implied by `not bad`
        defs = [c for c in sub.pcl[k:]] if concrete_bool(bad) is False else []
        if concrete_bool(bad) is not False:
            self.notes.append(f'clause {name} may raise')
        return t, sub, defs

    def oid(self, clause):
        fn = self.ccls.target.split('.', 2)[-1] if self.ccls.target.startswith('pokerkit.') else self.ccls.target
        return f'{self.prop}/{fn}/{clause}/{self.shape.tag or "n%d" % self.shape.n}/{self.I.chips[0].upper()}'

    # -- main -----------------------------------------------------------------------------------------------
    def build(self):
        I, ccls, shape = self.I, self.ccls, self.shape
        target = self.src.func(ccls.target)
        ctx0 = Ctx()
        wf = []
        bindings = {}
        call_args = []
        if self.with_state:
            ref, wf_s = fresh_state(I, ctx0, shape)
            wf.append(wf_s)
            bindings['s'] = ref
            call_args.append(ref)
            self.state_ref = ref
        params = [a.arg for a in target.node.args.args] + [a.arg for a in target.node.args.kwonlyargs]
        argspecs = getattr(ccls, 'args', {})
        self.sym_args = {}
        kwargs = {}
        for pname in params:
            if (pname == 'self' and self.with_state) or (pname not in argspecs and pname not in self.arg_makers):
                continue
            if pname in self.arg_makers:
                v = self.arg_makers[pname](I, ctx0, wf, shape)
            else:
                v = make_arg(I, ctx0, pname, argspecs[pname], shape, wf)
            self.sym_args[pname] = v
            bindings[pname] = v
            kwargs[pname] = v
        bindings['integral'] = (I.chips == 'int')
        bindings['warnings_are_errors'] = I.warn_flag
        bindings['a'] = tuple(self.sym_args[nm] for nm in getattr(ccls, 'argnames', ()) if nm in self.sym_args)
        ctx0.assume(And_(*wf))
        if self.setup is not None:
            self.setup(self, ctx0, bindings)
        if hasattr(ccls, 'requires'):
            t, sub, _ = self.eval_clause('requires', ctx0, bindings)
            ctx0.set_pc(sub.pcl, sub.dead)
            ctx0.assume(t)
        self.ctx0 = ctx0
        self.bindings = bindings
        self.heap0 = dict(ctx0.heap)
        if self.with_state:
            bindings['old'] = Snapshot(self.heap0, bindings['s'])
        hyp0 = ctx0.pc
        # cover: the precondition is satisfiable
        self.add(Obligation(self.oid('cover-pre'), 'cover', hyp0, True, self.prop))
        # probe points: clauses evaluated at the call of a named callee (after the local mutation)
        at_call = getattr(ccls, 'at_call', {})
        probe_names = {nm for names in at_call.values() for nm in names}
        for callee, names in at_call.items():
            def hook(I_, cx, fn, args, kwargs, node, names=names, callee=callee):
                if I_.call_depth != 1:
                    return
                b2 = dict(bindings)
                b2['op'] = args[1] if len(args) > 1 else None
                b2['call_args'] = tuple(args)
                for kw_name, kw_val in kwargs.items():
                    b2['call_' + kw_name] = kw_val
                if ('alias', callee) not in self.probed:
                    self.probed.add(('alias', callee))
                    self.alias_obligation(cx, 'call-' + callee.rsplit('.', 1)[-1])
                for nm in names:
                    f = dict(ccls.clauses)[nm]
                    kind, prop, note = f._clause
                    t, sub, defs = self.eval_clause(nm, cx, b2)
                    self.add(Obligation(self.oid(nm), kind, And_(cx.pc, *defs), t, prop or self.prop,
                                        meta={'clause': C.clause_source_name(ccls, nm), 'path': 'at-call:' + callee}))
            I.hooks[callee] = hook
        # execute the real body
        ctx = ctx0.fork()
        ctx.exits = []
        r = I.call_func(ctx, target, call_args, kwargs)
        bindings['r'] = r
        self.normal = ctx
        self.result = r
        exits = [e for e in ctx.exits if e.kind == 'raise']
        k0 = len(ctx0.pcl)
        # ensures clauses on the normal path
        if not ctx.dead:
            for name, f in ccls.clauses:
                if name in probe_names or name in self.probed or name in getattr(ccls, 'probe_only', ()):
                    continue
                kind, prop, note = f._clause
                t, sub, defs = self.eval_clause(name, ctx, bindings)
                self.add(Obligation(self.oid(name), kind, And_(ctx.pc, *defs), t, prop or self.prop,
                                    meta={'clause': C.clause_source_name(ccls, name), 'path': 'normal'}))
            if getattr(self, 'on_normal_exit', None) is not None:
                self.on_normal_exit(self, ctx)
            self.alias_obligation(ctx, 'exit')
            self.add(Obligation(self.oid('canary-normal'), 'canary', ctx.pc, False, self.prop))
        else:
            self.notes.append('no normal path')
        # raises
        raises = getattr(ccls, 'raises', {})
        by_cls = {}
        for e in exits:
            by_cls.setdefault(e.value.cls, []).append(e)
        for exc_cls, clause in raises.items():
            if clause is None:
                continue
            mine = [e for c, es in by_cls.items() if issubclass(c, exc_cls) and not issubclass(c, (UnwindLimit, ContractPre, TypeErr)) for e in es]
            actual = Or_(*[And_(*e.pcl[k0:]) for e in mine])
            t, sub, defs = self.eval_clause(clause, ctx0, bindings)
            if getattr(ccls, 'raises_split', False):
                # the body contains havoc (loop invariants, callee contracts): `raises iff cond` is stated as two implications whose
                # hypotheses carry the assumed facts -- every raising path implies cond, every normal path implies not cond
                ename = exc_cls.__name__
                for i, e in enumerate(mine):
                    self.add(Obligation(self.oid(f'raises-{ename}-only-if-{clause}' + (f'#{i}' if i else '')), 'raises', And_(*e.pcl, *defs), t,
                                        self.prop, meta={'clause': C.clause_source_name(ccls, clause), 'exception': ename, 'path': 'raise',
                                                         'origin': e.value.origin}))
                if not ctx.dead:
                    self.add(Obligation(self.oid(f'returns-only-if-not-{clause}'), 'raises', And_(ctx.pc, *defs), Not_(t), self.prop,
                                        meta={'clause': C.clause_source_name(ccls, clause), 'exception': ename, 'path': 'normal'}))
                if mine and getattr(ccls, 'cover_raises', True):
                    self.add(Obligation(self.oid(f'cover-raises-{ename}'), 'cover', Or_(*[And_(*e.pcl) for e in mine]), True, self.prop))
                continue
            goal = zbool(actual) == zbool(t) if (is_sym(actual) or is_sym(t)) else (actual == t)
            ename = exc_cls.__name__ if isinstance(exc_cls, type) else '|'.join(c.__name__ for c in exc_cls)
            self.add(Obligation(self.oid(f'raises-{ename}-iff-{clause}'), 'raises', And_(hyp0, *defs),
                                goal, self.prop,
                                meta={'clause': C.clause_source_name(ccls, clause),
                                      'exception': ename, 'path': 'raise'}))
            if mine and getattr(ccls, 'cover_raises', True):
                self.add(Obligation(self.oid(f'cover-raises-{ename}'), 'cover', And_(hyp0, actual), True, self.prop))
        allowed = tuple(c for k in raises for c in (k if isinstance(k, tuple) else (k,)))
        unchanged = getattr(ccls, 'refusal_unchanged', False)
        for c, es in by_cls.items():
            if allowed and issubclass(c, allowed) and not issubclass(c, (UnwindLimit, ContractPre, TypeErr)):
                if unchanged and self.with_state:
                    for i, e in enumerate(es):
                        ectx = Ctx(e.pcl, dict(e.heap), [])
                        from . import ghost_models
                        same = ghost_models.state_equal_sym(I, ectx, bindings['old'], bindings['s'])
                        self.add(Obligation(self.oid(f'refusal-unchanged-{c.__name__}-{i}'), 'frame', ectx.pc, same, self.prop,
                                            meta={'exception': c.__name__, 'origin': e.value.origin, 'path': 'raise'}))
                continue
            # not allowed: every such exit must be unreachable (asserts, implicit safety, unwinding)
            groups = {}
            for e in es:
                groups.setdefault(e.value.origin, []).append(e)
            for origin, g in groups.items():
                reach = Or_(*[And_(*e.pcl) for e in g])
                short = origin.split('@')[0] if '@' in origin else 'raise'
                line = origin.rsplit(':', 1)[-1]
                self.add(Obligation(self.oid(f'no-{c.__name__}-{short}@{line}'), 'safety', reach, False, self.prop,
                                    meta={'exception': c.__name__, 'origin': origin, 'path': 'raise'}))
        ax = And_(*I.axioms)
        for ob in self.obligations:
            ob.hyp = And_(ax, ob.hyp)
        return self.obligations

    def alias_obligation(self, ctx, where):
        """the per-player / per-street / per-board containers of the state are different objects: `[[]] * n` or `[deque()] * n` would make
        every later write to one row show in all of them.  Decided on the symbolic heap itself (cells), no solver needed."""
        if not self.with_state:
            return
        try:
            obj = ctx.get(self.state_ref)
        except Exception:   # noqa
            return
        shared = []
        bad_when = []

        def rows_of(ref):
            c = ctx.heap.get(ref.cell)
            if isinstance(c, Choice):
                out = []
                for g, a in c.alts:
                    out.append((g, a if isinstance(a, tuple) else (a.slots if isinstance(a, SymSeq) else None)))
                return out
            return [(True, c if isinstance(c, tuple) else (c.slots if isinstance(c, SymSeq) else None))]
        for name, v in obj.fields.items():
            alts = v.alts if isinstance(v, Choice) else ((True, v),)
            for g, ref in alts:
                if not isinstance(ref, Ref) or ref.kind not in ('list', 'deque', 'tuple'):
                    continue
                for g2, rows in rows_of(ref):
                    if rows is None:
                        continue
                    cells = [e.cell for e in rows if isinstance(e, Ref)]
                    if len(cells) >= 2 and len(set(cells)) != len(cells):
                        shared.append(name)
                        bad_when.append(And_(g, g2))
        self.add(Obligation(self.oid(f'rows-are-distinct-objects@{where}'), 'P', ctx.pc, Not_(Or_(*bad_when)) if bad_when else True, self.prop,
                            meta={'path': 'structure', 'aliased_fields': shared, 'native_fact': True,
                                  'note': 'rows of a per-player / per-street field share one object' if shared else ''}))

    def probe(self, ctx, names, extra, path):
        """evaluate clauses at a program point (used by drivers' cuts): one obligation per clause"""
        b2 = dict(self.bindings)
        b2.update(extra)
        for nm in names:
            f = dict(self.ccls.clauses)[nm]
            kind, prop, note = f._clause
            t, sub, defs = self.eval_clause(nm, ctx, b2)
            self.add(Obligation(self.oid(nm), kind, And_(ctx.pc, *defs), t, prop or self.prop,
                                meta={'clause': C.clause_source_name(self.ccls, nm), 'path': path}))
            self.probed.add(nm)

    def add(self, ob):
        if ob.label == 'D/shape' and getattr(self.ccls, 'label', None):
            ob.label = self.ccls.label
        ob.meta.setdefault('function', self.ccls.target)
        ob.meta.setdefault('shape', repr(self.shape))
        ob.meta.setdefault('chips', self.I.chips)
        self.obligations.append(ob)

    def decode_model(self, model):
        out = {'function': self.ccls.target, 'shape': self.shape.as_dict(), 'chips': self.I.chips}
        if self.with_state:
            out['state'] = decode(self.state_ref, self.heap0, model)
        out['args'] = {k: decode(v, self.heap0, model) for k, v in self.sym_args.items()}
        out['warnings_are_errors'] = decode(self.I.warn_flag, self.heap0, model)
        # scalar ghost bindings introduced by the driver (e.g. entry indices)
        out['bindings'] = {k: decode(v, self.heap0, model) for k, v in getattr(self, 'bindings', {}).items()
                           if k not in self.sym_args and k not in ('s', 'old', 'r', 'a', 'K')
                           and isinstance(v, (bool, int, z3.ExprRef, SymObj, tuple, Choice, SymSeq))}
        # values the solver chose for callees replaced by a pure contract (replay stubs them with these)
        oracle = {}
        for qual, sym in getattr(self.I, 'cut_log', []):
            oracle.setdefault(qual, []).append(decode(sym, self.heap0, model))
        out['pure_callee_results'] = oracle
        # callees replaced by an ABSTRACT contract whose chosen values cannot be imposed natively (lookup strengths):
        # a native replay that does not exhibit the failure then proves nothing either way
        out['abstract_callees'] = sorted({k[0] for k in getattr(self.I, 'strength_memo', {})}
                                         | ({'hand_type.from_game (abstract hands)'} if self.I.memo_uf else set()))
        out['havoc_callees'] = sorted(q for q, c in (self.I.cuts or {}).items() if getattr(c, '_havoc', False))
        return out

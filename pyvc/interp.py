"""pyvc: symbolic interpreter over the real Python AST (merged-path / guarded execution).

One call of `Interp.run_function` executes a FunctionDef read from the real source on symbolic
arguments and returns the merged normal result plus the list of exceptional exits.  Callee functions
of the package are inlined from their real source unless a contract is registered for them in
`self.cuts`, in which case the contract replaces the body (modular verification).
"""
from __future__ import annotations

import ast
import builtins
import dataclasses
import enum
import itertools
import types
import z3

from .values import *  # noqa
from .values import (And_, Or_, Not_, If_, Implies_, same_term, is_num, is_boolish, concrete_bool,
                     concrete_int, zbool, znum, b2i, simp)
from .core import (conj_list, Ctx, Exit, Exc, UnwindLimit, ContractPre, TypeErr, merge_value, mk_choice, alts_of,
                   merge_heaps, merge_envs, join, merge_exits, as_symseq, to_symenum, is_enum_member)
from . import models
from . import ghost_models  # noqa: F401  (registers the ghost models)


def int_bounds(t):
    """(lo, hi) of an integer term built from constants, if-then-else, + and * (None if unknown)"""
    if z3.is_int_value(t):
        v = t.as_long()
        return (v, v)
    if not z3.is_app(t):
        return None
    k = t.decl().kind()
    ch = t.children()
    if k == z3.Z3_OP_ITE:
        a, b = int_bounds(ch[1]), int_bounds(ch[2])
        if a is None or b is None:
            return None
        return (min(a[0], b[0]), max(a[1], b[1]))
    if k == z3.Z3_OP_ADD:
        bs = [int_bounds(c) for c in ch]
        if any(b is None for b in bs):
            return None
        return (sum(b[0] for b in bs), sum(b[1] for b in bs))
    if k == z3.Z3_OP_MUL:
        bs = [int_bounds(c) for c in ch]
        if any(b is None for b in bs):
            return None
        lo, hi = 1, 1
        for b in bs:
            cands = [lo * b[0], lo * b[1], hi * b[0], hi * b[1]]
            lo, hi = min(cands), max(cands)
        return (lo, hi)
    return None


class Interp:
    def __init__(self, src, chips='int', unwind=16, cuts=None, hooks=None):
        self.src = src
        self.chips = chips                    # 'int' -> Z ; 'real' -> Q (isinstance(x, Integral) False for chips)
        self.unwind = unwind
        self.cuts = cuts or {}                # qualname -> callable(interp, ctx, func, args, kwargs, node) -> value
        self.hooks = hooks or {}              # qualname -> probe(interp, ctx, args) called before the call
        self.fresh_ctr = 0
        self.warn_flag = z3.Bool('warnings_are_errors')
        self.call_depth = 0
        self.stack = []                       # qualnames of active frames
        self.stats = {'calls': 0, 'stmts': 0}
        self.memo_uf = {}                     # memoised abstract results (hands)
        self.axioms = []                      # facts about fresh symbols only (always satisfiable): global hypotheses
        self.tracked = []                     # skolem values whose multiplicity permutations must preserve

    # ------------------------------------------------------------------------------------------------
    # fresh symbols
    # ------------------------------------------------------------------------------------------------
    def axiom(self, fact):
        """a constraint that only restricts fresh symbols and is satisfiable whatever the other symbols
        are (e.g. `p is a permutation of xs`): kept out of the path condition so that it is a hypothesis
        even where path conditions occur negated."""
        if concrete_bool(fact) is not True:
            self.axioms.append(fact)

    def fresh(self, base, sort='int'):
        self.fresh_ctr += 1
        name = f'{base}!{self.fresh_ctr}'
        if sort == 'int':
            return z3.Int(name)
        if sort == 'bool':
            return z3.Bool(name)
        if sort == 'real':
            return z3.Real(name)
        if sort == 'chips':
            return z3.Int(name) if self.chips == 'int' else z3.Real(name)
        raise ValueError(sort)

    # ------------------------------------------------------------------------------------------------
    # exceptions as side exits
    # ------------------------------------------------------------------------------------------------
    def raise_if(self, ctx, cond, exc_cls, origin, env=None):
        """under `cond` the real code raises exc_cls here: record the exit, continue with not cond"""
        cb = concrete_bool(cond)
        if cb is False or ctx.dead:
            return
        ctx.exits.append(Exit('raise', Exc(exc_cls, origin), ctx.pcl + tuple(conj_list(cond)), ctx.heap, env))
        ctx.assume(Not_(cond))
        if cb is True:
            ctx.kill()

    def where(self, node):
        q = self.stack[-1] if self.stack else '?'
        return f'{q}:{getattr(node, "lineno", "?")}'

    # ------------------------------------------------------------------------------------------------
    # function execution
    # ------------------------------------------------------------------------------------------------
    def bind_args(self, ctx, fn_node, module, args, kwargs, closure_env=None, defaults_env=None):
        a = fn_node.args
        env = dict(closure_env or {})
        pos = list(a.posonlyargs) + list(a.args)
        names = [p.arg for p in pos]
        if len(args) > len(names) and a.vararg is None:
            raise PyvcUnsupported(f'too many positional args for {getattr(fn_node, "name", "lambda")}')
        for n, v in zip(names, args):
            env[n] = v
        if a.vararg is not None:
            env[a.vararg.arg] = tuple(args[len(names):])
        kwargs = dict(kwargs)
        ndef = len(a.defaults)
        for i, n in enumerate(names):
            if n in env and i < len(args):
                continue
            if n in kwargs:
                env[n] = kwargs.pop(n)
                continue
            di = i - (len(names) - ndef)
            if di >= 0:
                env[n] = self.eval_default(ctx, a.defaults[di], module)
            else:
                raise PyvcUnsupported(f'missing argument {n} for {getattr(fn_node, "name", "lambda")}')
        for p, d in zip(a.kwonlyargs, a.kw_defaults):
            if p.arg in kwargs:
                env[p.arg] = kwargs.pop(p.arg)
            elif d is not None:
                env[p.arg] = self.eval_default(ctx, d, module)
            else:
                raise PyvcUnsupported(f'missing kw-only argument {p.arg}')
        if kwargs:
            if a.kwarg is not None:
                raise PyvcUnsupported('**kwargs')
            raise PyvcUnsupported(f'unexpected keyword arguments {list(kwargs)}')
        return env

    def eval_default(self, ctx, node, module):
        return self.eval(node, ctx, {'__module__': module})

    def call_func(self, ctx, func, args, kwargs, node=None, closure_env=None):
        """inline execution of a FunctionDef / Lambda from source.  Returns the merged return value;
        raise exits go to ctx.exits; ctx.pc is narrowed to the returning paths."""
        fn_node = func.node
        module = func.module
        env = self.bind_args(ctx, fn_node, module, args, kwargs, closure_env)
        env['__module__'] = module
        if args:
            env['__self__'] = args[0]
        else:       # the receiver (self / cls) may have been passed by keyword
            pos = list(getattr(fn_node.args, 'posonlyargs', [])) + list(fn_node.args.args)
            env['__self__'] = env.get(pos[0].arg) if pos else None
        env['__class__'] = getattr(func, 'cls', None) if not isinstance(func, Closure) else (closure_env or {}).get('__class__')
        self.stats['calls'] += 1
        if isinstance(fn_node, ast.Lambda):
            return self.eval(fn_node.body, ctx, env)
        if self.call_depth > 60:
            raise PyvcUnsupported(f'call depth exceeded at {func.qual}')
        is_gen = any(isinstance(n, (ast.Yield, ast.YieldFrom)) for n in self.walk_own(fn_node))
        if is_gen:
            env['__yield__'] = ()
        outer_exits = ctx.exits
        ctx.exits = []
        self.call_depth += 1
        self.stack.append(getattr(func, 'qual', None) or 'lambda')
        try:
            self.exec_block(fn_node.body, ctx, env)
            inner = ctx.exits
        finally:
            self.stack.pop()
            self.call_depth -= 1
            ctx.exits = outer_exits
        rets = []
        if not ctx.dead:
            rets.append(Exit('return', env.get('__yield__') if is_gen else None, ctx.pcl, ctx.heap, None))
        for e in inner:
            if e.kind == 'return':
                rets.append(e)
            elif e.kind == 'raise':
                e.env = None
                outer_exits.append(e)
            else:
                raise PyvcUnsupported(f'{e.kind} outside loop in {func.qual}')
        m = merge_exits(rets)
        if m is None:
            ctx.kill()
            return None
        pcl, heap, value, _ = m
        ctx.set_pc(pcl); ctx.heap = heap
        return value

    def walk_own(self, fn_node):
        """nodes of a function body excluding nested function definitions"""
        todo = list(fn_node.body)
        while todo:
            n = todo.pop()
            yield n
            for ch in ast.iter_child_nodes(n):
                if isinstance(ch, (ast.FunctionDef, ast.Lambda, ast.ClassDef)):
                    continue
                todo.append(ch)

    # ------------------------------------------------------------------------------------------------
    # statements
    # ------------------------------------------------------------------------------------------------
    def exec_block(self, stmts, ctx, env):
        for st in stmts:
            if ctx.dead:
                return
            self.exec_stmt(st, ctx, env)

    def exec_stmt(self, st, ctx, env):
        self.stats['stmts'] += 1
        m = getattr(self, 'st_' + type(st).__name__, None)
        if m is None:
            raise PyvcUnsupported(f'statement {type(st).__name__} at {self.where(st)}')
        m(st, ctx, env)

    def st_Pass(self, st, ctx, env):
        pass

    def st_Expr(self, st, ctx, env):
        v = st.value
        if isinstance(v, ast.Constant):
            return
        if isinstance(v, ast.Yield):
            val = self.eval(v.value, ctx, env) if v.value is not None else None
            env['__yield__'] = models.seq_append(self, ctx, env['__yield__'], val)
            return
        if isinstance(v, ast.YieldFrom):
            val = self.eval(v.value, ctx, env)
            env['__yield__'] = models.seq_concat(self, ctx, env['__yield__'], models.to_seq(self, ctx, val))
            return
        self.eval(v, ctx, env)

    def st_Return(self, st, ctx, env):
        val = self.eval(st.value, ctx, env) if st.value is not None else None
        if ctx.dead:
            return
        if '__yield__' in env:
            val = env['__yield__']
        ctx.exits.append(Exit('return', val, ctx.pcl, ctx.heap, None))
        ctx.kill()

    def st_Break(self, st, ctx, env):
        ctx.exits.append(Exit('break', None, ctx.pcl, ctx.heap, dict(env)))
        ctx.kill()

    def st_Continue(self, st, ctx, env):
        ctx.exits.append(Exit('continue', None, ctx.pcl, ctx.heap, dict(env)))
        ctx.kill()

    def st_Raise(self, st, ctx, env):
        if st.exc is None:
            raise PyvcUnsupported(f'bare raise at {self.where(st)}')
        exc = st.exc
        if isinstance(exc, ast.Call):
            cls = self.eval(exc.func, ctx, env)
        else:
            cls = self.eval(exc, ctx, env)
        if isinstance(cls, Exc):
            cls = cls.cls
        if not (isinstance(cls, type) and issubclass(cls, BaseException)):
            raise PyvcUnsupported(f'raise of non-exception at {self.where(st)}')
        self.raise_if(ctx, True, cls, self.where(st), dict(env))

    def st_Assert(self, st, ctx, env):
        c = self.truth(self.eval(st.test, ctx, env), ctx)
        self.raise_if(ctx, Not_(c), AssertionError, 'assert@' + self.where(st), dict(env))

    def st_AnnAssign(self, st, ctx, env):
        if st.value is not None:
            self.assign(st.target, self.eval(st.value, ctx, env), ctx, env)

    def st_Assign(self, st, ctx, env):
        v = self.eval(st.value, ctx, env)
        if ctx.dead:
            return
        for t in st.targets:
            self.assign(t, v, ctx, env)

    def st_AugAssign(self, st, ctx, env):
        t = st.target
        if isinstance(t, ast.Name):
            cur = self.load_name(t.id, ctx, env, t)
            rhs = self.eval(st.value, ctx, env)
            env[t.id] = self.binop(st.op, cur, rhs, ctx, st, inplace=True)
        elif isinstance(t, ast.Attribute):
            obj = self.eval(t.value, ctx, env)
            cur = self.getattr(obj, t.attr, ctx, env, t)
            rhs = self.eval(st.value, ctx, env)
            self.setattr(obj, self.mangle(t.attr, env), self.binop(st.op, cur, rhs, ctx, st, inplace=True), ctx, t)
        elif isinstance(t, ast.Subscript):
            obj = self.eval(t.value, ctx, env)
            idx = self.eval(t.slice, ctx, env)
            cur = models.getitem(self, ctx, obj, idx, t)
            rhs = self.eval(st.value, ctx, env)
            if ctx.dead:
                return
            models.setitem(self, ctx, obj, idx, self.binop(st.op, cur, rhs, ctx, st, inplace=True), t)
        else:
            raise PyvcUnsupported(f'augmented assignment target at {self.where(st)}')

    def assign(self, t, v, ctx, env):
        if isinstance(t, ast.Name):
            env[t.id] = v
        elif isinstance(t, (ast.Tuple, ast.List)) and any(isinstance(e, ast.Starred) for e in t.elts):
            seq = models.to_seq(self, ctx, v)
            if not isinstance(seq, tuple):
                raise PyvcUnsupported(f'starred unpacking of a symbolic-length sequence at {self.where(t)}')
            k = [i for i, e in enumerate(t.elts) if isinstance(e, ast.Starred)]
            if len(k) != 1:
                raise PyvcUnsupported('two starred targets')
            k = k[0]
            after = len(t.elts) - k - 1
            if len(seq) < len(t.elts) - 1:
                self.raise_if(ctx, True, ValueError, 'unpack@' + self.where(t))
                return
            for tt, vv in zip(t.elts[:k], seq[:k]):
                self.assign(tt, vv, ctx, env)
            self.assign(t.elts[k].value, ctx.alloc('list', tuple(seq[k:len(seq) - after])), ctx, env)
            for tt, vv in zip(t.elts[k + 1:], seq[len(seq) - after:] if after else ()):
                self.assign(tt, vv, ctx, env)
        elif isinstance(t, (ast.Tuple, ast.List)):
            seq = models.to_seq(self, ctx, v)
            if isinstance(seq, SymSeq):
                ln = models.seq_len(seq)
                self.raise_if(ctx, Not_(self.eq(ln, len(t.elts), ctx)), ValueError, 'unpack@' + self.where(t))
                if ctx.dead:
                    return
                dense = models.to_dense(self, ctx, seq)
                seq = dense if isinstance(dense, tuple) else dense.slots[:len(t.elts)]
                if len(seq) != len(t.elts):
                    ctx.kill(); return
            if len(seq) != len(t.elts):
                self.raise_if(ctx, True, ValueError, 'unpack@' + self.where(t))
                return
            for tt, vv in zip(t.elts, seq):
                self.assign(tt, vv, ctx, env)
        elif isinstance(t, ast.Attribute):
            obj = self.eval(t.value, ctx, env)
            self.setattr(obj, self.mangle(t.attr, env), v, ctx, t)
        elif isinstance(t, ast.Subscript):
            obj = self.eval(t.value, ctx, env)
            idx = self.eval(t.slice, ctx, env)
            if ctx.dead:
                return
            models.setitem(self, ctx, obj, idx, v, t)
        else:
            raise PyvcUnsupported(f'assignment target {type(t).__name__} at {self.where(t)}')

    def st_Delete(self, st, ctx, env):
        for t in st.targets:
            if isinstance(t, ast.Name):
                env[t.id] = UNBOUND
            elif isinstance(t, ast.Subscript) and not isinstance(t.slice, ast.Slice):
                # `del xs[i]` on a list / deque is `xs.pop(i)` with the value dropped (IndexError when out of range alike)
                obj = self.eval(t.value, ctx, env)
                idx = self.eval(t.slice, ctx, env)
                if ctx.dead:
                    return
                if not (isinstance(obj, models.Ref) and models.kind_of(obj) in ('list', 'deque')):
                    raise PyvcUnsupported(f'del of an item of {type(obj).__name__} at {self.where(t)}')
                models.call_method(self, ctx, obj, 'pop', [idx], {}, t)
            else:
                raise PyvcUnsupported(f'del of {type(t).__name__} at {self.where(t)}')

    def st_Import(self, st, ctx, env):
        import importlib
        for a in st.names:
            mod = importlib.import_module(a.name)
            if a.asname:
                env[a.asname] = mod
            else:
                env[a.name.split('.')[0]] = importlib.import_module(a.name.split('.')[0])

    def st_ImportFrom(self, st, ctx, env):
        import importlib
        if st.level:
            raise PyvcUnsupported(f'relative import inside a function at {self.where(st)}')
        mod = importlib.import_module(st.module)
        for a in st.names:
            env[a.asname or a.name] = self.from_native(getattr(mod, a.name))

    def st_FunctionDef(self, st, ctx, env):
        env[st.name] = Closure(st, env, env.get('__module__'), qual=(self.stack[-1] if self.stack else '') + '.' + st.name)

    def st_If(self, st, ctx, env):
        c = self.truth(self.eval(st.test, ctx, env), ctx)
        if ctx.dead:
            return
        nt, nf = self.narrow(st.test, env, ctx, True), self.narrow(st.test, env, ctx, False)

        def fa(cx, ev):
            ev.update(nt)
            self.exec_block(st.body, cx, ev)

        def fb(cx, ev):
            ev.update(nf)
            self.exec_block(st.orelse, cx, ev)
        self.branch(c, ctx, env, fa, fb)

    def narrow(self, test, env, ctx, truth):
        """refine Choice-valued locals by the outcome of a type test (isinstance / is None); returns
        {name: narrowed value}.  Purely an optimisation: dropped alternatives are exactly those the path
        condition already excludes."""
        out = {}
        if isinstance(test, ast.UnaryOp) and isinstance(test.op, ast.Not):
            return self.narrow(test.operand, env, ctx, not truth)
        if isinstance(test, ast.BoolOp):
            if isinstance(test.op, ast.And) == truth:
                for v in test.values:
                    out.update(self.narrow(v, env, ctx, truth))
            return out
        name = None
        pred = None
        if isinstance(test, ast.Compare) and len(test.ops) == 1 and isinstance(test.left, ast.Name) \
                and isinstance(test.comparators[0], ast.Constant) and test.comparators[0].value is None \
                and isinstance(test.ops[0], (ast.Is, ast.IsNot)):
            name = test.left.id
            want_none = isinstance(test.ops[0], ast.Is) == truth
            pred = (lambda a: a is None) if want_none else (lambda a: a is not None)
        elif isinstance(test, ast.Call) and isinstance(test.func, ast.Name) and test.func.id == 'isinstance' \
                and len(test.args) == 2 and isinstance(test.args[0], ast.Name) and 'isinstance' not in env:
            name = test.args[0].id
            try:
                t = self.eval(test.args[1], Ctx(), {'__module__': env.get('__module__')})
            except PyvcUnsupported:
                return out
            def pred(a, t=t):
                r = models.isinstance_(self, ctx, a, t)
                rb = concrete_bool(r)
                return True if rb is None else (rb == truth)
        if name is None or name not in env or not isinstance(env[name], Choice):
            return out
        alts = [(g, a) for g, a in env[name].alts if pred(a)]
        if alts and len(alts) < len(env[name].alts):
            out[name] = mk_choice(alts)
        return out

    def branch(self, c, ctx, env, fa, fb):
        """run fa under c and fb under not c on forks of ctx/env, then join (in place)"""
        c = simp(c) if isinstance(c, z3.ExprRef) else c
        cb = concrete_bool(c)
        if cb is True:
            return fa(ctx, env)
        if cb is False:
            return fb(ctx, env)
        ca, ea = ctx.fork(c), dict(env)
        fa(ca, ea)
        cb_, eb = ctx.fork(Not_(c)), dict(env)
        fb(cb_, eb)
        join(ctx, env, c, ca, ea, cb_, eb)

    def st_Match(self, st, ctx, env):
        subj = self.eval(st.subject, ctx, env)

        def go(cases, cx, ev):
            if not cases:
                return
            case = cases[0]
            pat = case.pattern
            def test(pat):
                if isinstance(pat, ast.MatchValue):
                    return self.eq(subj, self.eval(pat.value, cx, ev), cx)
                if isinstance(pat, ast.MatchAs) and pat.pattern is None and pat.name is None:
                    return True
                if isinstance(pat, ast.MatchSingleton):
                    return self.is_(subj, pat.value, cx)
                if isinstance(pat, ast.MatchOr):
                    return Or_(*[test(p) for p in pat.patterns])
                raise PyvcUnsupported(f'match pattern {type(pat).__name__} at {self.where(st)}')
            c = test(pat)
            if case.guard is not None:
                # `case P if g`: the guard is evaluated only where the pattern matched (patterns supported here bind no names)
                sub = cx.fork(c)
                sub.exits = []
                k0 = len(sub.pcl)
                gv = self.truth(self.eval(case.guard, sub, ev), sub) if not sub.dead else False
                for e in sub.exits:          # an exception raised by the guard leaves the match statement on that path
                    cx.exits.append(e)
                # conjuncts added while evaluating the guard only narrow alternatives (e.g. an optional value taken as not None)
                gv = And_(gv, *sub.pcl[k0:]) if not sub.dead else False
                c = And_(c, gv)
            self.branch(c, cx, ev, lambda c2, e2: self.exec_block(case.body, c2, e2),
                        lambda c2, e2: go(cases[1:], c2, e2))
        go(st.cases, ctx, env)

    # loops ------------------------------------------------------------------------------------------------
    def run_iterations(self, ctx, env, items, body, orelse=None):
        """items: list of (guard, binder) -- binder(ctx, env) binds the loop variable(s); guard = this
        element is present.  Iterations are independent `if guard: body`.  Handles break/continue/else."""
        outer = ctx.exits
        breaks = []

        def one(cx, ev, binder):
            saved = cx.exits
            cx.exits = []
            binder(cx, ev)
            body(cx, ev)
            conts = []
            for e in cx.exits:
                if e.kind == 'continue':
                    conts.append(e)
                elif e.kind == 'break':
                    breaks.append(e)
                else:
                    outer.append(e)
            cx.exits = saved
            if conts:
                if not cx.dead:
                    conts.append(Exit('continue', None, cx.pcl, cx.heap, dict(ev)))
                pc, heap, _, e2 = merge_exits(conts)
                cx.set_pc(pc); cx.heap = heap
                ev.clear(); ev.update(e2)
        for guard, binder in items:
            if ctx.dead:
                break
            gb = concrete_bool(guard)
            if gb is False:
                continue
            if gb is True:
                one(ctx, env, binder)
            else:
                self.branch(guard, ctx, env, lambda cx, ev, binder=binder: one(cx, ev, binder), lambda cx, ev: None)
        ctx.exits = outer
        if orelse and not ctx.dead:
            self.exec_block(orelse, ctx, env)
        if breaks:
            if not ctx.dead:
                breaks.append(Exit('break', None, ctx.pcl, ctx.heap, dict(env)))
            pc, heap, _, e2 = merge_exits(breaks)
            ctx.set_pc(pc); ctx.heap = heap
            env.clear(); env.update(e2)

    def st_For(self, st, ctx, env):
        inv = self.loop_contract(st)
        if inv is not None:
            return inv(self, st, ctx, env)
        it = self.eval(st.iter, ctx, env)
        if ctx.dead:
            return
        seq = models.to_seq(self, ctx, it)
        items = []
        for g, v in models.items_of(seq):
            items.append((g, (lambda cx, ev, v=v: self.assign(st.target, v, cx, ev))))
        self.run_iterations(ctx, env, items, lambda cx, ev: self.exec_block(st.body, cx, ev), st.orelse)

    def st_While(self, st, ctx, env):
        inv = self.loop_contract(st)
        if inv is not None:
            return inv(self, st, ctx, env)
        outer = ctx.exits
        done = []         # exits from the loop by condition false (as 'break'-like) and by break
        count = 0
        while True:
            if ctx.dead:
                break
            c = self.truth(self.eval(st.test, ctx, env), ctx)
            c = simp(c) if isinstance(c, z3.ExprRef) else c
            cb = concrete_bool(c)
            if cb is False or ctx.dead:
                break
            if count >= self.unwind:
                self.raise_if(ctx, c, UnwindLimit, 'unwind@' + self.where(st))
                break
            count += 1
            if cb is not True:
                fin = ctx.fork(Not_(c))
                done.append(Exit('break', None, fin.pcl, fin.heap, dict(env)))
                ctx.assume(c)
            ctx.exits = []
            self.exec_block(st.body, ctx, env)
            conts = []
            for e in ctx.exits:
                if e.kind == 'continue':
                    conts.append(e)
                elif e.kind == 'break':
                    done.append(Exit('break', None, e.pcl, e.heap, e.env))
                else:
                    outer.append(e)
            ctx.exits = outer
            if conts:
                if not ctx.dead:
                    conts.append(Exit('continue', None, ctx.pcl, ctx.heap, dict(env)))
                pc, heap, _, e2 = merge_exits(conts)
                ctx.set_pc(pc); ctx.heap = heap
                env.clear(); env.update(e2)
        ctx.exits = outer
        if st.orelse:
            raise PyvcUnsupported('while-else')
        if done:
            if not ctx.dead:
                done.append(Exit('break', None, ctx.pcl, ctx.heap, dict(env)))
            for e in done:
                e.value = None
            pc, heap, _, e2 = merge_exits(done)
            ctx.set_pc(pc); ctx.heap = heap
            env.clear(); env.update(e2)

    def loop_contract(self, st):
        """sidecar loop contract for this `while` / `for` node (installed by a driver, see pyvc/cascade.py)"""
        return getattr(self, 'loop_cuts', {}).get(id(st))

    def st_Try(self, st, ctx, env):
        if st.finalbody:
            raise PyvcUnsupported(f'try/finally at {self.where(st)}')
        outer = ctx.exits
        ctx.exits = []
        pre_env = dict(env)
        self.exec_block(st.body, ctx, env)
        inner = ctx.exits
        ctx.exits = outer
        handlers = []
        for h in st.handlers:
            if h.type is None:
                classes = (BaseException,)
            else:
                # the exception classes named by the handler (usually a global name; may be a class constant reached through self)
                t = self.eval(h.type, ctx.fork() if not ctx.dead else Ctx(), dict(pre_env))
                classes = tuple(t) if isinstance(t, tuple) else (t,)
            handlers.append((classes, h))
        results = []      # normal completions (of body+else, of handlers) to merge
        if not ctx.dead:
            if st.orelse:
                self.exec_block(st.orelse, ctx, env)
            if not ctx.dead:
                results.append(Exit('normal', None, ctx.pcl, ctx.heap, dict(env)))
        for e in inner:
            if e.kind != 'raise':
                outer.append(e)
                continue
            target = None
            for classes, h in handlers:
                if issubclass(e.value.cls, classes) and not issubclass(e.value.cls, (UnwindLimit, ContractPre)):
                    target = h
                    break
            if target is None:
                outer.append(e)
                continue
            if getattr(self, 'debug', None) is not None:
                self.debug.append(('caught', [(e.value, e.pc)], True))
            hctx = Ctx(e.pcl, dict(e.heap), outer)
            henv = dict(e.env) if e.env is not None else dict(pre_env)
            if target.name:
                henv[target.name] = e.value
            self.exec_block(target.body, hctx, henv)
            if not hctx.dead:
                results.append(Exit('normal', None, hctx.pcl, hctx.heap, henv))
        m = merge_exits(results)
        if m is None:
            ctx.kill()
            return
        pc, heap, _, e2 = m
        ctx.set_pc(pc); ctx.heap = heap
        env.clear(); env.update(e2)

    # ------------------------------------------------------------------------------------------------
    # expressions
    # ------------------------------------------------------------------------------------------------
    def eval(self, n, ctx, env):
        m = getattr(self, 'ex_' + type(n).__name__, None)
        if m is None:
            raise PyvcUnsupported(f'expression {type(n).__name__} at {self.where(n)}')
        return m(n, ctx, env)

    def ex_Constant(self, n, ctx, env):
        v = n.value
        if isinstance(v, float) and v == v and abs(v) != float('inf'):
            # floats are treated as the real numbers they denote (assumption: float arithmetic as mathematical)
            import fractions
            fr = fractions.Fraction(v)
            return z3.RealVal(f'{fr.numerator}/{fr.denominator}') if fr.denominator != 1 else z3.RealVal(fr.numerator)
        return v

    def ex_JoinedStr(self, n, ctx, env):
        return Opaque('fstring')

    def load_name(self, name, ctx, env, node=None):
        if name in env:
            v = env[name]
            if v is UNBOUND:
                raise PyvcUnsupported(f'unbound local {name} at {self.where(node)}')
            return v
        mod = env.get('__module__')
        if mod is not None and hasattr(mod, name):
            return self.from_native(getattr(mod, name))
        if hasattr(builtins, name):
            return getattr(builtins, name)
        raise PyvcUnsupported(f'name {name} not found at {self.where(node)}')

    def ex_Name(self, n, ctx, env):
        return self.load_name(n.id, ctx, env, n)

    def from_native(self, v):
        """bring a native python object into the value domain"""
        if isinstance(v, types.FunctionType):
            f = self.src.of_native(v)
            return f if f is not None else v
        if isinstance(v, (int, str, type(None), bool)) or isinstance(v, enum.Enum):
            return v
        if isinstance(v, type):
            return v
        if dataclasses.is_dataclass(v) and not isinstance(v, type) and type(v).__module__.startswith('pokerkit') \
                and type(v).__name__ in ('Card', 'Street'):
            return SymObj(type(v), {f.name: self.from_native(getattr(v, f.name)) for f in dataclasses.fields(v)})
        if type(v) is tuple:
            return tuple(self.from_native(x) for x in v)
        return v

    def ex_Tuple(self, n, ctx, env):
        out = []
        for e in n.elts:
            if isinstance(e, ast.Starred):
                out.extend(self.concrete_items(models.to_seq(self, ctx, self.eval(e.value, ctx, env)), e))
            else:
                out.append(self.eval(e, ctx, env))
        return tuple(out)

    def concrete_items(self, seq, node):
        if isinstance(seq, SymSeq):
            raise PyvcUnsupported(f'star-unpack of symbolic-length sequence at {self.where(node)}')
        return list(seq)

    def ex_List(self, n, ctx, env):
        return ctx.alloc('list', self.ex_Tuple(n, ctx, env))

    def ex_Dict(self, n, ctx, env):
        d = {}
        for k, v in zip(n.keys, n.values):
            if k is None:
                raise PyvcUnsupported('dict unpacking')
            kk = self.eval(k, ctx, env)
            if not models.is_concrete(kk):
                raise PyvcUnsupported(f'dict literal with a symbolic key at {self.where(n)}')
            d[kk] = self.eval(v, ctx, env)
        return ctx.alloc('dict', d)

    def ex_Set(self, n, ctx, env):
        return ctx.alloc('set', self.ex_Tuple(n, ctx, env))

    def ex_NamedExpr(self, n, ctx, env):
        # `name := value` binds in the current function scope and yields the value.  (Inside a comprehension Python binds in
        # the enclosing scope; the comprehension's working environment is a copy, so such a binding would not be seen after it:
        # that use is rejected.)
        if env.get('__comp__', None) is not None:
            raise PyvcUnsupported(f'walrus inside a comprehension at {self.where(n)}')
        v = self.eval(n.value, ctx, env)
        env[n.target.id] = v
        return v

    def ex_DictComp(self, n, ctx, env):
        pair = ast.Tuple(elts=[n.key, n.value], ctx=ast.Load())
        ast.copy_location(pair, n)
        fake = ast.ListComp(elt=pair, generators=n.generators)
        ast.copy_location(fake, n)
        pairs = self.comprehension(fake, ctx, env)
        if not isinstance(pairs, tuple):
            raise PyvcUnsupported(f'dict comprehension over a symbolic-length sequence at {self.where(n)}')
        d = {}
        for kv in pairs:
            k, v = kv
            if not models.is_concrete(k):
                raise PyvcUnsupported(f'dict comprehension with a symbolic key at {self.where(n)}')
            d[k] = v
        return ctx.alloc('dict', d)

    def ex_Attribute(self, n, ctx, env):
        obj = self.eval(n.value, ctx, env)
        if ctx.dead:
            return None
        return self.getattr(obj, n.attr, ctx, env, n)

    def ex_Subscript(self, n, ctx, env):
        obj = self.eval(n.value, ctx, env)
        if isinstance(n.slice, ast.Slice):
            lo = self.eval(n.slice.lower, ctx, env) if n.slice.lower is not None else None
            hi = self.eval(n.slice.upper, ctx, env) if n.slice.upper is not None else None
            if n.slice.step is not None:
                raise PyvcUnsupported('slice step')
            return models.getslice(self, ctx, obj, lo, hi, n)
        # generic alias such as list[Pot]
        if isinstance(obj, type) and obj in (list, tuple, dict, set):
            return obj
        idx = self.eval(n.slice, ctx, env)
        if ctx.dead:
            return None
        return models.getitem(self, ctx, obj, idx, n)

    def ex_UnaryOp(self, n, ctx, env):
        v = self.eval(n.operand, ctx, env)
        if isinstance(n.op, ast.Not):
            return Not_(self.truth(v, ctx))
        if isinstance(n.op, ast.USub):
            return self.lift1(v, lambda x, cx: -b2i(x) if is_num(x) or is_boolish(x) else self.type_error(cx, n), ctx)
        if isinstance(n.op, ast.UAdd):
            return v
        raise PyvcUnsupported(f'unary {type(n.op).__name__}')

    def type_error(self, ctx, node, what='operand'):
        self.raise_if(ctx, True, TypeErr, f'type:{what}@' + self.where(node))
        return None

    def lift1(self, v, fn, ctx):
        if isinstance(v, Choice):
            outs = []
            # `fn` may raise on an alternative (type error): that must narrow the caller's context by the
            # alternative's guard only, never kill it -- split() forks per alternative and joins
            return self.split(ctx, v, lambda sub, a: fn(a, sub))
        return fn(v, ctx)

    def ex_BoolOp(self, n, ctx, env):
        is_and = isinstance(n.op, ast.And)

        def go(values, cx, ev):
            v = self.eval(values[0], cx, ev)
            if len(values) == 1 or cx.dead:
                return v
            t = self.truth(v, cx)
            t = simp(t) if isinstance(t, z3.ExprRef) else t
            tb = concrete_bool(t)
            if tb is not None:
                if tb == is_and:
                    return go(values[1:], cx, ev)
                return v
            # evaluate the rest only where needed
            need = t if is_and else Not_(t)
            sub, sev = cx.fork(need), dict(ev)
            sev.update(self.narrow(values[0], ev, cx, is_and))
            r = go(values[1:], sub, sev)
            other, oev = cx.fork(Not_(need)), dict(ev)
            join(cx, ev, need, sub, sev, other, oev)
            if sub.dead:
                return v
            return merge_value(need, r, v)
        return go(n.values, ctx, env)

    def ex_IfExp(self, n, ctx, env):
        c = self.truth(self.eval(n.test, ctx, env), ctx)
        c = simp(c) if isinstance(c, z3.ExprRef) else c
        cb = concrete_bool(c)
        if cb is True:
            return self.eval(n.body, ctx, env)
        if cb is False:
            return self.eval(n.orelse, ctx, env)
        ca, ea = ctx.fork(c), dict(env)
        ea.update(self.narrow(n.test, env, ctx, True))
        va = self.eval(n.body, ca, ea)
        cb_, eb = ctx.fork(Not_(c)), dict(env)
        eb.update(self.narrow(n.test, env, ctx, False))
        vb = self.eval(n.orelse, cb_, eb)
        a_dead, b_dead = ca.dead, cb_.dead
        join(ctx, env, c, ca, ea, cb_, eb)
        if a_dead:
            return vb
        if b_dead:
            return va
        return merge_value(c, va, vb)

    def ex_Compare(self, n, ctx, env):
        left = self.eval(n.left, ctx, env)
        result = True
        for op, rn in zip(n.ops, n.comparators):
            if len(n.ops) > 1 and concrete_bool(result) is False:
                break
            right = self.eval(rn, ctx, env)
            r = self.compare(op, left, right, ctx, n)
            result = And_(result, r)
            left = right
        return result

    def compare(self, op, a, b, ctx, node):
        if ctx.dead:
            return False
        if isinstance(op, ast.Eq):
            return self.eq(a, b, ctx)
        if isinstance(op, ast.NotEq):
            return Not_(self.eq(a, b, ctx))
        if isinstance(op, ast.Is):
            return self.is_(a, b, ctx)
        if isinstance(op, ast.IsNot):
            return Not_(self.is_(a, b, ctx))
        if isinstance(op, ast.In):
            return models.contains(self, ctx, b, a, node)
        if isinstance(op, ast.NotIn):
            return Not_(models.contains(self, ctx, b, a, node))
        return self.order(op, a, b, ctx, node)

    def ex_BinOp(self, n, ctx, env):
        a = self.eval(n.left, ctx, env)
        b = self.eval(n.right, ctx, env)
        if ctx.dead:
            return None
        return self.binop(n.op, a, b, ctx, n)

    def ex_Lambda(self, n, ctx, env):
        return Closure(n, env, env.get('__module__'))

    def ex_Call(self, n, ctx, env):
        if isinstance(n.func, ast.Name) and n.func.id == 'super' and not n.args and 'super' not in env:
            return SuperProxy(env.get('__self__'), env.get('__class__'))
        f = self.eval(n.func, ctx, env)
        if ctx.dead:
            return None
        # typing.cast(T, x): the type expression is dropped
        if f is models.typing_cast:
            return self.eval(n.args[1], ctx, env)
        args = []
        for a in n.args:
            if isinstance(a, ast.Starred):
                args.extend(self.concrete_items(models.to_seq(self, ctx, self.eval(a.value, ctx, env)), a))
            else:
                args.append(self.eval(a, ctx, env))
        kwargs = {}
        for k in n.keywords:
            if k.arg is None:
                raise PyvcUnsupported('**kwargs call')
            kwargs[k.arg] = self.eval(k.value, ctx, env)
        if ctx.dead:
            return None
        return self.call(f, args, kwargs, ctx, n)

    def ex_ListComp(self, n, ctx, env):
        return ctx.alloc('list', self.comprehension(n, ctx, env))

    def ex_GeneratorExp(self, n, ctx, env):
        return self.comprehension(n, ctx, env)

    def ex_SetComp(self, n, ctx, env):
        return ctx.alloc('set', self.comprehension(n, ctx, env))

    def comprehension(self, n, ctx, env):
        ev = dict(env)
        ev['__comp__'] = ()

        def gen(k, cx, e2):
            if k == len(n.generators):
                val = self.eval(n.elt, cx, e2)
                e2['__comp__'] = models.seq_append(self, cx, e2['__comp__'], val)
                return
            g = n.generators[k]
            it = self.eval(g.iter, cx, e2)
            if it is None:
                # iterating None: TypeError on this path (e.g. a guard the path condition already excludes)
                self.raise_if(cx, True, TypeErr, 'type:iterate-None@' + self.where(g.iter))
                return
            seq = models.to_seq(self, cx, it)

            def body(c3, e3):
                def chain(conds, c4, e4):
                    if not conds:
                        return gen(k + 1, c4, e4)
                    t = self.truth(self.eval(conds[0], c4, e4), c4)
                    self.branch(t, c4, e4, lambda c5, e5: chain(conds[1:], c5, e5), lambda c5, e5: None)
                chain(g.ifs, c3, e3)
            items = []
            for fl, v in models.items_of(seq):
                items.append((fl, (lambda c3, e3, v=v: self.assign(g.target, v, c3, e3))))
            self.run_iterations(cx, e2, items, body)
        gen(0, ctx, ev)
        return ev['__comp__']

    # ------------------------------------------------------------------------------------------------
    # truth, equality, order, arithmetic
    # ------------------------------------------------------------------------------------------------
    def truth(self, v, ctx):
        if ctx.dead:
            return False
        if isinstance(v, bool) or isinstance(v, z3.BoolRef):
            return v
        if v is None:
            return False
        if isinstance(v, int):
            return v != 0
        if isinstance(v, z3.ArithRef):
            return simp(v != 0)
        if isinstance(v, (tuple, str)):
            return len(v) > 0
        if isinstance(v, SymSeq):
            return Or_(*v.flags)
        if isinstance(v, TailSeq):
            if v.items:
                return True
            raise PyvcUnsupported('truth of abstract list prefix')
        if isinstance(v, BitSet):
            return Or_(*v.bits)
        if isinstance(v, Choice):
            return Or_(*[And_(g, self.truth(a, ctx)) for g, a in v.alts])
        if isinstance(v, (Ref, Snapshot)):
            content, _ = models.content(self, ctx, v)
            if isinstance(content, SymObj):
                return self.obj_truth(v, content, ctx)
            return self.truth(content, ctx)
        if isinstance(v, SymObj):
            return self.obj_truth(v, v, ctx)
        if isinstance(v, enum.Enum):
            return bool(v)
        if isinstance(v, SymEnum):
            return True if all(bool(m) for m in v.members) else self.lift_enum(v, bool)
        if isinstance(v, (Opaque, Func, BoundMethod, Closure, Partial, type)):
            return True
        if isinstance(v, range):
            return len(v) > 0
        if isinstance(v, Exc):
            return True
        try:
            return bool(v)
        except Exception:
            raise PyvcUnsupported(f'truth of {type(v).__name__}')

    def obj_truth(self, ref, obj, ctx):
        kind, f = self.src.class_attr(obj.cls, '__bool__')
        if kind == 'func':
            return self.truth(self.call_func(ctx, f, [ref], {}), ctx)
        kind, f = self.src.class_attr(obj.cls, '__len__')
        if kind == 'func':
            return self.truth(self.call_func(ctx, f, [ref], {}), ctx)
        return True

    def lift_enum(self, e, fn):
        out = None
        for k, m in reversed(list(enumerate(e.members))):
            r = fn(m)
            out = r if out is None else merge_value(znum(e.idx) == k, r, out)
        return out

    def is_(self, a, b, ctx):
        if isinstance(a, Choice):
            return Or_(*[And_(g, self.is_(x, b, ctx)) for g, x in a.alts])
        if isinstance(b, Choice):
            return Or_(*[And_(g, self.is_(a, x, ctx)) for g, x in b.alts])
        if a is None or b is None:
            return a is None and b is None
        if isinstance(a, (bool, z3.BoolRef)) and isinstance(b, (bool, z3.BoolRef)):
            return zbool(a) == zbool(b) if (is_sym(a) or is_sym(b)) else a is b
        if isinstance(a, Snapshot):
            a = a.ref
        if isinstance(b, Snapshot):
            b = b.ref
        if isinstance(a, Ref) or isinstance(b, Ref):
            return isinstance(a, Ref) and isinstance(b, Ref) and a.cell == b.cell
        if isinstance(a, SymObj) and isinstance(b, SymObj):
            if a.ident is not None and b.ident is not None:
                return a.ident == b.ident
            raise PyvcUnsupported('identity of value objects without identity tags')
        if isinstance(a, SymObj) or isinstance(b, SymObj):
            return False
        if isinstance(a, (SymEnum, enum.Enum)) and isinstance(b, (SymEnum, enum.Enum)):
            return self.eq(a, b, ctx)
        if is_sym(a) or is_sym(b):
            if a is NotImplemented or b is NotImplemented or a is Ellipsis or b is Ellipsis:
                return False
            raise PyvcUnsupported('identity of symbolic scalars')
        return a is b

    def eq(self, a, b, ctx):
        if a is b and not isinstance(a, float):
            return True
        if isinstance(a, FlagSet) and isinstance(b, FlagSet):
            return And_(*[self.eq(a.flags[k], b.flags.get(k, False), ctx) for k in a.flags])
        if isinstance(a, Choice):
            return Or_(*[And_(g, self.eq(x, b, ctx)) for g, x in a.alts])
        if isinstance(b, Choice):
            return Or_(*[And_(g, self.eq(a, x, ctx)) for g, x in b.alts])
        if a is None or b is None:
            return a is None and b is None
        if (is_num(a) or is_boolish(a)) and (is_num(b) or is_boolish(b)):
            if is_boolish(a) and is_boolish(b):
                if not is_sym(a) and not is_sym(b):
                    return a == b
                return simp(zbool(a) == zbool(b))
            x, y = b2i(a), b2i(b)
            if not is_sym(x) and not is_sym(y):
                return x == y
            return simp(znum(x) == znum(y))
        if isinstance(a, (SymEnum, enum.Enum)) or isinstance(b, (SymEnum, enum.Enum)):
            return self.enum_eq(a, b)
        if isinstance(a, (Ref, Snapshot)) or isinstance(b, (Ref, Snapshot)):
            return models.container_eq(self, ctx, a, b)
        if isinstance(a, (tuple, SymSeq)) and isinstance(b, (tuple, SymSeq)):
            return models.seq_eq(self, ctx, a, b)
        if isinstance(a, SymObj) and isinstance(b, SymObj):
            return self.obj_eq(a, b, ctx)
        if isinstance(a, (tuple, SymSeq, SymObj, BitSet)) or isinstance(b, (tuple, SymSeq, SymObj, BitSet)):
            if isinstance(a, BitSet) and isinstance(b, BitSet):
                return And_(*[self.eq(x, y, ctx) for x, y in zip(a.bits, b.bits)])
            return False
        if is_sym(a) or is_sym(b):
            return False                  # number vs non-number
        if isinstance(a, TailSeq) and isinstance(b, TailSeq):
            if a.prefix != b.prefix or len(a.items) != len(b.items):
                return False
            return And_(*[self.eq(x, y, ctx) for x, y in zip(a.items, b.items)])
        try:
            return bool(a == b)
        except Exception:
            raise PyvcUnsupported(f'equality of {type(a).__name__} and {type(b).__name__}')

    def enum_eq(self, a, b):
        if isinstance(a, enum.Enum) and isinstance(b, enum.Enum):
            return a == b
        if isinstance(a, (SymEnum, enum.Enum)) and isinstance(b, (SymEnum, enum.Enum)):
            ea, eb = to_symenum(a), to_symenum(b)
            if ea.cls is not eb.cls:
                # StrEnum members of different classes compare by value
                raise PyvcUnsupported('comparison of different enum classes')
            return simp(znum(ea.idx) == znum(eb.idx))
        # enum vs plain value (StrEnum == str)
        e, o = (a, b) if isinstance(a, (SymEnum, enum.Enum)) else (b, a)
        if isinstance(e, enum.Enum):
            return e == o
        if isinstance(o, str):
            return Or_(*[znum(e.idx) == k for k, m in enumerate(e.members) if m == o])
        return False

    def obj_eq(self, a, b, ctx):
        if getattr(a.cls, '_pyvc_strength', False) and getattr(b.cls, '_pyvc_strength', False):
            return self.eq(a.fields['strength'], b.fields['strength'], ctx)
        kind, f = self.src.class_attr(a.cls, '__eq__')
        if kind == 'func':
            r = self.call_func(ctx, f, [a, b], {})
            if r is NotImplemented:
                return False
            return self.truth(r, ctx)
        if a.cls is not b.cls:
            return False
        if dataclasses.is_dataclass(a.cls):
            return And_(*[self.eq(a.fields[k], b.fields[k], ctx) for k in a.fields
                          if self.field_compares(a.cls, k)])
        if a.ident is not None and b.ident is not None:
            return a.ident == b.ident
        raise PyvcUnsupported(f'equality of {a.cls.__name__} objects')

    def field_compares(self, cls, name):
        for f in dataclasses.fields(cls):
            if f.name == name:
                return f.compare
        return False

    def enum_ord(self, e):
        """position of a (Str)Enum member in the order of its values"""
        members = tuple(type(e)) if isinstance(e, enum.Enum) else e.members
        order = sorted(range(len(members)), key=lambda k: members[k].value)
        pos = {k: p for p, k in enumerate(order)}
        if isinstance(e, enum.Enum):
            return pos[members.index(e)]
        out = pos[len(members) - 1]
        for k in range(len(members) - 2, -1, -1):
            out = If_(znum(e.idx) == k, pos[k], out)
        return out

    def order(self, op, a, b, ctx, node):
        """a < b etc.  numbers, tuples (lexicographic), enums by value, objects with __lt__"""
        if isinstance(a, Choice) or isinstance(b, Choice):
            outs = []
            for g1, x in alts_of(a):
                for g2, y in alts_of(b):
                    g = And_(g1, g2)
                    if concrete_bool(g) is False:
                        continue
                    if x is None or y is None:
                        self.raise_if(ctx, g, TypeErr, 'type:order-None@' + self.where(node))
                        continue
                    try:
                        outs.append(And_(g, self.order(op, x, y, ctx, node)))
                    except PyvcUnsupported:
                        self.raise_if(ctx, g, TypeErr, 'type:order-operands@' + self.where(node))
            return Or_(*outs)
        if (is_num(a) or is_boolish(a)) and (is_num(b) or is_boolish(b)):
            x, y = b2i(a), b2i(b)
            if not is_sym(x) and not is_sym(y):
                return {ast.Lt: x < y, ast.LtE: x <= y, ast.Gt: x > y, ast.GtE: x >= y}[type(op)]
            x, y = znum(x), znum(y)
            return simp({ast.Lt: x < y, ast.LtE: x <= y, ast.Gt: x > y, ast.GtE: x >= y}[type(op)])
        if isinstance(a, (SymEnum, enum.Enum)) and isinstance(b, (SymEnum, enum.Enum)):
            return self.order(op, self.enum_ord(a), self.enum_ord(b), ctx, node)
        if isinstance(a, tuple) and isinstance(b, tuple):
            return self.tuple_order(op, a, b, ctx, node)
        if isinstance(a, (Ref, Snapshot)) and isinstance(b, (Ref, Snapshot)):
            ca, _ = models.content(self, ctx, a)
            cb, _ = models.content(self, ctx, b)
            if isinstance(ca, SymObj):
                return self.obj_order(op, a, b, ca, ctx, node)
            return models.set_order(self, ctx, op, a, b, node)
        if isinstance(a, SymObj):
            return self.obj_order(op, a, b, a, ctx, node)
        if isinstance(a, float) or isinstance(b, float):
            # math.inf as cap
            if isinstance(b, float) and b == float('inf'):
                return {ast.Lt: True, ast.LtE: True, ast.Gt: False, ast.GtE: False}[type(op)]
        raise PyvcUnsupported(f'ordering of {type(a).__name__} and {type(b).__name__} at {self.where(node)}')

    def obj_order(self, op, a, b, aobj, ctx, node):
        if getattr(aobj.cls, '_pyvc_strength', False) and isinstance(b, SymObj) and getattr(b.cls, '_pyvc_strength', False):
            return self.order(op, a.fields['strength'], b.fields['strength'], ctx, node)
        name = {ast.Lt: '__lt__', ast.LtE: '__le__', ast.Gt: '__gt__', ast.GtE: '__ge__'}[type(op)]
        kind, f = self.src.class_attr(aobj.cls, name)
        if kind == 'func':
            return self.truth(self.call_func(ctx, f, [a, b], {}), ctx)
        if kind == 'native_func':
            f2 = self.src.of_native(f)
            if f2 is not None:            # e.g. functools.total_ordering derivations, read from the stdlib source
                return self.truth(self.call_func(ctx, f2, [a, b], {}), ctx)
            if dataclasses.is_dataclass(aobj.cls) and aobj.cls.__dataclass_params__.order:
                # dataclass(order=True): compares the tuples of the compare-fields (same class only)
                bobj = b if isinstance(b, SymObj) else models.content(self, ctx, b)[0]
                if bobj.cls is aobj.cls:
                    fa = tuple(aobj.fields[x.name] for x in dataclasses.fields(aobj.cls) if x.compare)
                    fb = tuple(bobj.fields[x.name] for x in dataclasses.fields(aobj.cls) if x.compare)
                    return self.tuple_order(op, fa, fb, ctx, node)
        hook = getattr(self, 'abstract_order', None)
        if hook is not None:
            return hook(op, a, b, ctx, node)
        raise PyvcUnsupported(f'{name} of {aobj.cls.__name__}')

    def tuple_order(self, op, a, b, ctx, node):
        strict = isinstance(op, (ast.Lt, ast.Gt))
        less = isinstance(op, (ast.Lt, ast.LtE))
        # lexicographic: a < b  iff exists k: prefix equal and a[k] < b[k], or a is a proper prefix
        n = min(len(a), len(b))
        result = (len(a) < len(b)) if less else (len(a) > len(b))
        if not strict and len(a) == len(b):
            result = True
        for k in range(n - 1, -1, -1):
            lt = self.order(ast.Lt() if less else ast.Gt(), a[k], b[k], ctx, node)
            e = self.eq(a[k], b[k], ctx)
            result = Or_(lt, And_(e, result))
        return result

    def binop(self, op, a, b, ctx, node, inplace=False):
        if ctx.dead:
            return None
        if isinstance(a, Choice) or isinstance(b, Choice):
            outs = []
            for g1, x in alts_of(a):
                for g2, y in alts_of(b):
                    g = And_(g1, g2)
                    if concrete_bool(simp(g) if is_sym(g) else g) is False:
                        continue
                    if x is None or y is None:
                        self.raise_if(ctx, g, TypeErr, 'type:None-operand@' + self.where(node))
                        continue
                    try:
                        outs.append((g, self.binop(op, x, y, ctx, node, inplace)))
                    except PyvcUnsupported:
                        self.raise_if(ctx, g, TypeErr, 'type:operands@' + self.where(node))
            return mk_choice(outs)
        if (is_num(a) or is_boolish(a)) and (is_num(b) or is_boolish(b)):
            return self.arith(op, b2i(a), b2i(b), ctx, node)
        if isinstance(op, ast.Add):
            if isinstance(a, (tuple, SymSeq)) and isinstance(b, (tuple, SymSeq)):
                return models.seq_concat(self, ctx, a, b)
            if isinstance(a, (Ref, Snapshot)) and inplace:
                models.call_method(self, ctx, a, 'extend', [b], {}, node)
                return a
            if isinstance(a, (Ref, Snapshot)) and isinstance(b, (Ref, Snapshot)):
                ca, _ = models.content(self, ctx, a)
                cb, _ = models.content(self, ctx, b)
                return ctx.alloc('list', models.seq_concat(self, ctx, ca, cb))
            if isinstance(a, str) and isinstance(b, str):
                return a + b
        if isinstance(op, ast.Mult):
            if isinstance(a, (tuple,)) and concrete_int(b) is not None:
                return a * concrete_int(b)
            if isinstance(a, tuple) and is_sym(b):
                return models.seq_repeat(self, ctx, a, b, node)
            if isinstance(a, (Ref,)) and concrete_int(b) is not None:
                ca, _ = models.content(self, ctx, a)
                if isinstance(ca, tuple):
                    return ctx.alloc('list', ca * concrete_int(b))
            if isinstance(a, Ref) and is_sym(b):
                ca, _ = models.content(self, ctx, a)
                if isinstance(ca, tuple):
                    return ctx.alloc('list', models.seq_repeat(self, ctx, ca, b, node))
        if isinstance(op, ast.Sub):
            if isinstance(a, (Ref, Snapshot)) and isinstance(b, (Ref, Snapshot)):
                return models.set_difference(self, ctx, a, b, node)
        if isinstance(op, ast.BitOr) and isinstance(a, type):
            return a                       # type unions in annotations
        if not is_sym(a) and not is_sym(b) and not isinstance(a, (Ref, SymObj, SymSeq)) \
                and not isinstance(b, (Ref, SymObj, SymSeq)):
            import operator
            fn = {ast.Add: operator.add, ast.Sub: operator.sub, ast.Mult: operator.mul,
                  ast.Mod: operator.mod, ast.FloorDiv: operator.floordiv, ast.Div: operator.truediv}.get(type(op))
            if fn is not None:
                try:
                    return fn(a, b)
                except Exception:
                    pass
        raise PyvcUnsupported(f'binary {type(op).__name__} on {type(a).__name__}, {type(b).__name__} at {self.where(node)}')

    def arith(self, op, a, b, ctx, node):
        sym = is_sym(a) or is_sym(b)
        if isinstance(op, ast.Add):
            return a + b
        if isinstance(op, ast.Sub):
            return a - b
        if isinstance(op, ast.Mult):
            return a * b
        if isinstance(op, (ast.FloorDiv, ast.Mod, ast.Div)):
            self.raise_if(ctx, self.eq(b, 0, ctx), ZeroDivisionError, 'div@' + self.where(node))
            if ctx.dead:
                return None
            if not sym:
                if isinstance(op, ast.FloorDiv):
                    return a // b
                if isinstance(op, ast.Mod):
                    return a % b
                if isinstance(op, ast.Div):
                    q, r = divmod(a, b)
                    if r == 0:
                        return q
                    raise PyvcUnsupported('non-integral concrete true division')
            x, y = znum(a), znum(b)
            if isinstance(op, ast.Div):
                if y.is_int() and not z3.is_int_value(y):
                    # symbolic integer divisor with a small range: case split, so the quotient stays linear
                    lo_hi = int_bounds(y)
                    if lo_hi is not None and lo_hi[1] - lo_hi[0] <= 64:
                        xr = z3.ToReal(x) if x.is_int() else x
                        vals = [v for v in range(lo_hi[0], lo_hi[1] + 1) if v != 0]
                        out = xr / z3.RealVal(vals[-1])
                        for v in reversed(vals[:-1]):
                            out = z3.If(y == v, xr / z3.RealVal(v), out)
                        return out
                return z3.ToReal(x) / z3.ToReal(y) if x.is_int() and y.is_int() else x / y
            if x.is_int() and y.is_int():
                return self.floor_divmod(ctx, x, y)[0 if isinstance(op, ast.FloorDiv) else 1]
            raise PyvcUnsupported('floor division on reals')
        raise PyvcUnsupported(f'arith {type(op).__name__}')

    def floor_divmod(self, ctx, x, y):
        """Python floor division/modulo on integers, as terms (no fresh symbols, so the result may be used
        under negation): for y > 0 Python's // is z3's Euclidean div; for y < 0, x // y == (-x) div (-y).
        A symbolic divisor is first compared with the small constants 1..SMALL_DIVISOR (numbers of winners,
        boards, hand types): in those cases quotient and remainder are LINEAR terms, which keeps the
        obligations in linear integer arithmetic; the general nonlinear term is the last alternative."""
        cy = concrete_int(y)
        if cy is not None:
            q = x / z3.IntVal(cy) if cy > 0 else (-x) / z3.IntVal(-cy)
            return q, x - q * y
        q = z3.If(y > 0, x / y, (-x) / (-y))
        r = x - q * y
        for k in range(self.SMALL_DIVISOR, 0, -1):
            qk = x / z3.IntVal(k)
            q = z3.If(y == k, qk, q)
            r = z3.If(y == k, x - qk * k, r)
        return q, r

    SMALL_DIVISOR = 8

    # ------------------------------------------------------------------------------------------------
    # attributes
    # ------------------------------------------------------------------------------------------------
    def mangle(self, name, env):
        if name.startswith('__') and not name.endswith('__'):
            cls = env.get('__class__') if env else None
            if cls is not None:
                return f'_{cls.__name__.lstrip("_")}{name}'
        return name

    def getattr(self, obj, name, ctx, env=None, node=None):
        name = self.mangle(name, env)
        if ctx.dead:
            return None
        if isinstance(obj, Choice):
            def one(sub, a):
                if a is None or a is UNBOUND:
                    self.raise_if(sub, True, TypeErr if a is None else UnboundLocalError,
                                  f'attr:{name}-of-None@' + self.where(node))
                    return None
                return self.getattr(a, name, sub, env, node)
            return self.split(ctx, obj, one)
        if isinstance(obj, SuperProxy):
            inst = obj.self_val
            if isinstance(inst, type):
                cls = inst
            elif isinstance(inst, (Ref, Snapshot)):
                cls = models.content(self, ctx, inst)[0].cls
            else:
                cls = inst.cls
            mro = cls.__mro__
            for klass in mro[mro.index(obj.cls) + 1:]:
                if name in klass.__dict__:
                    raw = klass.__dict__[name]
                    f = self.src.of_native(raw)
                    if f is not None:
                        return BoundMethod(f, inst)
                    if klass is object and name == '__init__':
                        return models.object_init_marker
                    raise PyvcUnsupported(f'super().{name} resolves to native code at {self.where(node)}')
            raise PyvcUnsupported(f'super().{name} not found at {self.where(node)}')
        if isinstance(obj, (Ref, Snapshot)):
            content, heap = models.content(self, ctx, obj)
            if isinstance(content, SymObj):
                if name in content.fields:
                    return models.wrap(content.fields[name], heap, ctx)
                return self.class_getattr(content.cls, obj, name, ctx, node)
            return BuiltinMethod(obj, name)
        if isinstance(obj, SymObj):
            if name in obj.fields:
                return obj.fields[name]
            return self.class_getattr(obj.cls, obj, name, ctx, node)
        if isinstance(obj, enum.Enum) and name in ('name', 'value'):
            return getattr(obj, name)
        if isinstance(obj, (tuple, SymSeq, TailSeq, BitSet, FlagSet, range, SymMapping)):
            return BuiltinMethod(obj, name)
        if isinstance(obj, SymEnum):
            if name in ('value', 'name'):
                return self.lift_enum(obj, lambda m: getattr(m, name))
            return self.class_getattr(obj.cls, obj, name, ctx, node)
        if isinstance(obj, types.ModuleType):
            return self.from_native(getattr(obj, name))
        if isinstance(obj, type):
            if obj is itertools.chain and name == 'from_iterable':
                return models.chain_from_iterable_marker
            if name in ('__name__', '__qualname__', '__module__'):
                return getattr(obj, name)
            kind, payload = self.src.class_attr(obj, name)
            if kind in ('func', 'staticmethod'):
                return payload
            if kind == 'classmethod':
                return BoundMethod(payload, obj)
            if kind is None:
                raise PyvcUnsupported(f'class attribute {obj.__name__}.{name} at {self.where(node)}')
            return self.from_native(getattr(obj, name))
        if isinstance(obj, Exc):
            raise PyvcUnsupported('exception attribute')
        if type(obj).__name__ == 'AbstractHandType':
            return BuiltinMethod(obj, name)
        if isinstance(obj, enum.Enum) and name not in ('value', 'name'):
            kind, payload = self.src.class_attr(type(obj), name)
            if kind == 'func':
                return BoundMethod(payload, obj)
            if kind == 'property':
                return self.call_func(ctx, payload, [obj], {})
        if isinstance(obj, str):
            return BuiltinMethod(obj, name)
        # native object: concrete attribute
        try:
            v = getattr(obj, name)
        except AttributeError:
            raise PyvcUnsupported(f'attribute {name} of {type(obj).__name__} at {self.where(node)}')
        if isinstance(v, types.MethodType):
            f = self.src.of_native(v.__func__)
            if f is not None:
                return BoundMethod(f, obj)
        return self.from_native(v)

    def class_getattr(self, cls, recv, name, ctx, node):
        kind, payload = self.src.class_attr(cls, name)
        if kind == 'func':
            return BoundMethod(payload, recv)
        if kind == 'property':
            return self.call(BoundMethod(payload, recv), [], {}, ctx, node)
        if kind == 'classmethod':
            return BoundMethod(payload, cls)
        if kind == 'staticmethod':
            return payload
        if kind == 'native':
            return self.from_native(payload)
        if kind == 'native_func':
            return BoundMethod(payload, recv)
        raise PyvcUnsupported(f'attribute {name} of {cls.__name__} at {self.where(node)}')

    def split(self, ctx, choice, fn):
        """run fn(sub_ctx, alternative) on a fork per alternative of a Choice and join the forks"""
        subs = []
        for g, a in choice.alts:
            sub = ctx.fork(g)
            r = fn(sub, a)
            subs.append((g, sub, r))
        live = [(g, s_, r) for g, s_, r in subs if not s_.dead]
        if not live:
            ctx.kill()
            return None
        narrowed = any(s_.narrowed for _, s_, _ in subs) or len(live) != len(subs)
        g, s_, val = live[-1]
        heap = s_.heap
        for g, s_, r in reversed(live[:-1]):
            heap = merge_heaps(g, s_.heap, heap)
            val = merge_value(g, r, val)
        ctx.heap = heap
        if narrowed:
            from .core import common_prefix
            pre = common_prefix([s_.pcl for _, s_, _ in live])
            k = len(pre)
            ctx.set_pc(pre + tuple(conj_list(simp(Or_(*[And_(*s_.pcl[k:]) for _, s_, _ in live])))))
        return val

    def setattr(self, obj, name, v, ctx, node):
        if isinstance(obj, Choice):
            for g, a in obj.alts:
                if not isinstance(a, Ref):
                    self.raise_if(ctx, g, TypeErr, f'setattr:{name}@' + self.where(node))
                    continue
                content = ctx.get(a)
                old = content.fields.get(name, UNBOUND)
                ctx.put(a, content.with_field(name, merge_value(g, v, old)))
            return
        if isinstance(obj, Ref):
            content = ctx.get(obj)
            if not isinstance(content, SymObj):
                raise PyvcUnsupported('setattr on container')
            ctx.put(obj, content.with_field(name, v))
            return
        raise PyvcUnsupported(f'setattr on {type(obj).__name__} at {self.where(node)}')

    # ------------------------------------------------------------------------------------------------
    # calls
    # ------------------------------------------------------------------------------------------------
    def call(self, f, args, kwargs, ctx, node=None):
        if ctx.dead:
            return None
        if isinstance(f, Choice):
            return self.split(ctx, f, lambda sub, a: self.call(a, args, kwargs, sub, node))
        if isinstance(f, Partial):
            kw = dict(f.kwargs); kw.update(kwargs)
            return self.call(f.fn, list(f.args) + list(args), kw, ctx, node)
        if isinstance(f, BoundMethod):
            fn = f.func
            if isinstance(fn, Func):
                return self.call_user(fn, [f.self_val] + list(args), kwargs, ctx, node)
            return self.call_native(fn, [f.self_val] + list(args), kwargs, ctx, node)
        if isinstance(f, Func):
            return self.call_user(f, args, kwargs, ctx, node)
        if isinstance(f, Closure):
            if isinstance(f.node, ast.Lambda):
                return self.call_func(ctx, f, args, kwargs, node, closure_env=f.env)
            fn = Func(f.node, f.module, f.qual, f.env.get('__class__'))
            return self.call_func(ctx, fn, args, kwargs, node, closure_env=f.env)
        if isinstance(f, BuiltinMethod):
            return models.call_method(self, ctx, f.recv, f.name, args, kwargs, node)
        if isinstance(f, (Ref, SymObj)):
            obj = ctx.get(f) if isinstance(f, Ref) else f
            if isinstance(obj, SymObj):
                kind, fn = self.src.class_attr(obj.cls, '__call__')
                if kind == 'func':
                    return self.call_user(fn, [f] + list(args), kwargs, ctx, node)
            raise PyvcUnsupported(f'call of an object without __call__ at {self.where(node)}')
        return self.call_native(f, args, kwargs, ctx, node)

    def call_user(self, fn, args, kwargs, ctx, node):
        hook = self.hooks.get(fn.qual)
        if hook is not None:
            hook(self, ctx, fn, args, kwargs, node)
            if ctx.dead:
                return None
        cut = self.cuts.get(fn.qual)
        if cut is not None:
            return cut(self, ctx, fn, args, kwargs, node)
        return self.call_func(ctx, fn, args, kwargs, node)

    def call_native(self, f, args, kwargs, ctx, node):
        over = getattr(self, 'native_cuts', None)
        if over:
            try:
                ent = over.get(id(f))
            except Exception:   # noqa
                ent = None
            if ent is not None and ent[0] is f:
                r = ent[1](self, ctx, args, kwargs, node)
                if r is not NotImplemented:
                    return r
        model = models.lookup(f)
        if model is not None:
            if model not in models.CHOICE_AWARE:
                for k, a in enumerate(args):
                    if isinstance(a, Choice):
                        def one(sub, alt, k=k):
                            a2 = list(args); a2[k] = alt
                            try:
                                return self.call_native(f, a2, kwargs, sub, node)
                            except (TypeError, PyvcUnsupported) as e:
                                if alt is None or isinstance(e, TypeError):
                                    self.raise_if(sub, True, TypeErr, f'type:{getattr(f, "__name__", "call")}-arg@' + self.where(node))
                                    return None
                                raise
                        return self.split(ctx, a, one)
            return model(self, ctx, args, kwargs, node)
        if isinstance(f, type):
            cut = self.cuts.get(f'{f.__module__}.{f.__qualname__}')
            if cut is not None:
                return cut(self, ctx, f, args, kwargs, node)
            if issubclass(f, BaseException):
                return Exc(f, self.where(node))
            if f.__module__.startswith('pokerkit') and not dataclasses.is_dataclass(f) and not issubclass(f, enum.Enum):
                # plain class of the package: allocate and run the real __init__
                ref = ctx.alloc('obj', SymObj(f, {}))
                kind, init = self.src.class_attr(f, '__init__')
                if kind == 'func':
                    self.call_user(init, [ref] + list(args), kwargs, ctx, node)
                return ref
            if dataclasses.is_dataclass(f) and f.__module__.startswith(('pokerkit', 'spec', 'contracts')):
                return self.construct(f, args, kwargs, ctx, node)
            if issubclass(f, enum.Enum) and len(args) == 1:
                return models.enum_lookup(self, ctx, f, args[0], node)
        if all(models.is_concrete(a) for a in args) and all(models.is_concrete(a) for a in kwargs.values()):
            try:
                return self.from_native(f(*args, **kwargs))
            except (ValueError, KeyError, IndexError, TypeError, ZeroDivisionError, StopIteration) as e:
                self.raise_if(ctx, True, type(e), f'native:{getattr(f, "__name__", f)}@' + self.where(node))
                return None
        raise PyvcUnsupported(f'call of native {getattr(f, "__qualname__", f)!r} with symbolic arguments at {self.where(node)}')

    def construct(self, cls, args, kwargs, ctx, node):
        flds = [f for f in dataclasses.fields(cls) if f.init]
        pos = [f for f in flds if not f.kw_only]
        values = {}
        if len(args) > len(pos):
            raise PyvcUnsupported(f'too many args constructing {cls.__name__}')
        for f, a in zip(pos, args):
            values[f.name] = a
        for k, v in kwargs.items():
            values[k] = v
        for f in dataclasses.fields(cls):
            if f.name in values:
                continue
            if f.default is not dataclasses.MISSING:
                values[f.name] = self.from_native(f.default)
            elif f.default_factory is not dataclasses.MISSING:
                values[f.name] = self.call_native(f.default_factory, [], {}, ctx, node)
            elif f.init:
                raise PyvcUnsupported(f'missing field {f.name} constructing {cls.__name__}')
        obj = SymObj(cls, values)
        frozen = cls.__dataclass_params__.frozen
        recv = obj if frozen else ctx.alloc('obj', obj)
        kind, f = self.src.class_attr(cls, '__post_init__')
        if kind == 'func':
            self.call_func(ctx, f, [recv], {}, node)
        return recv

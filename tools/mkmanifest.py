"""Writes /verif/MANIFEST.json from the table below and validates it against the schema."""
import json, os, sys
ROOT = os.path.dirname(os.path.dirname(os.path.abspath(__file__)))
BASELINE_OFF = "cd /repo && /venv/bin/python -m pytest -ra -q -p no:cacheprovider --timeout=900 --continue-on-collection-errors pokerkit"

CHECKS = {
    'C08': dict(
        category='proof',
        text='Deductive, per function and per stated shape: for each of the 17 operation triples the real bodies of verify_X, '
             'can_X and X are symbolically executed from an arbitrary pre-state (all numbers, flags, cards, container lengths free) '
             'and every clause -- can_X <=> verify_X accepts; refusal only by ValueError/UserWarning; X refused <=> verify_X refused; '
             'a refusal leaves every field unchanged; an explicit player index is the one recorded and mutated -- is an SMT obligation '
             'discharged by z3 (cvc5/z3-4.8 second opinion). A unit test samples states; an obligation covers all states of the shape.',
        design_ref='DESIGN.md section 4 (C08), section 8',
        note='D/shape: n in {2,3} quick, {2,3,4,6} thorough; piles/hole cards capped as listed in the evidence. Assumes inv08 '
             '(natively monitored), purity/determinism of can_win_now and total_pot_amount (callee contracts), pyvc encoding of '
             'Python semantics. Assertion failures after an accepted verifier are C07 obligations.'
         ' Scan: no read-only member of State (88 property getters, get_*, can_*, verify_*) writes to the object.',
        technique='sidecar contracts + own VC generator (symbolic execution of the real AST) + z3/cvc5; native replay of counter-models'),
}

CHECKS['C19'] = dict(
    category='proof',
    text='Deductive: clean_values is executed symbolically for every representation (number, list/tuple shorter, equal and longer than n, '
         'mapping with symbolic positive/negative positions) and shown equal to the explicit per-player vector of spec/values.py; '
         'State.__post_init__ raises ValueError exactly for the invalid layouts of the statement (all amounts symbolic); utilities.divmod '
         'and utilities.rake return parts that add up, over Z and over Q, with no size parameter at all. The 70-card text round trip is '
         'decided by exhaustive closed evaluation (label E).',
    design_ref='DESIGN.md section 4 (C19), section 8',
    note='D/shape for clean_values/__post_init__ (n listed in evidence); card-SEQUENCE text forms only by a bounded stand-in (label B, '
         'reported separately, never counted); user-supplied divmod/rake not covered; float arithmetic treated as real.'
         ' The argument forms of burn_card / deal_hole / deal_board (None, count, sequence, one bare Card) are covered by the shared C06 obligations, relabelled C19.'
         ' White space other than the blank as separator (stand-in); divmod / rake on float and Decimal grids, parts adding up exactly in the same arithmetic (stand-in, label B).',
    technique='sidecar contracts + own VC generator + z3 (linear / nonlinear real arithmetic); exhaustive closed evaluation for 70 cards')

CHECKS['C04'] = dict(
    category='proof',
    text='The property quantifies over all hands and all pairs of a finite deck, so it is decided completely: (E) every lookup table is '
         'built by the real nullary constructor and compared over its ENTIRE key space with an independent evaluator written from the rules '
         '(spec/ranking.py): validity, dense indices, order isomorphism, labels; every hand class is run on EVERY card subset of the 52-card '
         'deck of the admissible sizes (thorough: all 2 598 960 five-card subsets for each of the eight five-card types, 294 203 subsets for '
         'each badugi type) -- accepted iff the rules say it is a hand, entry index order-isomorphic to the rule strength, which settles <, '
         '==, > for all pairs; (D) the comparison wrappers __eq__/__lt__/__hash__/__init__ and the total_ordering derivations (read from '
         'the standard library source) are proved for symbolic entry indices for all 11 hand classes.',
    design_ref='DESIGN.md section 4 (C04), section 8',
    note='E obligations: complete for the stated domain, back end is CPython running the real code. quick tier covers the 52-card five-card '
         'types through the 7 462-key space (assumes unique factorisation of the rank-prime products); thorough tier enumerates all subsets '
         'and does not. Subsets of 6+ cards are not enumerated.'
         ' Also: the real table holds no key beyond the combinations the rules accept (no entry of another card count); entry identity is modelled by key tags (same key, same object).'
         ' One-shot iterables into Hand.__init__; every class wired to its own table and direction in fresh interpreters, base-first and subclass-first.',
    technique='exhaustive closed evaluation of nullary table constructors and finite card domains against an independent rule spec + '
              'deductive VCs (pyvc/z3) for the comparison wrappers')

CHECKS['C18'] = dict(
    category='proof',
    text='Range notation: the real parse_range is evaluated on the WHOLE notation domain named by the statement (13x13 rank pairs x '
         '{plain,s,o,+,s+,o+}, all 13^4 x 3 dash forms incl. the illegal ones, separators) against spec/ranges.py written from the statement '
         '(label E). Equities: the real __calculate_equities_0 is executed symbolically with abstract hand strengths; non-negativity, sum = 1 '
         'and equality with the showdown split of spec/pots.py are SMT obligations per (players, hand types). ICM: the real calculate_icm is '
         'executed on symbolic chips/payouts; sum = prize pool is an exact rational-function identity, non-negativity and chip-order are '
         'decided by one-signed-coefficient certificates, per (players, paid places).',
    design_ref='DESIGN.md section 4 (C18), section 8',
    note='floats treated as reals; equities with all cards given only (sampling / averaging not covered); shapes: players <= 4 (quick) / 6 '
         '(thorough), ICM players <= 4 (quick: paid <= 2 for 4 players) / 5 (thorough, paid <= 2); hand strengths abstract (C04/C05 contracts).'
         ' E task on the selection step of calculate_equities: only legal deals (no card twice among holes and board) are kept, each with the stub deck of the cards not in play.'
         ' parse_range is primed with other rank orders first (what a notation denotes does not depend on what was parsed before); ICM on permuted stacks against an exact Malmuth-Harville recursion is a bounded stand-in (label B).',
    technique='exhaustive closed evaluation of the notation domain + VCs from symbolic execution (z3) + exact rational identities / '
              'coefficient certificates (sympy) on the real code')

CHECKS['C11'] = dict(
    category='proof',
    text='For each of the 12 predefined variants the real constructor chain (create_state -> Variant.__init__ -> super().__init__ ... -> '
         'Poker.__call__ -> State(...)) is executed symbolically -- MRO, super() and class attributes taken from the real classes, every bet '
         'size, ante, bring-in and stack symbolic -- and at the call State(...) the deck, hand types, every street (burn, hole facings, board '
         'cards, draw, opening rule, bet size, raise cap), the betting structure and the forced-bet kind are proved equal to spec/variants.py, '
         'written from the class names and docs/simulation.rst; all other parameters are proved to be passed through. The PHH variant codes '
         '(closed dict) are compared exhaustively.',
    design_ref='DESIGN.md section 4 (C11), section 8',
    note='decides the configuration half of the statement for all parameter choices; the behavioural half (only the fixed bet size and four '
         'raises in fixed-limit, stack in no-limit, pot in pot-limit, two halves in split games) follows from these fields plus the C03/C02 '
         'contracts and is not re-proved here.'
         ' The behavioural half runs the structure-indexed obligations of C03 (amount bounds, raise cap), the opening obligations of C13 and the split obligations of C02, relabelled C11.',
    technique='sidecar contracts + symbolic execution of the real constructor chain + z3; exhaustive comparison of a closed dict')

CHECKS['C01'] = dict(
    category='proof',
    text='The property statement is written as named invariant components over the public fields (contracts/engine.py: no stack or bet '
         'negative; payoff = stack - starting stack at every point; chips in the pot never negative; once the pots are frozen stacks + '
         'bets + pots + rake = starting stacks and the sub-pots still to be pushed are exactly what is left in the pots; when the hand is '
         'over nothing is left on the table and the payoffs sum to minus the rake), together with the phase facts they depend on. Each of '
         'the 45 functions of the operation cascade (16 public operations, 27 _begin/_update/_end steps, _begin, __post_init__) is '
         'executed symbolically from an arbitrary pre-state satisfying its precondition components; callees of the cascade are replaced by '
         'their contracts (precondition components are obligations at the call site, frame havocked, postcondition assumed), automation '
         'loops are cut by the invariant; every component at every call site, loop and exit is one SMT obligation. State.pots and '
         'State.total_pot_amount are proved to hold exactly the chips that left the stacks. A unit test samples hands; an obligation '
         'covers every state of the shape, every chip amount, every automation subset.',
    design_ref='DESIGN.md section 4 (C01), section 8',
    note='D/shape: n in {2,3} quick, {2,3,4} thorough, at most R=2 run-outs; chips as mathematical integers; default divmod executed, rake '
         'by its C19 contract (user-supplied helpers assumed to satisfy it); exceptions leaving a function part-way are C07 obligations; '
         'one known finding (F6a, everybody mucks) is matched by obligation and witness; precondition components are evaluated natively '
         'on random real hands on every run (guard).'
         ' The default helpers that split a pot (utilities.rake / divmod) are proved here as well (shared C19 contracts, D-infinity); every contract run also checks that no two rows of a per-player / per-street field are one object.',
    technique='sidecar contracts (invariant components) + own VC generator over the real AST with contract cuts and loop-invariant cuts + z3; '
              'native replay of counter-models; native guard against vacuity')

CHECKS['C03'] = dict(
    category='proof',
    text='The betting rules of the statement are written as pure functions of explicit vectors in spec/betting.py (call amount, bring-in, '
         'effective stack, minimum / pot / maximum raise-to per structure, refusal of a raise: cap, covered, nobody can call more, short '
         'all-in to a player who has acted; clockwise queue after a raise). Each real amount property, each verifier and each betting '
         'operation of State is executed symbolically from an arbitrary betting state of the shape -- all stacks, bets, bookkeeping values, '
         'structure, mode symbolic -- and proved equal to the spec: amounts, exact refusal conditions (ValueError / UserWarning), what an '
         'operation moves and for whom, how the queue and the history fields (raise count, largest raise, short all-ins, who has acted) are '
         'updated, and when the round ends. The history fields are the history by induction over these per-operation clauses.',
    design_ref='DESIGN.md section 4 (C03), section 8',
    note='D/shape: n in {2,3} quick, {2,3,4,5} thorough; assumes betting_ok (distinct live actors with chips, >=2 players in, street current) '
         '-- evaluated natively on real hands on every run; the reset of the history fields at the start of a round is proved under C13 '
         '(_begin_betting); asserts inside operations are C07 obligations.',
    technique='sidecar contracts + own VC generator over the real AST + z3 against an independent rule spec; native replay of counter-models')

CHECKS['C13'] = dict(
    category='proof',
    text='State._begin_betting is executed symbolically once for ALL opening rules (the street opening is a symbolic enum member), with every '
         'stack, bet, blind/straddle/post entry, up-card (rank and suit) and live flag symbolic, and compared with spec/opening.py written from '
         'the statement: button games -- first round from the seat after the last blind or straddle (heads-up seat reversal, posts not '
         'counting), later rounds from the first seat after the button; stud -- lowest up-card (highest in razz) with suits breaking ties, '
         'later the best exposed hand (lowest in razz) with ties to the earliest position; in every case the queue runs clockwise from the '
         'designated opener over the players able to act; the history fields of the round are reset (base case of the C03 induction); the '
         'round is skipped exactly when a single matched player could act.',
    design_ref='DESIGN.md section 4 (C13), section 8',
    note='D/shape: (n, hole cards) in {(2,2),(3,1),(4,1)} quick, up to (6,1),(3,2),(2,3) thorough. First round of a button game assumes a '
         'standard layout (blinds/straddles adjacent, not decreasing with the position, posts after them) with the owed blinds in front; the '
         'opening lookups are abstracted to an optional strength per exposed hand (their tables are checked exhaustively under C04); one '
         'known finding (F10c) sits in its own clause.',
    technique='sidecar contracts + own VC generator over the real AST + z3 against an independent rule spec; native replay of counter-models')

CHECKS['C02'] = dict(
    category='proof',
    text='State.pots: for every player still in the hand the pots he contends for total exactly sum_i min(c_i, p_j) + the ante layer (what '
         'he can win from each opponent is what he himself put in, no more and no less), contenders are live, the pots total what was '
         'wagered. State._begin_chips_pushing: each pot is divided evenly between the boards and each share evenly between the hand types in '
         'play for THAT pot on that board, odd chips to the first; a lone survivor gets every pot whole. State.push_chips: the sub-pot is paid '
         'to the holder(s) of the strongest hand among the pot\'s contenders, equal shares, odd chips to the earliest position, nobody else '
         'receives anything, no stack moves. All three are executed symbolically with every amount symbolic and hands as abstract optional '
         'strengths (so every deal of cards is covered) and compared with spec/pots.py written from the statement. A structural frame scan '
         'shows statuses are only ever set to False: nobody who folded, mucked or was killed comes back.',
    design_ref='DESIGN.md section 4 (C02), section 8',
    note='D/shape: pots n in {2,3,4} (thorough 5); pushing (n, hand types) in {(2,2),(3,1)} quick, more in thorough; hands abstract (C04/C05 '
         'contracts); assumes every frozen pot has a contender (F6 family is C01/C07 matter) and that a live player with less in the pot than '
         'somebody else has nothing in front of him (betting invariant).',
    technique='sidecar contracts + own VC generator over the real AST + z3 against an independent rule spec; abstract hands; AST frame scan')

CHECKS['C14'] = dict(
    category='proof',
    text='Each rule of the statement is a clause on the real function that implements it, compared with spec/runouts.py: _begin_showdown '
         'offers the choice iff cash-game mode, not offered before and community cards still to come, to exactly the players in the hand; '
         'verify_runout_count_selection refuses exactly a player who was not offered / has chosen and a count below one, takes a named player '
         'as named (any order); select_runout_count clears that player\'s flag only, leaves the showdown queue alone, and combines the '
         'preference with what was agreed so far (k only if all who expressed one said k, otherwise 1); _end_showdown schedules the streets '
         'after the all-in k times, once; _end_bet_collection resumes dealing at that street with one run-out fewer to go; board_count is '
         'b*r; get_board_cards gives board j the early cards of starting board j // r and its own later cards; deal_board serves the first '
         'board still owed cards and appends each card to the row of its position. All values symbolic per shape.',
    design_ref='DESIGN.md section 4 (C14), section 8',
    note='D/shape (players, streets, boards b, run-outs <= R as listed in the evidence). "Each board complete at the end" is the sum of '
         'the per-pass clauses over the log (paper induction); even division of pots between boards is proved under C02, no card twice '
         'under C06.',
    technique='sidecar contracts + own VC generator over the real AST + z3 against an independent rule spec; native replay of counter-models')

CHECKS['C06'] = dict(
    category='proof',
    text='Conservation is stated pointwise in an arbitrary known card c (a skolem constant the solver may instantiate with any rank and '
         'suit): if c is in at most one place before an operation, the number of places it is in is the same afterwards. This is proved for '
         'every card-moving function -- _consume_cards (consumed cards leave the place they were in and only they; the burns / muck / '
         'discards are touched only when the deck cannot cover the request), burn_card, deal_hole, deal_board, stand_pat_or_discard, '
         '_muck_hole_cards (fold / muck / kill), show_or_muck_hole_cards (produce-then-consume) -- together with where the cards land (burn '
         'pile, that player\'s hand, the boards, the street\'s discards, the muck), and for the cards the engine chooses itself '
         '(_verify_cards_consumption: the remaining deck first, in order, reserve cards only when the deck is short). Because c is arbitrary, '
         '"no card is ever duplicated or lost" follows by induction over the operations; deck size does not enter.',
    design_ref='DESIGN.md section 4 (C06), section 8',
    note='D/shape: piles are capacity-bounded symbolic sequences (capacities in the evidence); explicitly supplied known cards are assumed '
         'dealable (the condition under which the engine does not warn); shuffles are arbitrary permutations.'
         ' Also: the card burnt / the cards dealt are the ones named by the argument, or as many as asked -- the argument ranging over every documented form (None, a natural number, a sequence, ONE bare Card object).'
         ' Discards from a three-card hand (two unknown cards next to a known one); row-aliasing obligation (per-street discard piles are distinct objects).',
    technique='sidecar contracts + own VC generator over the real AST + z3, pointwise (skolem card) conservation; native replay of counter-models')

CHECKS['C10'] = dict(
    category='proof',
    text='Street.__post_init__ rejects exactly the invalid street definitions; _begin_dealing makes each player still in the hand due '
         'exactly the prescribed hole cards with the prescribed facings (folded players nothing), each board the prescribed count, a burn '
         'exactly when prescribed, a draw decision for each live player in a draw round, and falls back to shared board cards exactly when '
         'the cards that can be dealt do not cover a stud street; hole_dealee_index is the position-order / one-card-per-round default; the '
         'phase checks and verifiers accept dealing only after the burn and the draw decisions, for 1..due cards; deal_hole gives each card '
         'the next prescribed facing and serves nobody else; stand_pat_or_discard is the first undecided player\'s, gives back exactly as '
         'many cards with the same facings and leaves kept cards as they are; _update_dealing hands over to betting only when nothing is '
         'due. Each is a clause on the real function against spec/dealing.py, all values symbolic per shape.',
    design_ref='DESIGN.md section 4 (C10), section 8',
    note='D/shape (players, cards per prescription / hand <= H, boards). Summing the dealing operations of a street to "exactly the '
         'prescribed cards" is an induction over the log (paper step). Board-card landing: C14; cards come from cards not in play: C06.'
         ' Row-aliasing obligation: the pending-deal queues of the players are distinct objects.',
    technique='sidecar contracts + own VC generator over the real AST + z3 against an independent rule spec; native replay of counter-models')

CHECKS['C05'] = dict(
    category='proof',
    text='from_game and from_game_or_none of the 11 hand classes are executed from their real source -- the loops over '
         'itertools.combinations, the try/except around the constructor, the running maximum through the real Hand.__lt__/__eq__ and '
         'the total_ordering derivations, the three-level super() chain of Omaha, badugi\'s largest-size-first search -- on abstract distinct '
         'cards, with "is a valid hand of the type" and "entry index" as free symbols per card set. For every (hole, board) count of the '
         'domain the result is proved to be made of a combination the statement allows (any five; both hole plus three board cards; exactly '
         'two hole plus three board cards; the largest valid subset), to be at least as strong as every legal combination, and ValueError / '
         'None to occur exactly when no legal combination exists. Hole and board cards are passed both as tuples and as one-shot iterators. '
         'In addition (label D-infinity, contracts/c05inf.py) the three looping from_game bodies are proved for ANY number of cards: '
         'itertools.combinations is an abstract stream of arbitrary length, each loop is cut by the sidecar invariant "the running maximum is the '
         'best valid candidate among those consumed" (induction on the candidates consumed, first-order quantifiers over the stream index), and '
         'super().from_game is replaced by the contract of the next level, proved by its own task.',
    design_ref='DESIGN.md section 4 (C05), section 8',
    note='Two halves: the loop logic (running maximum, skipping invalid candidates, ValueError iff none valid) is unbounded; that the streams '
         'are the composition rule of the statement is D/shape in the card counts: quick a thinned set up to 7 cards (Omaha up to 4+4, 3+5), '
         'thorough every (hole, board) with at most 7 cards, Omaha every (hole, board) up to 5+5 with at most 30 candidate combinations; the hand tables themselves are C04; itertools.combinations '
         'trusted as documented.'
         ' Cards are distinct symbolic Card objects (rank and suit symbolic), so code that inspects ranks or suits is executed too; a random-deal comparison on the real code is a bounded stand-in (label B, never counted) that supplies a failing input where a changed from_game leaves the executable subset.',
    technique='sidecar contracts + own VC generator over the real AST (abstract cards, uninterpreted validity / strength per card set) + z3')

CHECKS['C07'] = dict(
    category='proof',
    text='Every function of the operation cascade (16 public operations, 27 _begin/_update/_end steps, _begin, __post_init__) is executed '
         'symbolically from an arbitrary pre-state satisfying its precondition components (chips, phase exclusivity, and the local facts of '
         'each phase: contracts/engine.py and contracts/flow.py), callees of the cascade replaced by their contracts, automation loops cut '
         'by the invariant. Obligations: (1) exactly one phase is pending while the hand is not over, none after -- at every call site, loop '
         'and exit; (2) NO assert statement, index error, division by zero or other exception of the real bodies is reachable (every such '
         'exit is one obligation), and an operation that the cascade performs itself (automation) finds its own verifier satisfied, so no '
         'refusal escapes part-way; the constructor establishes the invariant; (3) availability: the seventeen real can_* queries, executed '
         'on an arbitrary invariant state, have a true member iff the hand is not over, and only of the pending phase; (4) order: where '
         '_end_bet_collection and _end_showdown hand over is proved equal to spec/phases.py, and the call graph of all phase steps is the '
         'documented graph (structural scan); (5) progress: every operation strictly reduces a non-negative lexicographic quantity when it '
         'hands over to its phase step.',
    design_ref='DESIGN.md section 4 (C07), section 8',
    note='D/shape: n in {2,3}, 2 streets, <= 2 run-outs, loops unrolled to 6. Two known findings (F6a everybody mucks, F6b pot without '
         'contender) are matched by obligation; everything else is proved under the hypothesis excluding them. Hypotheses of the statement '
         '(deck large enough; hands reaching a showdown are known) are assumptions. That the progress lemmas bound the length of every '
         'history is a paper argument. Components are evaluated natively on random real hands on every run (guard).'
         ' The phase order around an all-in (run-out choice offered once, dealing resumes where the all-in happened) is carried by the shared C14 contracts of _begin_showdown / _end_showdown / _end_bet_collection.',
    technique='sidecar contracts (invariant components per phase) + own VC generator over the real AST with contract cuts and loop-invariant '
              'cuts + z3; AST call-graph scan; native replay of counter-models; native guard against vacuity')

CHECKS['C12'] = dict(
    category='other',
    text='The property compares two runs (automatic showing / mucking / killing vs. everybody tabling his full hand), which no contract on '
         'one call can state. What is machine-checked are the lemmas it follows from, each on the real function with abstract hands: (m1) '
         'State.can_win_now(i) is true exactly when, on some board, for some hand type and some pot, player i holds a hand and no contender '
         'shows a strictly better one; (m2) hands.from_game never gets weaker when a card is added to the hole or the board (real from_game '
         'run twice on abstract cards); (m3) the default show/muck decision shows exactly when all-in or can_win_now, and in tournament mode '
         'an accepted show at an all-in or final showdown tables every hole card; (m4) _begin_hand_killing marks exactly the live players '
         'who cannot win now (can_win_now shown not to read the marks); (m5) removing a contender who does not hold the strongest hand '
         'changes no winner and no share (lemma over the awarding rule). The composition to equal payoffs is a paper argument; twin runs '
         'on random hands are a bounded stand-in, reported separately and never counted.',
    design_ref='DESIGN.md section 4 (C12), section 8',
    note='level other: premises proved (D/shape: n, hand types, boards as listed), composition on paper, B stand-in (twin runs).'
         ' (m0): get_hand / get_up_hand against "the best hand from the known / face-up hole cards and the board"; abstract hands are a function of the card sequences (congruence axioms).'
         ' Scan: no read-only member of State writes to the object (a cached hand would go stale after a draw).',
    technique='sidecar contracts + own VC generator over the real AST + z3 (abstract hands) for the lemmas; paper composition; bounded twin-run stand-in')

CHECKS['C15'] = dict(
    category='other',
    text='Record exactness is proved per operation on the real body, at the point where the operation hands its record to the phase step: '
         'the record of each of the 16 operations carries exactly the player, amount, cards and facings of what the operation did to the '
         'state (chips moved from that stack only, cards added to that hand / those board rows / that pile, the collected and returned '
         'parts of a bet collection, the per-player amounts and the sub-pot of a push, the cards tabled at a showdown, ...). Every phase step '
         'is proved to append the record it is given to the log, whatever it goes on to do. Structural scans of the source as it is on this '
         'run show that State._update is the only writer of the log and only appends, that randomness enters only through the deck shuffles, '
         'and that no mutable object is shared between State instances and no class or module attribute is written. The whole-history '
         'statement (replaying the log on a fresh state reproduces log and state; copies are independent) is the induction of these clauses '
         'over the log -- a paper step; replay-the-log and copy-and-compare runs on random hands are a bounded stand-in, never counted.',
    design_ref='DESIGN.md section 4 (C15), section 8',
    note='level other: per-operation clauses proved (D/shape) + structural scans (no bound); the induction over the log and deepcopy itself '
         'are assumptions; B stand-in reported separately.'
         ' Refusal-leaves-nothing obligations of the 16 operations (shared C08 frames); scan: no read-only member of State writes to the object.',
    technique='sidecar contracts + own VC generator over the real AST + z3 for record exactness and log discipline; AST scans for writers, '
              'randomness and sharing; bounded replay / copy stand-in')

CHECKS['C09'] = dict(
    category='other',
    text='The property relates two runs (a hyperproperty); no contract on one call states it. Machine-checked are the premises it follows '
         'from: (a1) structural scan -- only the phase steps _update_X read self.automations; (a2) structural scan -- the code guarded by '
         '`Automation.K in self.automations` consists of nothing but argument-less calls of K\'s own operation; (a3) QUIESCENCE, deductive: '
         'every function of the cascade (16 operations, 27 steps, _begin) is executed symbolically with callee contracts and per-loop '
         'invariants, for ALL 2^11 automation subsets at once (the tuple is eleven free booleans), and ends in a state in which no operation '
         'of an automated kind is available -- the engine has done every automated step as soon as it became available, in its fixed '
         'priority order; that each automated call is accepted where it is made is discharged under C07. Default arguments (a4) and '
         'determinism (a5) are C08/C10/C12/C14/C15 clauses. The composition to trace equality with the eager un-automated twin is a paper '
         'argument; twin runs over automation subsets of small games are a bounded stand-in, never counted.',
    design_ref='DESIGN.md section 4 (C09), section 8',
    note='level other: premises proved (scans: no bound; quiescence: D/shape n=2 quick, more thorough), composition on paper, B stand-in.'
         ' Scan (a6): a step hands over to the next step (self._begin_X / _update_X / _end_X) only as its last act on every path.',
    technique='sidecar contracts + own VC generator with contract / loop-invariant cuts + z3 (quiescence); AST scans; bounded twin-run stand-in')

CHECKS['C16'] = dict(
    category='other',
    text='The functions involved (reflection over dataclass fields, f-strings, str.split, structural pattern matching on word lists, tomllib) '
         'are outside the subset of the VC generator, so no SMT obligation is claimed. What a contract on them can say is decided by exhaustive '
         'closed evaluation of the real code over the finite part of its domain (label E): for every operation kind, every position 1..9, every '
         'card / card pair of the 53-card alphabet, with and without commentary, the line written by HandHistory.from_game_state, parsed by '
         'parse_action against a recording stand-in for State, invokes the same operation with the same player, amount and cards, and a line '
         'naming the wrong player is refused; for each of the 11 PHH variants from_game_state(game, state).create_game() / create_state() has '
         'the game-defining fields of the original (ante trimming flag, antes, blinds/straddles, bring-in, bets, starting stacks, streets, '
         'structure). A structural scan shows that state_actions raises ValueError whenever actions are left unapplied. Text round trip '
         '(dumps/loads/dumps, user-defined fields) and whole-hand replay are a bounded stand-in (label B), never counted.',
    design_ref='DESIGN.md section 4 (C16), section 5, section 8',
    note='level other. Amounts are a sample (int(str(k)) == k, parse_value(str(v)) == v assumed); the reflection loop does not branch on field '
         'values (one run per variant with sentinel values); tomllib is an external library; the repair ladder is covered only by the stand-in.'
         ' Game-defining fields survive the text (save, load, save again) for each of the 11 variants; isolation: no mutable default argument in notation.py, a hand keeps its own user fields whatever was loaded before.',
    technique='exhaustive closed evaluation of the writer/parser pair and of game reconstruction (real code, finite domain) + AST scan; bounded '
              'round-trip / replay stand-in')

CHECKS['C17'] = dict(
    category='other',
    text='The emitters build text with f-strings and the inverse parser is regex-driven -- outside the subset of the VC generator, so no SMT '
         'obligation is claimed. Three lemmas are decided on the real source by data-flow scans combined with the C01 invariant (payoff = '
         'stack - starting stack at every point): (p1) in to_acpc_protocol and to_pluribus_protocol the no-limit raise token is '
         '`r` + (-state.payoffs[raiser]) read from the replayed state, i.e. the total the player has committed; (p2) the Pluribus result field '
         'is finishing stack - starting stack per seat, i.e. the payoffs of the terminal state; (p3) a seat\'s cards are written only from its '
         'own dealings (the viewer\'s seat in ACPC, every seat in Pluribus) and from what a seat showed. Order and separators of the text, and '
         'that parsing a line back replays to the same actions, stacks and line, are covered only by a bounded round trip against an '
         'independent reference rendering (label B), never counted.',
    design_ref='DESIGN.md section 4 (C17), section 5, section 8',
    note='level other: lemmas by structural scan (no bound) + C01; text layer and parser inverse bounded (random NT/FT hands, 2-4 players, '
         'equal stacks, every viewer seat).'
         ' The stand-in also turns boards over one card at a time (several BoardDealing operations per street).',
    technique='AST data-flow scans of the real source + the C01 invariant for the lemmas; bounded generate / parse / replay / regenerate stand-in')

NOT_APPLICABLE = {
    'C20': 'regex-driven text importers against external site formats; no contract within reach expresses or decides it (DESIGN.md section 5)',
}
PENDING = 'not claimed yet: contracts for this property are still under construction in this round (see DESIGN.md section 8 for status)'
ALL = ['C%02d' % i for i in range(1, 21)]


def main():
    checks = []
    for pid in sorted(CHECKS):
        c = CHECKS[pid]
        checks.append({
            'property_id': pid,
            'quick_cmd': f'./check {pid} --tier quick',
            'thorough_cmd': f'./check {pid} --tier thorough',
            'evidence_file': f'/verif/evidence/{pid}.json',
            'replay_cmd_template': './check replay {path}',
            'engine': 'pyvc',
            'level_claimed': {'category': c['category'], 'text': c['text'], 'design_ref': c['design_ref']},
            'level_note': c['note'],
            'technique': c['technique'],
        })
    na = []
    for pid in ALL:
        if pid in CHECKS:
            continue
        na.append({'property_id': pid, 'reason': NOT_APPLICABLE.get(pid, PENDING)})
    m = {
        'version': 1,
        'setup_cmd': 'true',
        'hooks': {'guard': 'POKERKIT_VERIF', 'enable': 'none needed: contracts are sidecar files, /repo is read, never instrumented',
                  'baseline_off_cmd': BASELINE_OFF, 'source_commits': [], 'add_only': True},
        'engines': [{'name': 'pyvc', 'path': '/verif/pyvc', 'serves_properties': sorted(CHECKS),
                     'kind_free_text': 'verification-condition generator for Python: symbolic execution of the real AST under sidecar '
                                       'contracts, obligations discharged by z3 5.1 / cvc5 1.0.3; exhaustive closed evaluation (label E) '
                                       'for nullary table constructors and finite domains'}],
        'checks': checks,
        'notes': 'Contract-based deductive verification of the real pokerkit code. Fix commits in /repo (message prefix "fix:") are '
                 'listed in /verif/known_findings.jsonl as fixed entries. Exit codes: 0 held, 1 violation, 2 undecided, 3 checker error.',
        'not_applicable': na,
    }
    json.dump(m, open(os.path.join(ROOT, 'MANIFEST.json'), 'w'), indent=1)
    try:
        import jsonschema
        jsonschema.validate(m, json.load(open('/root/.vp/MANIFEST.schema.json')))
        print('MANIFEST.json valid;', len(checks), 'checks')
    except ImportError:
        print('written (jsonschema unavailable)')


if __name__ == '__main__':
    main()

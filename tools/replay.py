"""Native replay of a solver counter-model on the REAL code (run under the test-suite interpreter,
/venv/bin/python, with PYTHONPATH=<repo>:/verif).

Input: a replay file written by a check (JSON): the failed obligation, the decoded pre-state and
arguments.  The pre-state is rebuilt field by field (`object.__new__(State)`; `State` has no
`__slots__`), the real method is called, and the obligation's clause -- the same Python function the
verifier executed symbolically -- is evaluated on the real objects.

Output (stdout, one JSON object): {"confirmed": true|false|null, "detail": ...}
  confirmed true  : the real code, run on this input, breaks the clause / raises the exception
  confirmed false : the real code behaves as the clause demands on this input (verifier/encoding issue)
  confirmed null  : the input cannot be rebuilt natively (abstract parts) -- no-failing-input-found
"""
from __future__ import annotations

import collections
import copy
import dataclasses
import fractions
import importlib
import json
import sys
import traceback
import warnings


class StopReplay(BaseException):
    pass


class ReachedCut(BaseException):
    """the native run reached a callee that the proof replaced by its contract"""


def resolve(qual):
    parts = qual.split('.')
    for k in range(len(parts), 0, -1):
        try:
            obj = importlib.import_module('.'.join(parts[:k]))
        except ImportError:
            continue
        for p in parts[k:]:
            obj = getattr(obj, p)
        return obj
    raise ImportError(qual)


def build(v):
    if isinstance(v, list):
        return [build(x) for x in v]
    if not isinstance(v, dict):
        return v
    if '$tuple' in v:
        return tuple(build(x) for x in v['$tuple'])
    if '$list' in v:
        return [build(x) for x in v['$list']]
    if '$deque' in v:
        return collections.deque(build(x) for x in v['$deque'])
    if '$set' in v:
        return set(build(x) for x in v['$set'])
    if '$iter' in v:
        return iter([build(x) for x in v['$iter']])
    if '$frac' in v:
        return fractions.Fraction(*v['$frac'])
    if '$enum' in v:
        return getattr(resolve(v['$enum']), v['name'])
    if '$flags' in v:
        return tuple(build(x) for x in v['$flags'])
    if '$func' in v:
        return resolve(v['$func'])
    if '$class' in v:
        return resolve(v['$class'])
    if '$opaque' in v:
        if v['$opaque'] == 'deck':
            return resolve('pokerkit.utilities.Deck').STANDARD
        if v['$opaque'] == 'the-record':        # an arbitrary operation record
            return resolve('pokerkit.state.NoOperation')(commentary='the-record')
        return None
    if '$handtype' in v:
        return resolve('pokerkit.hands.StandardHighHand')
    if '$unbound' in v:
        return None
    if '$obj' in v:
        cls = resolve(v['$obj'])
        obj = object.__new__(cls)
        for k, x in v['fields'].items():
            object.__setattr__(obj, k, build(x))
        return obj
    if '$dict' in v:
        return {build(k): build(x) for k, x in v['$dict']}
    raise ValueError(f'cannot rebuild {v}')


def call_clause(fn, bindings):
    import inspect
    f = fn.__func__ if isinstance(fn, staticmethod) else fn
    params = list(inspect.signature(f).parameters)
    return f(*[bindings[p] for p in params])


def find_clause(qual):
    obj = resolve(qual)
    return obj


def main(path):
    rep = json.load(open(path))
    ob = rep['obligation']
    model = rep['model']
    state = build(model['state']) if 'state' in model else None
    args = {k: build(v) for k, v in model['args'].items()}
    target = resolve(model['function'])
    if isinstance(target, property):
        _fget = target.fget

        def target(self, _f=_fget):
            import types
            r = _f(self)
            return tuple(r) if isinstance(r, types.GeneratorType) else r
    K = resolve(rep['contract']) if rep.get('contract') else None
    if K is not None and hasattr(K, 'native_case'):
        # the contract knows how to realise the abstract parts of the model with real objects
        case = K.native_case(model, ob)
        if isinstance(case, dict) and 'confirmed' in case:       # the contract searched for a real failing input itself
            print(json.dumps(case))
            return
        if case is None:
            print(json.dumps({'confirmed': None, 'detail': 'the abstract parts of the model have no native realisation'}))
            return
        result, exc = None, None
        try:
            result = case['call']()
        except BaseException as e:      # noqa
            exc = e
        b = dict(case['bindings']); b['r'] = result
        if exc is not None:
            print(json.dumps({'confirmed': ob['kind'] == 'safety', 'detail': f'real call raised {type(exc).__name__}: {exc}'}))
            return
        val = bool(call_clause(find_clause(ob['meta']['clause']), b))
        print(json.dumps({'confirmed': not val, 'detail': f'clause evaluated to {val}; real result {result!r}; case {case.get("desc")}'}))
        return
    argnames = getattr(K, 'argnames', tuple(args)) if K is not None else tuple(args)
    a = tuple(args[n] for n in argnames if n in args)
    warn_err = bool(model.get('warnings_are_errors'))
    out = {'confirmed': None, 'detail': ''}
    # mirror the modular cuts of the proof natively: callees replaced by a contract in the proof are stubbed
    # here (pure callees return the value the solver chose; cascades append the record and stop)
    restore = []
    pcr = dict(model.get('pure_callee_results') or {})
    rk, ur = pcr.pop('pokerkit.utilities.rake#raked', None), pcr.pop('pokerkit.utilities.rake#unraked', None)
    if rk is not None and state is not None:
        # the proof used the CONTRACT of State.rake (any conforming rake function): replay with the values the solver chose
        pairs = [(build(a), build(b)) for a, b in zip(rk, ur)]

        def rake_stub(amount, st=None, _p=pairs, _i=[0]):
            v = _p[min(_i[0], len(_p) - 1)]
            _i[0] += 1
            return v if sum(v) == amount else (0, amount)
        state.rake = rake_stub
    for qual, values in pcr.items():
        owner = resolve(qual.rsplit('.', 1)[0]); name = qual.rsplit('.', 1)[1]
        orig = owner.__dict__[name]
        vals = [build(v) for v in values]

        def stub(self, *a, _vals=vals, _i=[0], **k):
            v = _vals[min(_i[0], len(_vals) - 1)]
            _i[0] += 1
            return v
        setattr(owner, name, property(lambda self, _s=stub: _s(self)) if isinstance(orig, property) else stub)
        restore.append((owner, name, orig))
    cascade = ob['meta'].get('path', '').startswith(('call:', 'loop-')) or ob['meta'].get('component') is not None
    for qual in model.get('havoc_callees') or []:
        owner = resolve(qual.rsplit('.', 1)[0]); name = qual.rsplit('.', 1)[1]
        if qual == model['function']:
            continue
        orig = owner.__dict__[name]

        def stub2(self, operation=None, *a, **k):
            if operation is not None:
                self.operations.append(operation)

        def stub3(self, *a, _name=name, **k):
            raise ReachedCut(_name)
        setattr(owner, name, stub3 if cascade else stub2)
        restore.append((owner, name, orig))
    with warnings.catch_warnings():
        warnings.simplefilter('error' if warn_err else 'ignore')
        old = copy.deepcopy(state)
        pre = copy.deepcopy(state)
        bindings = dict(args)
        for bk, bv in (model.get('bindings') or {}).items():       # ghost / skolem bindings of the contract (e.g. an arbitrary card)
            try:
                bindings.setdefault(bk, build(bv))
            except Exception:     # noqa
                pass
        bindings.update({'old': old, 's': state, 'K': K, 'a': a, 'integral': model.get('chips', 'int') == 'int',
                         'warnings_are_errors': warn_err})
        kind, meta = ob['kind'], ob['meta']
        path_kind = meta.get('path', 'normal')
        if K is not None and hasattr(K, 'requires'):
            try:
                pre_ok = bool(call_clause(K.requires, bindings))
            except Exception as e:     # noqa
                pre_ok = False
            if not pre_ok:
                print(json.dumps({'confirmed': None, 'detail': 'the rebuilt native input does not satisfy the contract precondition '
                                  '(abstract parts of the model have no direct native counterpart)'}))
                return
        result, exc = None, None

        def run():
            nonlocal result, exc
            try:
                if state is not None:
                    result = target(state, **args)
                else:
                    result = target(**args)
            except StopReplay:
                raise
            except BaseException as e:     # noqa
                exc = e

        if path_kind.startswith('loop-'):
            out['confirmed'] = None
            out['detail'] = 'obligation at a loop cut by an invariant: the arbitrary-iteration state has no native counterpart'
        elif path_kind.startswith('call:') or (cascade and path_kind == 'normal'):
            # cascade obligation: a component must hold at the k-th call of a callee under contract (or at the exit)
            verdict = {}
            want_callee = meta.get('callee', '').rsplit('.', 1)[-1] if path_kind.startswith('call:') else None
            occ = int(ob['id'].split('#')[1].split('/')[0]) if '#' in ob['id'] else 0
            seen = {'k': 0}
            if want_callee:
                owner = resolve(meta['callee'].rsplit('.', 1)[0])
                orig2 = owner.__dict__[want_callee]

                def probe2(self, *pa, **pk):
                    if seen['k'] == occ:
                        verdict['value'] = bool(call_clause(find_clause(meta['clause']), dict(bindings)))
                        raise StopReplay()
                    seen['k'] += 1
                    raise ReachedCut(want_callee)
                setattr(owner, want_callee, probe2)
            try:
                try:
                    run()
                except StopReplay:
                    pass
            finally:
                if want_callee:
                    setattr(owner, want_callee, orig2)
            if want_callee:
                if 'value' in verdict:
                    out['confirmed'] = not verdict['value']
                    out['detail'] = f'component {meta.get("component")} at the call of {want_callee} evaluated to {verdict["value"]}'
                else:
                    out['confirmed'] = None
                    out['detail'] = f'the call of {want_callee} was not reached natively ({exc!r}): the model passes through a callee under contract'
            elif isinstance(exc, ReachedCut):
                out['confirmed'] = None
                out['detail'] = f'the native run reached the callee {exc} that the proof replaces by its contract; exit state not comparable'
            elif exc is not None:
                out['confirmed'] = None
                out['detail'] = f'native run raised {type(exc).__name__}: {exc}'
            else:
                bindings['r'] = result
                val = bool(call_clause(find_clause(meta['clause']), bindings))
                # the proof replaces callees by their contracts: a native run through the REAL callees that ends well does not
                # contradict a counter-model that goes through a havocked callee
                out['confirmed'] = True if not val else None
                out['detail'] = f'component {meta.get("component")} evaluated to {val} on the real post-state' + (
                    '' if not val else ' (the native run takes the real callees, the counter-model their contracts: no failing input found natively)')
        elif path_kind.startswith('at-call:'):
            callee_q = path_kind.split(':', 1)[1]
            owner = resolve(callee_q.rsplit('.', 1)[0])
            name = callee_q.rsplit('.', 1)[1]
            orig = getattr(owner, name)
            verdict = {}

            def probe(self, *pa, **pk):
                b2 = dict(bindings)
                b2['op'] = pa[0] if pa else None
                for kw_name, kw_val in pk.items():
                    b2['call_' + kw_name] = kw_val
                verdict['value'] = bool(call_clause(find_clause(meta['clause']), b2))
                raise StopReplay()
            setattr(owner, name, probe)
            try:
                try:
                    run()
                except StopReplay:
                    pass
            finally:
                setattr(owner, name, orig)
            if 'value' in verdict:
                out['confirmed'] = not verdict['value']
                out['detail'] = f'clause at the call of {name} evaluated to {verdict["value"]}'
            else:
                out['confirmed'] = False
                out['detail'] = f'the call of {name} was not reached (exception {exc!r})'
        elif kind in ('P', 'A'):
            run()
            if exc is not None:
                out['confirmed'] = False
                out['detail'] = f'operation raised {type(exc).__name__}: {exc} (clause speaks about the normal path)'
            else:
                bindings['r'] = result
                try:
                    val = bool(call_clause(find_clause(meta['clause']), bindings))
                    out['confirmed'] = not val
                    out['detail'] = f'clause evaluated to {val} on the real post-state; result={result!r}'
                except Exception as e:    # a clause that raises is false
                    out['confirmed'] = True
                    out['detail'] = f'clause raised {type(e).__name__}: {e}'
        elif kind == 'raises':
            try:
                want = bool(call_clause(find_clause(meta['clause']), {**bindings, 's': pre}))
            except Exception as e:
                want = None
                out['detail'] = f'clause raised {type(e).__name__}: {e}; '
            run()
            names = meta['exception'].split('|')
            got = exc is not None and type(exc).__name__ in names
            out['confirmed'] = (want is not None) and (got != want)
            out['detail'] += f'clause says refused={want}; real call raised {type(exc).__name__ if exc else None}: {exc}'
        elif kind == 'frame':
            run()
            if exc is None:
                out['confirmed'] = False
                out['detail'] = 'no exception raised'
            else:
                from pyvc.ghost import state_equal, differing_fields
                same = state_equal(old, state)
                out['confirmed'] = not same
                out['detail'] = (f'raised {type(exc).__name__}: {exc}; state changed in fields '
                                 f'{differing_fields(old, state)}' if not same else f'raised {type(exc).__name__}; state unchanged')
        elif kind == 'safety':
            run()
            want = meta['exception']
            native = {'TypeErr': 'TypeError'}.get(want, want)
            if want in ('UnwindLimit', 'ContractPre'):
                out['confirmed'] = None
                out['detail'] = 'verifier-internal obligation; not replayable'
            else:
                out['confirmed'] = exc is not None and type(exc).__name__ == native
                out['detail'] = f'real call raised {type(exc).__name__ if exc else None}: {exc}'
                if exc is not None:
                    tb = traceback.extract_tb(exc.__traceback__)
                    out['detail'] += f' at line {tb[-1].lineno} of {tb[-1].name}'
        else:
            out['detail'] = f'obligation kind {kind} is not replayable'
    if out.get('confirmed') is False and ob['meta'].get('after_loop_cut'):
        out['confirmed'] = None
        out['detail'] += ' -- the obligation follows a loop cut by an invariant (arbitrary-iteration state): the native run from the pre-state need not pass through the state of the counter-model'
    if out.get('confirmed') is False and model.get('abstract_callees'):
        out['confirmed'] = None
        out['detail'] += ' -- the counter-model chooses values for abstract callees (' + ', '.join(model['abstract_callees']) + \
                         ') that the real callees do not take on this input: no failing input found natively'
    print(json.dumps(out))


if __name__ == '__main__':
    try:
        main(sys.argv[1])
    except Exception as e:      # cannot rebuild / clause crashed
        print(json.dumps({'confirmed': None, 'detail': 'replay could not be set up: ' + repr(e),
                          'trace': traceback.format_exc()[-1500:]}))

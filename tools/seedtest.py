"""Run the registered quick checks against the seeded property-breaking changes (/verif/seeded/<id>).

Each change is applied to its own scratch worktree of /repo HEAD (under /tmp, removed afterwards); the
check is pointed at it with PYVC_REPO and writes its evidence/replay files to a scratch directory
(PYVC_OUT), so /repo and /verif/evidence are never touched.  Usage:
    python3 tools/seedtest.py [--tier quick] [--props C01,C08] [ids...]        (run from /verif)
Prints one line per (change, check): exit code and the VIOLATION / CHECKER-ERROR lines, and a summary.
"""
import json, os, subprocess, sys, shutil, tempfile
from concurrent.futures import ThreadPoolExecutor
ROOT = os.path.dirname(os.path.dirname(os.path.abspath(__file__)))


def run_one(sid, props, tier):
    d = os.path.join(ROOT, 'seeded', sid)
    wt = tempfile.mkdtemp(prefix=f'seed_{sid}_', dir='/tmp')
    os.rmdir(wt)
    out = []
    try:
        subprocess.run(['git', '-C', '/repo', 'worktree', 'add', '--detach', wt, 'HEAD'], capture_output=True, check=True)
        # the patches were written against an earlier HEAD; later fix: commits may shift or touch their context
        r = subprocess.run(['git', '-C', wt, 'apply', os.path.join(d, 'patch.diff')], capture_output=True)
        if r.returncode != 0:
            r = subprocess.run(['git', '-C', wt, 'apply', '--3way', os.path.join(d, 'patch.diff')], capture_output=True)
        if r.returncode != 0:
            r = subprocess.run(['patch', '-p1', '--fuzz=3', '-d', wt, '-i', os.path.join(d, 'patch.diff')], capture_output=True)
        if r.returncode != 0:
            return [(sid, p, 'patch-does-not-apply', []) for p in props]
        for p in props:
            o = tempfile.mkdtemp(prefix=f'seedout_{sid}_{p}_', dir='/tmp')
            env = dict(os.environ, PYVC_REPO=wt, PYVC_OUT=o, PYVC_JOBS=os.environ.get('SEED_JOBS', '4'))
            r = subprocess.run([os.path.join(ROOT, 'check'), p, '--tier', tier], capture_output=True, text=True, env=env)
            lines = [l for l in r.stdout.splitlines() if l.startswith(('VIOLATION', 'CHECKER-ERROR', 'UNDECIDED', 'KNOWN'))]
            out.append((sid, p, r.returncode, lines))
            shutil.rmtree(o, ignore_errors=True)
    finally:
        subprocess.run(['git', '-C', '/repo', 'worktree', 'remove', '--force', wt], capture_output=True)
        shutil.rmtree(wt, ignore_errors=True)
    return out


def main():
    args = sys.argv[1:]
    tier = 'quick'
    props = None
    ids = []
    while args:
        a = args.pop(0)
        if a == '--tier':
            tier = args.pop(0)
        elif a == '--props':
            props = args.pop(0).split(',')
        else:
            ids.append(a)
    manifest = json.load(open(os.path.join(ROOT, 'MANIFEST.json')))
    claimed = [c['property_id'] for c in manifest['checks']]
    ids = ids or sorted(os.listdir(os.path.join(ROOT, 'seeded')))
    jobs = []
    for sid in ids:
        meta = json.load(open(os.path.join(ROOT, 'seeded', sid, 'meta.json')))
        ps = props or [meta['property']]
        jobs.append((sid, ps))
    with ThreadPoolExecutor(int(os.environ.get('SEED_PAR', '4'))) as ex:
        results = list(ex.map(lambda j: run_one(j[0], j[1], tier), jobs))
    caught = 0
    for rs in results:
        for sid, p, rc, lines in rs:
            print(f'{sid} check={p} exit={rc}')
            for l in lines[:4]:
                print('    ' + l[:230])
        if any(rc == 1 for _, _, rc, _ in rs):
            caught += 1
    print(f'caught {caught} of {len(results)}')


if __name__ == '__main__':
    main()

"""Run the registered quick checks against harmless (semantics-preserving) edits of /repo (/verif/benign/*.diff).

All given diffs are applied TOGETHER to one scratch worktree of /repo HEAD (they touch different functions); every check must
exit 0 there.  Usage:  python3 tools/benigntest.py [--props C01,C02] [--each] [names...]      (run from /verif)
--each applies the diffs one at a time instead (slow; used to bisect a failure)."""
import json, os, subprocess, sys, shutil, tempfile
from concurrent.futures import ThreadPoolExecutor
ROOT = os.path.dirname(os.path.dirname(os.path.abspath(__file__)))


def run(diffs, props, label):
    wt = tempfile.mkdtemp(prefix='benign_', dir='/tmp')
    os.rmdir(wt)
    bad = []
    try:
        subprocess.run(['git', '-C', '/repo', 'worktree', 'add', '--detach', wt, 'HEAD'], capture_output=True, check=True)
        for d in diffs:
            r = subprocess.run(['git', '-C', wt, 'apply', os.path.join(ROOT, 'benign', d)], capture_output=True)
            if r.returncode:
                r = subprocess.run(['patch', '-p1', '--fuzz=3', '-d', wt, '-i', os.path.join(ROOT, 'benign', d)], capture_output=True)
            if r.returncode:
                print(f'{label}: {d} does not apply (skipped)')

        def one(p):
            o = tempfile.mkdtemp(prefix=f'benignout_{p}_', dir='/tmp')
            env = dict(os.environ, PYVC_REPO=wt, PYVC_OUT=o, PYVC_JOBS=os.environ.get('SEED_JOBS', '4'))
            r = subprocess.run([os.path.join(ROOT, 'check'), p], capture_output=True, text=True, env=env)
            shutil.rmtree(o, ignore_errors=True)
            lines = [l for l in r.stdout.splitlines() if l.startswith(('VIOLATION', 'CHECKER-ERROR', 'UNDECIDED'))]
            return p, r.returncode, lines, r.stdout.splitlines()[-1:] 
        with ThreadPoolExecutor(int(os.environ.get('SEED_PAR', '4'))) as ex:
            for p, rc, lines, last in ex.map(one, props):
                print(f'{label} check={p} exit={rc} {last[0][:160] if last else ""}')
                for l in lines[:6]:
                    print('    ' + l[:260])
                if rc:
                    bad.append(p)
    finally:
        subprocess.run(['git', '-C', '/repo', 'worktree', 'remove', '--force', wt], capture_output=True)
        shutil.rmtree(wt, ignore_errors=True)
    return bad


def main():
    args = sys.argv[1:]
    props, each, names = None, False, []
    while args:
        a = args.pop(0)
        if a == '--props':
            props = args.pop(0).split(',')
        elif a == '--each':
            each = True
        else:
            names.append(a)
    manifest = json.load(open(os.path.join(ROOT, 'MANIFEST.json')))
    props = props or [c['property_id'] for c in manifest['checks']]
    diffs = sorted(f for f in os.listdir(os.path.join(ROOT, 'benign')) if f.endswith('.diff') and (not names or any(f.startswith(n) for n in names)))
    bad = []
    if each:
        for d in diffs:
            bad += [(d, p) for p in run([d], props, d)]
    else:
        bad = run(diffs, props, f'{len(diffs)} diffs')
    print('false alarms / crashes:', bad or 'none')
    return 1 if bad else 0


if __name__ == '__main__':
    sys.exit(main())


def walrus(xs, t):
    if (n := len(xs)) > t:
        return n - t
    return -n
def walrus2(a, b):
    out = []
    if (d := a - b) > 0 and (e := d * 2) > 3:
        out.append(e)
    out.append(d)
    return tuple(out)
def dictcomp(xs):
    d = {k: v * v for k, v in enumerate(xs) if v != 2}
    return tuple(sorted(d.items()))
def starred(xs):
    first, *rest = xs
    *init, last = xs
    a, *mid, z = xs
    return (first, tuple(rest), tuple(init), last, a, tuple(mid), z)
def delete(x):
    y = x + 1
    z = y * 2
    del y
    return z
def local_import(x):
    from math import gcd
    import fractions
    return gcd(x, 12)
def enum_start(xs, s):
    return tuple((i, v) for i, v in enumerate(xs, s))
def forelse(xs, t):
    for x in xs:
        if x == t:
            r = 'found'
            break
    else:
        r = 'missing'
    return r
def condexpr(a, b):
    return (a if a > b else b) - (0 if a else 1)
def guard(a, b):
    if a and b > 1 and not a > 5:
        return 1
    return 2
def match_(c):
    match c:
        case 1:
            return 'one'
        case 2 | 3:
            return 'few'
        case _:
            return 'many'
def zipped(xs, ys):
    out = []
    for x, y in zip(xs, ys):
        out.append(x * y)
    return tuple(out)
def extend_comp(xs):
    out = [0]
    out.extend([x + 1 for x in xs if x])
    out += [9]
    return tuple(out)
def anyall(xs, t):
    return (any(x > t for x in xs), all(x > t for x in xs), sum(1 for x in xs if x > t), max(xs, default=-1), min(xs, default=-1))
def chained(a, b, c):
    return (a < b <= c, not a < b <= c, not (a < b and b <= c))
def swap(a, b):
    a, b = b, a
    return a - b
def nested(xs):
    def f(v):
        return v * 2 if v % 2 else v
    return tuple(f(x) for x in xs)
def fsets(xs):
    seen = set()
    out = []
    for i in range(len(xs) - 1):
        key = (frozenset((xs[i] % 3, xs[i + 1] % 3)), xs[i] % 2 == xs[i + 1] % 2)
        if key in seen:
            continue
        seen.add(key)
        out.append(i)
    return tuple(out)
def guard_match(c, d):
    match c:
        case 1 if d > 2:
            return 'one-big'
        case 1:
            return 'one'
        case 2 | 3 if d == 0:
            return 'few-zero'
        case _:
            return 'other'
def set_update(xs, ys):
    s = set(xs)
    s.update(ys)
    s.update(y + 1 for y in ys)
    return tuple(sorted(s))
def native_iter(xs):
    out = []
    for x in iter(()):
        out.append(x)
    for x in reversed(xs):
        out.append(x)
    return tuple(out)
def sorted_key(xs):
    return tuple(sorted(xs, key=lambda v: (-v % 3, v)))

"""Cross-check of the interpreter's statement / expression forms against CPython on concrete inputs: every function of
`syntax_subjects.py` is run by pyvc's interpreter and by CPython on the same arguments; results must be equal.
`PYTHONPATH=/repo:/verif python3-vt tools/selftest/syntax.py`.  Not part of any registered check."""
import itertools
import os
import sys
import z3

HERE = os.path.dirname(os.path.abspath(__file__))
sys.path.insert(0, HERE)
SUBJECTS = '''
def walrus(xs, t):
    if (n := len(xs)) > t:
        return n - t
    return -n
def walrus2(a, b):
    out = []
    if (d := a - b) > 0 and (e := d * 2) > 3:
        out.append(e)
    out.append(d)
    return tuple(out)
def dictcomp(xs):
    d = {k: v * v for k, v in enumerate(xs) if v != 2}
    return tuple(sorted(d.items()))
def starred(xs):
    first, *rest = xs
    *init, last = xs
    a, *mid, z = xs
    return (first, tuple(rest), tuple(init), last, a, tuple(mid), z)
def delete(x):
    y = x + 1
    z = y * 2
    del y
    return z
def local_import(x):
    from math import gcd
    import fractions
    return gcd(x, 12)
def enum_start(xs, s):
    return tuple((i, v) for i, v in enumerate(xs, s))
def forelse(xs, t):
    for x in xs:
        if x == t:
            r = 'found'
            break
    else:
        r = 'missing'
    return r
def condexpr(a, b):
    return (a if a > b else b) - (0 if a else 1)
def guard(a, b):
    if a and b > 1 and not a > 5:
        return 1
    return 2
def match_(c):
    match c:
        case 1:
            return 'one'
        case 2 | 3:
            return 'few'
        case _:
            return 'many'
def zipped(xs, ys):
    out = []
    for x, y in zip(xs, ys):
        out.append(x * y)
    return tuple(out)
def extend_comp(xs):
    out = [0]
    out.extend([x + 1 for x in xs if x])
    out += [9]
    return tuple(out)
def anyall(xs, t):
    return (any(x > t for x in xs), all(x > t for x in xs), sum(1 for x in xs if x > t), max(xs, default=-1), min(xs, default=-1))
def chained(a, b, c):
    return (a < b <= c, not a < b <= c, not (a < b and b <= c))
def swap(a, b):
    a, b = b, a
    return a - b
def nested(xs):
    def f(v):
        return v * 2 if v % 2 else v
    return tuple(f(x) for x in xs)
def fsets(xs):
    seen = set()
    out = []
    for i in range(len(xs) - 1):
        key = (frozenset((xs[i] % 3, xs[i + 1] % 3)), xs[i] % 2 == xs[i + 1] % 2)
        if key in seen:
            continue
        seen.add(key)
        out.append(i)
    return tuple(out)
def guard_match(c, d):
    match c:
        case 1 if d > 2:
            return 'one-big'
        case 1:
            return 'one'
        case 2 | 3 if d == 0:
            return 'few-zero'
        case _:
            return 'other'
def set_update(xs, ys):
    s = set(xs)
    s.update(ys)
    s.update(y + 1 for y in ys)
    return tuple(sorted(s))
def native_iter(xs):
    out = []
    for x in iter(()):
        out.append(x)
    for x in reversed(xs):
        out.append(x)
    return tuple(out)
def sorted_key(xs):
    return tuple(sorted(xs, key=lambda v: (-v % 3, v)))
'''
open(os.path.join(HERE, 'syntax_subjects.py'), 'w').write(SUBJECTS)
from pyvc.runner import source
from pyvc.core import Ctx
from pyvc.interp import Interp
from pyvc import models
import syntax_subjects as S

src = source(['syntax_subjects'])
small = [0, 1, 2, 3, 7]
lists = [(), (1,), (2, 0), (3, 2, 1), (0, 5, 2, 2)]
CASES = {
    'walrus': [(l, t) for l in lists for t in (0, 2)], 'walrus2': [(a, b) for a in small for b in small], 'dictcomp': [(l,) for l in lists],
    'starred': [(l,) for l in lists if len(l) >= 2], 'delete': [(a,) for a in small], 'delete_item': [(l, i) for l in lists for i in (0, 1, -1, 3, -5)], 'local_import': [(a,) for a in small],
    'enum_start': [(l, s) for l in lists for s in (0, 3)], 'forelse': [(l, t) for l in lists for t in (2, 4)],
    'condexpr': [(a, b) for a in small for b in small], 'guard': [(a, b) for a in small for b in small], 'match_': [(c,) for c in small],
    'zipped': [(l, m) for l in lists for m in lists], 'extend_comp': [(l,) for l in lists], 'anyall': [(l, t) for l in lists for t in (0, 2)],
    'chained': [(a, b, c) for a in (0, 1, 2) for b in (0, 1, 2) for c in (0, 1, 2)], 'swap': [(a, b) for a in small for b in small],
    'nested': [(l,) for l in lists], 'guard_match': [(c, d) for c in small for d in small], 'set_update': [(l, m) for l in lists for m in lists], 'native_iter': [(l,) for l in lists], 'fsets': [(l,) for l in lists + [(1, 2, 4, 5, 1, 2), (3, 0, 0, 3, 6, 9)]], 'sorted_key': [(l,) for l in lists],
}


def plain(I, ctx, v):
    if isinstance(v, (int, str, bool)) or v is None:
        return v
    if isinstance(v, z3.ExprRef):
        s = z3.simplify(v)
        if z3.is_int_value(s):
            return s.as_long()
        if z3.is_true(s) or z3.is_false(s):
            return z3.is_true(s)
        raise ValueError(f'not concrete: {v}')
    return tuple(plain(I, ctx, x) for x in models.to_seq(I, ctx, v))


bad = 0
total = 0
for name, cases in CASES.items():
    for args in cases:
        total += 1
        try:
            want = getattr(S, name)(*args)
        except Exception as e:   # noqa
            want = ('raises', type(e).__name__)
        I = Interp(src)
        ctx = Ctx()
        ctx.exits = []
        try:
            v = I.call_func(ctx, src.func('syntax_subjects.' + name), list(args), {})
            if ctx.dead:
                ex = [e for e in ctx.exits if e.kind == 'raise']
                got = ('raises', ex[0].value.cls.__name__) if ex else ('dead',)
            else:
                got = plain(I, ctx, v)
        except Exception as e:   # noqa
            got = ('pyvc-error', f'{type(e).__name__}: {e}')
        if got != want:
            bad += 1
            print('MISMATCH', name, args, 'pyvc:', got, 'CPython:', want)
print(f'{total} runs, mismatches: {bad}')
sys.exit(1 if bad else 0)

"""Cross-checks of builtin models of pyvc against CPython over exhaustive small domains (run by hand after changing a model:
`PYTHONPATH=/repo:/verif python3-vt tools/selftest/run.py`).  Not part of any registered check."""
import collections
import os
import sys
import z3

HERE = os.path.dirname(os.path.abspath(__file__))
sys.path.insert(0, HERE)
open(os.path.join(HERE, 'subjects.py'), 'w').write('''
import collections
def rot(xs, r):
    d = collections.deque(xs)
    d.rotate(r)
    return tuple(d)
def sl(xs, a, b):
    return tuple(xs[a:b])
def pre(xs, b):
    return tuple(xs[:b])
def srt(xs, a):
    return tuple(sorted(xs, reverse=True)) if a % 2 else tuple(sorted(xs))
def srtlex(xs, a):
    out = sorted((x % 3, i) for i, x in enumerate(xs) if x != a)
    return tuple(i for _, i in out)
def enum(xs, a):
    out = []
    for i, v in enumerate(xs, a):
        out.append(i * 100 + v)
    return tuple(out)
''')
from pyvc.runner import source
from pyvc.core import Ctx
from pyvc.interp import Interp
from pyvc.values import SymSeq
from pyvc import models

src = source(['subjects'])
cap = 4
xs = [z3.Int(f'x{i}') for i in range(cap)]
n, a, b = z3.Int('n'), z3.Int('a'), z3.Int('b')
bad = 0
VALS = [10 + (i * 7) % 5 for i in range(cap)]


def concrete(out, m):
    return [m.eval(e, model_completion=True).as_long() for f_, e in zip(out.flags, out.slots)
            if z3.is_true(m.eval(f_ if not isinstance(f_, bool) else z3.BoolVal(f_), model_completion=True))]


for fn, args, ranges, ref in (
        ('rot', [a], lambda: [(aa, 0) for aa in range(-6, 7)], lambda l, aa, bb: (lambda d: (d.rotate(aa), list(d))[1])(collections.deque(l))),
        ('sl', [a, b], lambda: [(aa, bb) for aa in range(-6, 7) for bb in range(-6, 7)], lambda l, aa, bb: l[aa:bb]),
        ('pre', [b], lambda: [(0, bb) for bb in range(-6, 7)], lambda l, aa, bb: l[:bb]),
        ('srt', [a], lambda: [(aa, 0) for aa in (0, 1)], lambda l, aa, bb: sorted(l, reverse=bool(aa % 2))),
        ('srtlex', [a], lambda: [(aa, 0) for aa in (10, 11, 12, 99)], lambda l, aa, bb: [i for _, i in sorted((x % 3, i) for i, x in enumerate(l) if x != aa)]),
        ('enum', [a], lambda: [(aa, 0) for aa in range(-3, 4)], lambda l, aa, bb: [i * 100 + v for i, v in enumerate(l, aa)])):
    I = Interp(src)
    ctx = Ctx()
    ctx.assume(z3.And(n >= 0, n <= cap))
    v = I.call_func(ctx, src.func('subjects.' + fn), [SymSeq(xs, n)] + args, {})
    out = models.to_seq(I, ctx, v)
    for ln in range(cap + 1):
        for aa, bb in ranges():
            s = z3.Solver()
            s.add(ctx.pc, n == ln, a == aa, b == bb, *[xs[i] == VALS[i] for i in range(cap)])
            assert s.check() == z3.sat
            got = concrete(out, s.model())
            want = list(ref([VALS[i] for i in range(ln)], aa, bb))
            if got != want:
                bad += 1
                print('MISMATCH', fn, ln, aa, bb, got, want)
print('mismatches:', bad)
sys.exit(1 if bad else 0)

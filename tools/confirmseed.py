"""Confirm a candidate property-breaking change and file it under /verif/seeded/<id>.

    python3 tools/confirmseed.py <candidate-dir> <id> <property> <round>

<candidate-dir> holds patch.diff, demo.py, notes.txt (written by a fresh sub-agent in its own worktree).  In a
fresh scratch worktree of /repo HEAD (under /tmp, removed afterwards): the demo must exit 0 on the unchanged
tree and non-zero with the patch, and the pinned suite must pass with the patch.  Only then is seeded/<id>/ written.
"""
import json, os, shutil, subprocess, sys, tempfile
ROOT = os.path.dirname(os.path.dirname(os.path.abspath(__file__)))


def main():
    cand, sid, prop, rnd = sys.argv[1:5]
    wt = tempfile.mkdtemp(prefix=f'confirm_{sid}_', dir='/tmp')
    os.rmdir(wt)
    try:
        subprocess.run(['git', '-C', '/repo', 'worktree', 'add', '--detach', wt, 'HEAD'], capture_output=True, check=True)
        os.makedirs(os.path.join(wt, '_mut'))
        shutil.copy(os.path.join(cand, 'demo.py'), os.path.join(wt, '_mut', 'demo.py'))
        env = dict(os.environ, PYTHONDONTWRITEBYTECODE='1')
        d0 = subprocess.run(['/venv/bin/python', '_mut/demo.py'], cwd=wt, capture_output=True, text=True, env=env, timeout=1800)
        r = subprocess.run(['git', '-C', wt, 'apply', os.path.join(cand, 'patch.diff')], capture_output=True, text=True)
        if r.returncode != 0:
            print(sid, 'REJECTED: patch does not apply', r.stderr[:300])
            return 1
        d1 = subprocess.run(['/venv/bin/python', '_mut/demo.py'], cwd=wt, capture_output=True, text=True, env=env, timeout=1800)
        if d0.returncode != 0 or d1.returncode == 0:
            print(sid, f'REJECTED: demo exits {d0.returncode} unchanged / {d1.returncode} changed')
            print(d0.stdout[-500:], d0.stderr[-500:])
            return 1
        s = subprocess.run(['/venv/bin/python', '-m', 'pytest', '-q', '-p', 'no:cacheprovider', '--timeout=900', 'pokerkit'],
                           cwd=wt, capture_output=True, text=True, env=env)
        summary = [l for l in s.stdout.splitlines() if ' passed' in l or ' failed' in l or 'error' in l.lower()][-1:]
        if s.returncode != 0:
            print(sid, 'REJECTED: suite fails with the change', summary)
            return 1
        dst = os.path.join(ROOT, 'seeded', sid)
        os.makedirs(dst, exist_ok=True)
        shutil.copy(os.path.join(cand, 'patch.diff'), os.path.join(dst, 'patch.diff'))
        shutil.copy(os.path.join(cand, 'demo.py'), os.path.join(dst, 'demo.py'))
        notes = open(os.path.join(cand, 'notes.txt')).read() if os.path.exists(os.path.join(cand, 'notes.txt')) else ''
        meta = {
            'id': sid, 'property': prop, 'what': notes.strip(), 'needs_to_manifest': notes.strip(), 'round': int(rnd),
            'origin': 'written by a fresh sub-agent given only the property text and its own scratch worktree (nothing from /verif)',
            'confirmed_by_me': {
                'procedure': 'tools/confirmseed.py: scratch worktree of /repo HEAD under /tmp; demo on unchanged tree; git apply patch.diff; demo; pinned suite `/venv/bin/python -m pytest -q -p no:cacheprovider --timeout=900 pokerkit`; worktree removed',
                'demo_exit_unchanged': d0.returncode, 'demo_exit_with_change': d1.returncode,
                'demo_output_with_change': (d1.stdout + d1.stderr)[-600:],
                'suite_with_change': summary[0] if summary else '',
            },
            'demo': 'run from the root of a tree with the patch applied: /venv/bin/python demo.py (the demo puts the current directory first on sys.path)',
        }
        json.dump(meta, open(os.path.join(dst, 'meta.json'), 'w'), indent=1)
        print(sid, 'CONFIRMED', summary)
        return 0
    finally:
        subprocess.run(['git', '-C', '/repo', 'worktree', 'remove', '--force', wt], capture_output=True)
        shutil.rmtree(wt, ignore_errors=True)


if __name__ == '__main__':
    sys.exit(main())

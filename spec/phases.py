"""The documented order of the phases of a hand (C07), from docs/simulation.rst and the property statement:

    ante posting -> bet collection -> blind/straddle posting -> [ per street: dealing -> betting -> bet collection ]
    -> showdown -> hand killing -> chips pushing -> chips pulling -> (hand over)

with these shortcuts: when all but one player have folded (or mucked at the showdown) the hand goes from bet
collection (from the showdown) straight to chips pushing; when the players are all-in the showdown takes place at once and the remaining streets are
dealt without betting ("all-in run-out": showdown -> dealing), possibly several times (run-outs).
"""

SUCCESSORS = {
    'ante_posting': {'bet_collection'},
    'bet_collection': {'blind_or_straddle_posting', 'dealing', 'showdown', 'chips_pushing'},
    'blind_or_straddle_posting': {'dealing'},
    'dealing': {'betting'},
    'betting': {'bet_collection'},
    'showdown': {'dealing', 'hand_killing', 'chips_pushing'},
    'hand_killing': {'chips_pushing'},
    'chips_pushing': {'chips_pulling'},
    'chips_pulling': set(),          # the hand is over
}
FIRST = 'ante_posting'


def after_bet_collection(lone_survivor, before_first_street, last_street, all_in):
    """where the hand goes once the bets are collected"""
    if lone_survivor:
        return 'chips_pushing'
    if before_first_street:
        return 'blind_or_straddle_posting'
    if last_street or all_in:
        return 'showdown'
    return 'dealing'


def after_showdown(all_in, last_street, lone_survivor):
    """a lone survivor (everybody else mucked) takes the pots at once; an all-in run-out deals the remaining streets; otherwise
    hands that cannot win are killed"""
    if lone_survivor:
        return 'chips_pushing'
    return 'dealing' if (all_in and not last_street) else 'hand_killing'

"""The betting rules (C03), written from the property statement and the rules of poker -- not from
the code.  Everything is a pure function of explicit per-player vectors and a few scalars:

    live[i]      player i is still in the hand            stack[i]   chips behind
    bet[i]       chips in front of player i this round    a          the player to act

`largest` is the largest bet or raise (as an increment) made so far in this round, `count` the number
of bets/raises made so far, `cap` the per-street cap (None = no cap), `street_min` the street's minimum
bet, `completing` whether a posted bring-in may still be completed (then a completion is to the street
minimum, not by it), `short` the all-in raises made since the last full raise, `acted` the players
who have acted since the last full raise.
"""


def call_amount(stack, bet, a):
    """a check/call costs min(stack, amount to match)"""
    to_match = max(bet) - bet[a]
    return stack[a] if stack[a] < to_match else to_match


def bring_in_amount(stack, bring_in, a):
    return stack[a] if stack[a] < bring_in else bring_in


def effective_stack(live, stack, bet, a):
    """what player a can usefully wager: his stack, but no more than the second largest total among the
    players still in the hand allows him to be called for"""
    totals = sorted(bet[i] + stack[i] for i in range(len(live)) if live[i])
    room = totals[-2] - bet[a]
    room = room if room > 0 else 0
    return stack[a] if stack[a] < room else room


def min_raise_to(live, stack, bet, a, street_min, largest, completing):
    """at least the larger of the street minimum and the largest raise so far, on top of the bet to match
    (a completion of the bring-in is TO that amount) -- or all-in for less"""
    step = largest if largest > street_min else street_min
    full = step + (0 if completing else max(bet))
    allin = effective_stack(live, stack, bet, a) + bet[a]
    return allin if allin < full else full


def pot_raise_to(live, stack, bet, a, street_min, largest, completing, total_pot):
    """the pot-sized raise: call, then raise by the pot as it stands after the call -- at least the minimum,
    at most all-in"""
    mn = min_raise_to(live, stack, bet, a, street_min, largest, completing)
    pot = 2 * max(bet) - bet[a] + total_pot
    want = mn if mn > pot else pot
    allin = stack[a] + bet[a]
    return allin if allin < want else want


def max_raise_to(structure, live, stack, bet, a, street_min, largest, completing, total_pot):
    """'no-limit': the stack; 'pot-limit': the pot-sized raise; 'fixed-limit': exactly the minimum"""
    if structure == 'fixed-limit':
        return min_raise_to(live, stack, bet, a, street_min, largest, completing)
    if structure == 'pot-limit':
        return pot_raise_to(live, stack, bet, a, street_min, largest, completing, total_pot)
    return stack[a] + bet[a]


def raise_refused(live, stack, bet, a, count, cap, largest, short, acted_a):
    """a bet or raise is refused after the per-street cap, when the player is already covered, when nobody
    else could call more, and -- after all-in raises that do not add up to a full raise -- to a player who
    has already acted"""
    capped = cap is not None and count == cap
    reopened = len(short) == 0 or sum(short) >= largest
    covered = stack[a] <= max(bet) - bet[a]
    nobody = not any(i != a and live[i] and stack[i] + bet[i] > max(bet) for i in range(len(live)))
    return capped or (not reopened and acted_a) or covered or nobody


def clockwise_from(n, first):
    return tuple((first + k) % n for k in range(n))


def queue_after_raise(live, stack, raiser):
    """action proceeds clockwise from the raiser over everyone else who is in the hand and not all-in"""
    n = len(live)
    return tuple(i for i in clockwise_from(n, (raiser + 1) % n) if i != raiser and live[i] and stack[i] > 0)

"""What each predefined variant is (C11), written from the class names and docs/simulation.rst
("Fixed-limit badugi", "seven card stud: down down up, up, up, up, down", button games take blinds,
stud games a bring-in, fixed-limit games small/big bets and at most four bets/raises per round ...).

street = (burn, hole facings, board cards, draw, opening, bet size name, cap)
"""
DOWN, UP = False, True


def holdem_streets(hole, bet0, bet1, cap):
    return (
        (False, (DOWN,) * hole, 0, False, 'Position', bet0, cap),      # pre-flop
        (True, (), 3, False, 'Position', bet0, cap),                   # flop
        (True, (), 1, False, 'Position', bet1, cap),                   # turn
        (True, (), 1, False, 'Position', bet1, cap),                   # river
    )


def stud_streets(low, cap):
    card, hand = ('High card', 'Low hand') if low else ('Low card', 'High hand')
    return (
        (False, (DOWN, DOWN, UP), 0, False, card, 'small', cap),       # third street: bring-in by the lowest (razz: highest) up card
        (True, (UP,), 0, False, hand, 'small', cap),
        (True, (UP,), 0, False, hand, 'big', cap),
        (True, (UP,), 0, False, hand, 'big', cap),
        (True, (DOWN,), 0, False, hand, 'big', cap),
    )


def draw_streets(hole, draws, bets, cap):
    out = [(False, (DOWN,) * hole, 0, False, 'Position', bets[0], cap)]
    for k in range(draws):
        out.append((True, (), 0, True, 'Position', bets[k + 1], cap))
    return tuple(out)


FL, PL, NL = 'Fixed-limit', 'Pot-limit', 'No-limit'

VARIANTS = {
    # class name: deck, hand types, streets, betting structure, forced bets ('blinds' | 'bring-in')
    'FixedLimitTexasHoldem': ('STANDARD', ('StandardHighHand',), holdem_streets(2, 'small', 'big', 4), FL, 'blinds'),
    'NoLimitTexasHoldem': ('STANDARD', ('StandardHighHand',), holdem_streets(2, 'min', 'min', None), NL, 'blinds'),
    'NoLimitRoyalHoldem': ('ROYAL_POKER', ('StandardHighHand',), holdem_streets(2, 'min', 'min', None), NL, 'blinds'),
    'NoLimitShortDeckHoldem': ('SHORT_DECK_HOLDEM', ('ShortDeckHoldemHand',), holdem_streets(2, 'min', 'min', None), NL, 'blinds'),
    'PotLimitOmahaHoldem': ('STANDARD', ('OmahaHoldemHand',), holdem_streets(4, 'min', 'min', None), PL, 'blinds'),
    'FixedLimitOmahaHoldemHighLowSplitEightOrBetter': ('STANDARD', ('OmahaHoldemHand', 'OmahaEightOrBetterLowHand'),
                                                       holdem_streets(4, 'small', 'big', 4), FL, 'blinds'),
    'FixedLimitSevenCardStud': ('STANDARD', ('StandardHighHand',), stud_streets(False, 4), FL, 'bring-in'),
    'FixedLimitSevenCardStudHighLowSplitEightOrBetter': ('STANDARD', ('StandardHighHand', 'EightOrBetterLowHand'),
                                                         stud_streets(False, 4), FL, 'bring-in'),
    'FixedLimitRazz': ('REGULAR', ('RegularLowHand',), stud_streets(True, 4), FL, 'bring-in'),
    'NoLimitDeuceToSevenLowballSingleDraw': ('STANDARD', ('StandardLowHand',), draw_streets(5, 1, ('min', 'min'), None), NL, 'blinds'),
    'FixedLimitDeuceToSevenLowballTripleDraw': ('STANDARD', ('StandardLowHand',),
                                                draw_streets(5, 3, ('small', 'small', 'big', 'big'), 4), FL, 'blinds'),
    'FixedLimitBadugi': ('REGULAR', ('BadugiHand',), draw_streets(4, 3, ('small', 'small', 'big', 'big'), 4), FL, 'blinds'),
}

DECK_SIZES = {'STANDARD': 52, 'SHORT_DECK_HOLDEM': 36, 'REGULAR': 52, 'KUHN_POKER': 3, 'ROYAL_POKER': 20}

# PHH variant codes (docs/notation.rst) -> class name
PHH_CODES = {
    'FT': 'FixedLimitTexasHoldem', 'NT': 'NoLimitTexasHoldem', 'NS': 'NoLimitShortDeckHoldem', 'PO': 'PotLimitOmahaHoldem',
    'FO/8': 'FixedLimitOmahaHoldemHighLowSplitEightOrBetter', 'F7S': 'FixedLimitSevenCardStud',
    'F7S/8': 'FixedLimitSevenCardStudHighLowSplitEightOrBetter', 'FR': 'FixedLimitRazz',
    'N2L1D': 'NoLimitDeuceToSevenLowballSingleDraw', 'F2L3D': 'FixedLimitDeuceToSevenLowballTripleDraw', 'FB': 'FixedLimitBadugi',
}


def street_matches(street, spec, small_bet, big_bet, min_bet):
    burn, facings, board, draw, opening, bet, cap = spec
    amount = {'small': small_bet, 'big': big_bet, 'min': min_bet}[bet]
    return (street.card_burning_status == burn and tuple(street.hole_dealing_statuses) == facings
            and street.board_dealing_count == board and street.draw_status == draw
            and street.opening.value == opening and street.min_completion_betting_or_raising_amount == amount
            and street.max_completion_betting_or_raising_count == cap)

"""Meaning of the ways of writing a chip layout (C19), written from the property statement and
docs/simulation.rst -- not from the code.

A layout for n players denotes the explicit per-player vector:
  * a single number x          -> (x, x, ..., x)
  * a list / tuple             -> its first n entries; missing entries are 0
  * a mapping position->amount -> entry i is the sum of the amounts whose position denotes seat i, a
                                  negative position p denoting seat n + p (counting from the button);
                                  missing entries are 0
"""


def vector_of_number(x, n):
    return tuple(x for _ in range(n))


def vector_of_sequence(xs, n):
    return tuple(xs[i] if i < len(xs) else 0 for i in range(n))


def seat_of(position, n):
    return position if position >= 0 else n + position


def vector_of_mapping(items, n):
    """items: the (position, amount) pairs of the mapping"""
    return tuple(sum(amount for position, amount in items if seat_of(position, n) == i) for i in range(n))


def invalid_layout(antes, blinds_or_straddles, starting_stacks, bring_in, player_count, first_street_min_bet,
                   streets_ok, starting_board_count):
    """layouts that must be rejected at construction (statement: negative antes [or bring-in],
    non-positive stacks, blinds together with a bring-in, no forced bet at all, fewer than two players;
    documentation of State: empty street list / first street without hole cards, a bring-in not below the
    first street's minimum bet, a non-positive number of boards)"""
    return (not streets_ok
            or any(a < 0 for a in antes) or bring_in < 0
            or (not any(a != 0 for a in antes) and not any(b != 0 for b in blinds_or_straddles) and bring_in == 0)
            or any(x <= 0 for x in starting_stacks)
            or (any(b != 0 for b in blinds_or_straddles) and bring_in != 0)
            or bring_in >= first_street_min_bet
            or player_count < 2
            or starting_board_count <= 0)

"""Dealing follows the street definitions (C10), written from the property statement.

A street prescribes: whether a card is burnt first, the facings of the hole cards each player still in
the hand receives (True = face up), the number of board cards per board, and whether it is a draw round.
"""


def invalid_street(burn, hole_facings, board_count, draw, min_bet, cap):
    """a street definition is rejected when it deals a negative number of board cards, deals nothing at all, combines
    hole dealing with a draw, has a non-positive minimum bet or a negative cap"""
    return (board_count < 0 or (len(hole_facings) == 0 and board_count == 0 and not draw) or (len(hole_facings) > 0 and draw)
            or min_bet <= 0 or (cap is not None and cap < 0))


def hole_cards_needed(live, hole_facings):
    return sum(1 for x in live if x) * len(hole_facings)


def default_dealee(due_counts):
    """by default hole cards go out in position order, one card per round: the player with most cards still due, the
    lowest position first; None when nobody is due a card"""
    best = None
    for i in range(len(due_counts)):
        if due_counts[i] > 0 and (best is None or due_counts[i] > due_counts[best]):
            best = i
    return best

"""Multiple run-outs and multiple boards (C14), written from the property statement.

b = number of starting boards, r = agreed number of run-outs.  `rows[p]` is the list of the cards dealt
at board-card position p (flop 0..2, turn 3, river 4 in hold'em), in dealing order; `mid` is the number
of positions dealt before the all-in.
"""


def combine(agreed, preference):
    """the agreed number of run-outs after one more player has spoken: a preference of None is no preference; the
    hand is run k times only if all who expressed a preference said k, otherwise once"""
    if preference is None:
        return agreed
    if agreed is None:
        return preference
    return agreed if agreed == preference else 1


def offered(cash_game, already_offered, later_board_counts):
    """a choice is offered only in cash-game mode, once, and only if community cards are still to come"""
    return cash_game and not already_offered and any(c > 0 for c in later_board_counts)


def board_count(b, r, runouts_scheduled):
    return b * r if runouts_scheduled else b


def board(rows, j, r, mid, runouts_scheduled):
    """the cards of board j: the r run-outs of starting board s are the boards s*r .. s*r+r-1; they share the cards
    dealt to s before the all-in (positions < mid) and each has its own later cards"""
    out = []
    for p in range(len(rows)):
        k = (j // r) if (runouts_scheduled and p < mid) else j
        if k < len(rows[p]):
            out.append(rows[p][k])
    return tuple(out)

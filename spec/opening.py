"""Who opens a betting round (C13), written from the property statement -- not from the code.

Seats are numbered in position order after the button: seat 0 acts first on later streets, seat n-1 is
the button.  `entries` is the blinds/straddles layout as configured (entry k > 0: a blind or straddle,
entry k < 0: a post by a late-seated player, which does not count); heads-up the first entry (small
blind) is posted by the button, seat 1, and the second by seat 0.
"""


def poster_seat(k, n):
    """the seat that posts entry k"""
    return 1 - k if n == 2 else k


def start_seat_button_game(entries, n, first_round):
    """button games: the first round is opened by the player after the last blind or straddle; later rounds
    (and a first round without blinds) by the first player after the button"""
    if not first_round:
        return 0
    last = -1
    for k in range(n):
        if entries[k] > 0 and poster_seat(k, n) > last:
            last = poster_seat(k, n)
    return (last + 1) % n if last >= 0 else 0


def able(live, stack, eff, i):
    """still able to act: in the hand, with chips, and somebody could call a wager of his"""
    return live[i] and stack[i] > 0 and eff[i] > 0


def first_able_clockwise(live, stack, eff, start):
    """a designated opener who cannot act passes the turn clockwise; None when nobody can act"""
    n = len(live)
    for k in range(n):
        i = (start + k) % n
        if able(live, stack, eff, i):
            return i
    return None


def queue_from(live, stack, eff, start):
    n = len(live)
    return tuple((start + k) % n for k in range(n) if able(live, stack, eff, (start + k) % n))


def card_below(a, b):
    """(rank position, suit position) a strictly below b: ranks first, suits break ties (clubs < diamonds < hearts < spades)"""
    return a[0] < b[0] or (a[0] == b[0] and a[1] < b[1])


def lowest_card_seat(keys):
    """keys[i]: list of (rank position, suit position) of seat i's exposed cards (empty when he has none).
    The seat holding the lowest exposed card (all cards are distinct); None if nobody shows a card."""
    best, seat = None, None
    for i in range(len(keys)):
        for k in keys[i]:
            if best is None or card_below(k, best):
                best, seat = k, i
    return seat


def highest_card_seat(keys):
    best, seat = None, None
    for i in range(len(keys)):
        for k in keys[i]:
            if best is None or card_below(best, k):
                best, seat = k, i
    return seat


def best_hand_seat(strengths, want_high):
    """strengths[i]: strength of seat i's exposed hand (None: no exposed hand).  The best exposed hand opens
    (lowest in razz); ties go to the earliest position."""
    best, seat = None, None
    for i in range(len(strengths)):
        v = strengths[i]
        if v is not None and (best is None or (v > best if want_high else v < best)):
            best, seat = v, i
    return seat

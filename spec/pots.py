"""How a pot is awarded at showdown (C02, C18), written from the property statement.

Per board and per hand type IN PLAY -- a type for which at least one contender holds a hand -- the
pot (or its share) goes to the holder(s) of the strongest hand, ties sharing equally.  A hand type
nobody qualifies for (e.g. no qualifying low) gets no part: the remaining types divide the pot.
"""


def showdown_split(hands_by_type, player_count):
    """shares of ONE pot contested by all players: hands_by_type[t][i] is player i's hand of type t
    (None = no hand).  Returns the per-player fractions (they sum to 1 when some type is in play)."""
    in_play = [hands for hands in hands_by_type if any(h is not None for h in hands)]
    shares = [0 for _ in range(player_count)]
    for hands in in_play:
        winners = [i for i in range(player_count)
                   if hands[i] is not None and all(h is None or h <= hands[i] for h in hands)]
        for i in winners:
            shares[i] = shares[i] + 1 / (len(in_play) * len(winners))
    return shares

"""How the pots are formed and awarded (C02, C18), written from the property statement.

Forming (side pots).  c[i] is what player i has in the pot(s) (collected chips, net of an untrimmed ante:
untrimmed antes are one common layer every live player contends for), p[i] the same plus what is
still in front of him.  The statement's rules -- every chip goes to a player still in the hand who
contributed at least up to the level of the pot the chip belongs to; nobody wins from an opponent more
than he himself put in -- say, for a player j still in the hand, exactly how much he contends for:

        stake(j)  =  sum_i  min(c[i], p[j])   (+ the ante layer)

Awarding.  Per board and per hand type IN PLAY -- a type for which at least one contender of THAT pot
holds a hand -- the pot's share goes to the holder(s) of the strongest hand among its contenders, ties
sharing equally with the odd chips to the earliest position.  A hand type no contender qualifies for
(e.g. no qualifying low) gets no part: the remaining types divide the share.
"""


def stake(c, p, j, ante_layer):
    """what player j contends for"""
    return sum(c[i] if c[i] < p[j] else p[j] for i in range(len(c))) + ante_layer


def divide(amount, k):
    """amount split in k equal parts, the odd chips going to the first part (integers; exact division otherwise)"""
    q = amount // k
    return tuple(q + (amount - q * k if i == 0 else 0) for i in range(k))


def types_in_play(hands_of_type, contenders):
    """hands_of_type[t][i]: player i's hand of type t or None"""
    return tuple(t for t in range(len(hands_of_type)) if any(hands_of_type[t][i] is not None for i in contenders))


def winners(hands, contenders):
    """the contenders holding the strongest hand (when nobody holds one: all of them -- cannot happen for a type in play)"""
    held = [hands[i] for i in contenders if hands[i] is not None]
    if not held:
        return tuple(contenders)
    best = held[0]
    for h in held:
        if h > best:
            best = h
    return tuple(i for i in contenders if hands[i] is not None and not (hands[i] < best))


def award(amount, hands, contenders, n):
    """per-player vector of what one (sub-)pot pays: equal shares, odd chips to the earliest position"""
    w = winners(hands, contenders)
    parts = divide(amount, len(w))
    return tuple(sum(parts[k] for k in range(len(w)) if w[k] == i) for i in range(n))


def showdown_split(hands_by_type, player_count):
    """shares of ONE pot contested by all players: hands_by_type[t][i] is player i's hand of type t
    (None = no hand).  Returns the per-player fractions (they sum to 1 when some type is in play)."""
    in_play = [hands for hands in hands_by_type if any(h is not None for h in hands)]
    shares = [0 for _ in range(player_count)]
    for hands in in_play:
        winners_ = [i for i in range(player_count)
                    if hands[i] is not None and all(h is None or h <= hands[i] for h in hands)]
        for i in winners_:
            shares[i] = shares[i] + 1 / (len(in_play) * len(winners_))
    return shares

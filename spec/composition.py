"""Which card combinations a game allows a hand to be made from (C05), written from the property statement.

Cards are abstract distinct atoms here; `hole` and `board` are tuples of them.  A *candidate* is a
tuple of cards that the composition rule allows; whether it is a valid hand of the type, and how strong,
is the hand type's business (C04).  The evaluated hand must be the strongest valid candidate; no hand is
reported exactly when no candidate is valid.
"""
import itertools


def any_five(hole, board, k=5):
    """standard games: any k of the cards"""
    return tuple(itertools.combinations(tuple(hole) + tuple(board), k))


def both_hole_plus_three_board(hole, board):
    """Greek hold'em: both hole cards plus three board cards"""
    return tuple(tuple(hole) + b for b in itertools.combinations(tuple(board), 3))


def two_hole_plus_three_board(hole, board):
    """Omaha (high and eight-or-better low): exactly two hole cards plus three board cards"""
    return tuple(h + b for h in itertools.combinations(tuple(hole), 2) for b in itertools.combinations(tuple(board), 3))


def subsets_of_size(hole, board, k):
    return tuple(itertools.combinations(tuple(hole) + tuple(board), k))


def single_cards(hole, board):
    return tuple((c,) for c in tuple(hole) + tuple(board))

"""Independent statement of the hand-ranking rules (C04, C05, C13), written from the rules of the
games as the property statements and docs/ give them -- NOT from pokerkit's lookup code.

A hand is described by its rank characters and whether all its cards share one suit.
`strength(...)` returns a tuple that compares like the hand's *high* value in that game (bigger is a
better high hand); low games reverse the comparison.  `None` / ValueError = not a hand of that type.
"""
from collections import Counter
from itertools import combinations

STD = '23456789TJQKA'       # ace high
SHORT = '6789TJQKA'         # short-deck (six-plus)
REG = 'A23456789TJQK'       # ace low ("regular" order of ace-to-five / badugi / razz)
EIGHT = 'A2345678'          # ranks that may appear in an eight-or-better low
KUHN = 'JQK'
ROYAL = 'TJQKA'


def shape(ranks, order):
    """multiplicities (descending) and the ranks ordered by (multiplicity, rank) descending"""
    c = Counter(ranks)
    groups = sorted(((cnt, order.index(r)) for r, cnt in c.items()), reverse=True)
    return tuple(g[0] for g in groups), tuple(g[1] for g in groups)


def straight_high(ranks, order):
    """index (in `order`) of the top card of a five-card straight, None if not a straight.  The ace
    may play low: A-2-3-4-5 in a 52-card deck, A-6-7-8-9 in short-deck; its top card is then the
    fourth-lowest rank."""
    idx = sorted(order.index(r) for r in ranks)
    if len(set(idx)) != 5:
        return None
    if idx[-1] - idx[0] == 4:
        return idx[-1]
    if 'A' in order:
        ai = order.index('A')
        low4 = [i for i in range(len(order)) if i != ai][:4]
        if idx == sorted(low4 + [ai]):
            return low4[-1]
    return None


def high_value(ranks, suited, order, flush_beats_full_house=False, straights=True, flushes=True):
    """five-card poker value: straight flush > quads > full house > flush > straight > trips >
    two pair > pair > high card (flush above full house in short-deck); kickers by multiplicity then rank"""
    if len(ranks) != 5 or any(r not in order for r in ranks):
        raise ValueError('not five cards of this deck')
    mult, rk = shape(ranks, order)
    if mult[0] > 4:
        raise ValueError('five of a kind')
    if suited and mult != (1, 1, 1, 1, 1):
        raise ValueError('a suited hand cannot contain a pair')
    sh = straight_high(ranks, order) if straights else None
    fl = suited and flushes
    if sh is not None and fl:
        return (8, sh)
    if mult == (4, 1):
        return (7,) + rk
    full_house, flush = (6, 5) if not flush_beats_full_house else (5, 6)
    if mult == (3, 2):
        return (full_house,) + rk
    if fl:
        return (flush,) + rk
    if sh is not None:
        return (4, sh)
    if mult == (3, 1, 1):
        return (3,) + rk
    if mult == (2, 2, 1):
        return (2,) + rk
    if mult == (2, 1, 1, 1):
        return (1,) + rk
    return (0,) + rk


CATEGORY = {8: 'Straight flush', 7: 'Four of a kind', 4: 'Straight', 3: 'Three of a kind', 2: 'Two pair',
            1: 'One pair', 0: 'High card'}


def category(value, flush_beats_full_house=False):
    k = value[0]
    if k in CATEGORY:
        return CATEGORY[k]
    if flush_beats_full_house:
        return {5: 'Full house', 6: 'Flush'}[k]
    return {6: 'Full house', 5: 'Flush'}[k]


def badugi_value(ranks, rainbow, order):
    """badugi: 1-4 cards of distinct ranks and distinct suits; more cards first, then the lower the
    highest card the better (compared from the top card down).  Returned as a *high* value of the
    reversed game: bigger tuple = better badugi."""
    if not 1 <= len(ranks) <= 4 or any(r not in order for r in ranks):
        raise ValueError('not a badugi hand')
    if len(set(ranks)) != len(ranks) or not rainbow:
        raise ValueError('paired or suited')
    return (len(ranks),) + tuple(-x for x in sorted((order.index(r) for r in ranks), reverse=True))


def eight_or_better_value(ranks, order=EIGHT):
    """qualifying low: five distinct ranks, none above eight, ace low, straights and flushes ignored;
    as a high value of the reversed game (bigger = better low)"""
    if len(ranks) != 5 or len(set(ranks)) != 5 or any(r not in order for r in ranks):
        raise ValueError('no qualifying low')
    return tuple(-x for x in sorted((order.index(r) for r in ranks), reverse=True))


# name of hand class -> (deck ranks, function (ranks, suited, rainbow) -> value where BIGGER = BETTER hand of that
# type, i.e. low games are already reversed)
def _neg(t):
    return tuple(-x for x in t)


HAND_TYPES = {
    'StandardHighHand': (STD, lambda r, s, rb: high_value(r, s, STD)),
    'GreekHoldemHand': (STD, lambda r, s, rb: high_value(r, s, STD)),
    'OmahaHoldemHand': (STD, lambda r, s, rb: high_value(r, s, STD)),
    'StandardLowHand': (STD, lambda r, s, rb: _neg(high_value(r, s, STD))),            # deuce-to-seven: ace high, straights/flushes count
    'ShortDeckHoldemHand': (SHORT, lambda r, s, rb: high_value(r, s, SHORT, flush_beats_full_house=True)),
    'RegularLowHand': (REG, lambda r, s, rb: _neg(high_value(r, False, REG, straights=False, flushes=False))),   # ace-to-five / razz
    'EightOrBetterLowHand': (REG, lambda r, s, rb: eight_or_better_value(r)),
    'OmahaEightOrBetterLowHand': (REG, lambda r, s, rb: eight_or_better_value(r)),
    'BadugiHand': (REG, lambda r, s, rb: badugi_value(r, rb, REG)),                     # ace low
    'StandardBadugiHand': (STD, lambda r, s, rb: badugi_value(r, rb, STD)),             # ace high
    'KuhnPokerHand': (KUHN, lambda r, s, rb: (KUHN.index(r[0]),) if len(r) == 1 and r[0] in KUHN else _raise()),
}
CARD_COUNTS = {'BadugiHand': (1, 2, 3, 4), 'StandardBadugiHand': (1, 2, 3, 4), 'KuhnPokerHand': (1,)}
LOW = {'StandardLowHand', 'RegularLowHand', 'EightOrBetterLowHand', 'OmahaEightOrBetterLowHand', 'BadugiHand',
       'StandardBadugiHand'}


def _raise():
    raise ValueError('not a hand')


def hand_value(type_name, cards):
    """cards: iterable of (rank char, suit char).  Value (bigger = better for that type) or None."""
    cards = tuple(cards)
    order, fn = HAND_TYPES[type_name]
    sizes = CARD_COUNTS.get(type_name, (5,))
    if len(cards) not in sizes or len(set(cards)) != len(cards):
        return None
    if any(r == '?' or s == '?' for r, s in cards):
        return None
    ranks = tuple(r for r, _ in cards)
    suits = [s for _, s in cards]
    suited = len(set(suits)) == 1
    rainbow = len(set(suits)) == len(suits)
    try:
        return fn(ranks, suited, rainbow)
    except ValueError:
        return None


# ---- stud opening hands (C13): 1-4 exposed cards, pairs/trips/quads only ------------------------------------

def opening_value(ranks, order):
    """exposed-card hand used to decide who opens a stud betting round: quads > trips > two pair >
    pair > high card, no straights or flushes; compared only between equal numbers of cards"""
    mult, rk = shape(ranks, order)
    cat = {(1,): 0, (1, 1): 0, (1, 1, 1): 0, (1, 1, 1, 1): 0, (2,): 1, (2, 1): 1, (2, 1, 1): 1, (2, 2): 2,
           (3,): 3, (3, 1): 3, (4,): 4}.get(mult)
    if cat is None:
        raise ValueError('not an opening hand')
    return (cat,) + rk


# ---- candidate sets of the composition rules (C05) ------------------------------------------------------------

def candidates(type_name, hole, board):
    hole, board = tuple(hole), tuple(board)
    if type_name in ('OmahaHoldemHand', 'OmahaEightOrBetterLowHand'):
        return [h + b for h in combinations(hole, 2) for b in combinations(board, 3)]
    if type_name == 'GreekHoldemHand':
        return [c for b in combinations(board, 3) for c in combinations(hole + b, 5)]
    if type_name in ('BadugiHand', 'StandardBadugiHand'):
        cards = hole + board
        return [c for k in (1, 2, 3, 4) for c in combinations(cards, k)]
    if type_name == 'KuhnPokerHand':
        return [(c,) for c in hole + board]
    return list(combinations(hole + board, 5))


def best_value(type_name, hole, board):
    vals = [v for v in (hand_value(type_name, c) for c in candidates(type_name, hole, board)) if v is not None]
    return max(vals) if vals else None

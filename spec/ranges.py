"""What range notation denotes (C18), written from the property statement and docs/analysis.rst --
not from pokerkit.analysis.  A hand is a frozenset of two (rank, suit) pairs."""
from itertools import combinations, product

SUITS = 'cdhs'


def combos(x, y, kind=''):
    """all two-card hands of ranks x and y: kind '' = all, 's' = suited, 'o' = offsuit.
    A pair has 6 combinations, a suited hand 4, an offsuit hand 12; XY is the disjoint union of XYs and XYo."""
    out = set()
    for s0, s1 in product(SUITS, repeat=2):
        a, b = (x, s0), (y, s1)
        if a == b:
            continue                          # a hand consists of two distinct real cards
        if kind == 's' and s0 != s1:
            continue
        if kind == 'o' and s0 == s1:
            continue
        out.add(frozenset((a, b)))
    return out


def plus(x, y, kind, order):
    """XX+ : that pair and every higher pair.   XY+ : the higher rank fixed, the kicker from the lower
    rank upwards to just below it (ATs+ = ATs, AJs, AQs, AKs)."""
    out = set()
    if x == y:
        for r in order[order.index(x):]:
            out |= combos(r, r, kind)
        return out
    i, j = sorted((order.index(x), order.index(y)))
    hi = order[j]
    for r in order[i:j]:
        out |= combos(hi, r, kind)
    return out


def interval(r0, r1, r2, r3, kind, order):
    """r0r1-r2r3: every hand between the two end points, both ranks moving in lockstep; the end points
    must be shifted copies of each other, otherwise the notation is illegal (ValueError)"""
    i0, i1, i2, i3 = (order.index(r) for r in (r0, r1, r2, r3))
    if i1 - i0 != i3 - i2:
        raise ValueError('not a shifted pair')
    if i0 > i2:
        i0, i1, i2, i3 = i2, i3, i0, i1
    out = set()
    for k in range(i2 - i0 + 1):
        out |= combos(order[i0 + k], order[i1 + k], kind)
    return out


def as_pairs(range_):
    """pokerkit frozensets of Card -> frozensets of (rank char, suit char)"""
    return {frozenset((c.rank.value, c.suit.value) for c in hand) for hand in range_}

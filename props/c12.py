"""C12 driver: the lemmas behind `automatic mucking and hand killing never cost a player chips`."""
from __future__ import annotations

import sys
import z3

from pyvc.runner import Check, source
from pyvc.shapes import Shape
from pyvc.run import verify_contract
from pyvc import cuts

EXTRA = ['spec.pots', 'contracts.engine', 'contracts.c01', 'contracts.c12']
Q = 'pokerkit.state.State.'
NAMES = ['can_win_now', 'get_hand', 'get_up_hand', 'verify_showing', 'begin_hand_killing', 'm5', 'm2']


def shapes(tier):
    if tier == 'thorough':
        return [Shape(n=2, S=2, T=2, B=2, H=2, R=2), Shape(n=3, S=2, T=2, B=1, H=2, R=2), Shape(n=3, S=2, T=1, B=2, H=2, R=2)]
    return [Shape(n=2, S=2, T=2, B=1, H=2, R=2), Shape(n=3, S=2, T=1, B=1, H=2, R=2)]


def vc_task(task):
    src = source(EXTRA)
    import contracts.c12 as c12
    import contracts.c01 as c01
    shape = Shape(**task['shape'])
    name = task['contract']
    K = getattr(c12, name)
    c = {'pokerkit.utilities.rake': cuts.rake_cut()}
    factory = None
    if name == 'begin_hand_killing':
        c[Q + '_update_hand_killing'] = cuts.havoc_cut(shape)
        # can_win_now does not read hand_killing_statuses (structural scan below): marking one player does not change the answer for the next
        c[Q + 'can_win_now'] = cuts.pure_cut('bool', ignore_fields=('hand_killing_statuses', 'operations'))
    elif name == 'verify_showing':
        c[Q + 'can_win_now'] = cuts.pure_cut('bool')
    else:
        def factory(vc):
            return {Q + 'pots': cuts.pots_cut(vc, shape, c01.pots, pre=())}
    makers = {}
    tag = f'n{shape.n}t{shape.T}b{shape.B}'
    if name in ('get_hand', 'get_up_hand'):
        makers = {'player_index': (lambda I, ctx, wf, shape, i=task['player']: i)}
        tag += f'p{task["player"]}'
        factory = None
    if name == 'can_win_now':
        # one task per concrete player (hands are uninterpreted per card structure: a symbolic index would hide which hand is meant)
        makers = {'player_index': (lambda I, ctx, wf, shape, i=task['player']: i)}
        tag += f'p{task["player"]}'
    res = verify_contract(src, K, shape, chips='int', cuts=c, cuts_factory=factory, timeout_ms=task['timeout_ms'], unwind=6,
                          keep_smt=1 if name == 'can_win_now' else 0, tag=tag, arg_makers=makers)
    for r in res['results']:
        if r['kind'] == 'safety':
            r['prop'] = 'C07'
    return res


def frame_task(task):
    """structural: the functions can_win_now depends on never mention hand_killing_statuses"""
    import ast
    src = source(EXTRA)
    tree = src.trees['pokerkit.state']
    fns = {f.name: f for f in ast.walk(tree) if isinstance(f, ast.FunctionDef)}
    seen, todo, bad = set(), ['can_win_now'], []
    while todo:
        nm = todo.pop()
        if nm in seen or nm not in fns:
            continue
        seen.add(nm)
        for node in ast.walk(fns[nm]):
            if isinstance(node, ast.Attribute) and isinstance(node.value, ast.Name) and node.value.id == 'self':
                if node.attr == 'hand_killing_statuses':
                    bad.append(nm)
                todo.append(node.attr)
    ok = not bad and 'pots' in seen and 'get_up_hand' in seen
    return {'results': [{'id': 'C12/State.can_win_now/frame-does-not-read-hand_killing_statuses/D-inf', 'kind': 'A', 'prop': 'C12', 'label': 'D∞',
                         'status': 'valid' if ok else 'refuted', 'backend': 'AST read-set scan', 'seconds': 0.0, 'native': True,
                         'detail': f'functions reached: {sorted(seen)}; readers: {bad}', 'meta': {'function': 'pokerkit.state.State.can_win_now'}},
                        __import__('props.scans', fromlist=['x']).purity_result(tree, 'C12')],
            'contract': None}


def m5_task(task):
    """(m5) over the awarding rule of spec/pots.py executed symbolically on abstract strengths: z3 lemma per player count"""
    import time
    src = source(EXTRA)
    from pyvc.interp import Interp
    from pyvc.core import Ctx
    from pyvc.values import Choice, And_, Not_, zbool
    from pyvc.vc import Obligation, discharge
    n = task['n']
    out = []
    t0 = time.time()
    for k in range(n):
        I = Interp(src)
        ctx = Ctx()
        amount = z3.Int('amount')
        ctx.assume(amount >= 0)
        none = [z3.Bool(f'hand{i}?none') for i in range(n)]
        val = [z3.Int(f'hand{i}') for i in range(n)]
        member = [z3.Bool(f'contender{i}') for i in range(n)]
        hands = tuple(Choice(((none[i], None), (z3.Not(none[i]), val[i]))) for i in range(n))
        from pyvc.values import SymSeq
        contenders = SymSeq(tuple(range(n)), flags=member)
        # k is a contender who does not hold the strongest hand: somebody else among the contenders holds a strictly better one
        better = z3.Or(*[z3.And(member[j], z3.Not(none[j]), z3.Or(none[k], val[j] > val[k])) for j in range(n) if j != k])
        ctx.assume(z3.And(member[k], better))
        f = src.func('contracts.c12.award_ignores_losers')
        sub = ctx.fork(); sub.exits = []
        v = I.call_func(sub, f, [amount, hands, contenders, k, n], {})
        goal = I.truth(v, sub)
        bad = [e for e in sub.exits if e.kind == 'raise']
        ob = Obligation(f'C12/spec.pots.award/m5-removing-a-loser-changes-nothing/n{n}-k{k}/I', 'P', And_(*I.axioms, ctx.pc),
                        And_(goal, Not_(z3.Or(*[And_(*e.pcl) for e in bad]) if bad else False)), 'C12',
                        meta={'function': 'spec.pots.award (rule, not engine code)', 'shape': f'players={n}'})
        r = discharge(ob, task['timeout_ms'])
        out.append({'id': ob.id, 'kind': 'P', 'prop': 'C12', 'label': 'D/shape', 'status': r['status'], 'backend': r['backend'],
                    'seconds': r['seconds'], 'meta': ob.meta})
    return {'results': out, 'contract': None}


def m2_task(task):
    """(m2) monotonicity of from_game in the cards: run the real from_game twice on abstract cards (same validity / strength symbols),
    once with an extra hole card (resp. board card): the richer call is never weaker and is defined whenever the poorer one is"""
    import props.c05 as p05
    import contracts.c05 as c05
    src = source(EXTRA + p05.EXTRA)
    return p05.monotone_task(task)


def main(argv=None):
    chk = Check('C12', 'other', argv)
    source(EXTRA)
    args = argv if argv is not None else sys.argv[1:]
    only = [a for a in args if a in NAMES]
    tasks = []
    to = 120000 if chk.tier == 'thorough' else 40000
    for name in (only or NAMES):
        if name == 'm5':
            for n in ((2, 3, 4, 5) if chk.tier == 'thorough' else (2, 3, 4)):
                tasks.append({'module': 'props.c12', 'fn': 'm5_task', 'name': f'm5/n{n}', 'n': n, 'timeout_ms': to})
        elif name == 'm2':
            for cls, h, b, extra in (('StandardHighHand', 2, 4, 'board'), ('StandardHighHand', 1, 5, 'hole'), ('OmahaHoldemHand', 3, 4, 'hole'),
                                     ('OmahaHoldemHand', 4, 3, 'board'), ('OmahaEightOrBetterLowHand', 3, 4, 'hole'), ('BadugiHand', 3, 0, 'hole')):
                tasks.append({'module': 'props.c12', 'fn': 'm2_task', 'name': f'm2/{cls}/h{h}b{b}+{extra}', 'cls': cls, 'h': h, 'b': b,
                              'extra': extra, 'timeout_ms': to})
        else:
            for sh in shapes(chk.tier):
                for pl in (range(sh.n) if name in ('can_win_now', 'get_hand', 'get_up_hand') else (None,)):
                    tasks.append({'module': 'props.c12', 'fn': 'vc_task', 'name': f'{name}/n{sh.n}t{sh.T}b{sh.B}' + (f'p{pl}' if pl is not None else ''),
                                  'contract': name, 'shape': sh.as_dict(), 'timeout_ms': to, 'weight': sh.n * sh.T * sh.B, 'player': pl})
    if not only:
        tasks.append({'module': 'props.c12', 'fn': 'frame_task', 'name': 'frame'})
        tasks.append({'module': 'props.c12', 'fn': 'twin_task', 'name': 'twin-standin', 'hands': 150 if chk.tier == 'quick' else 2000,
                      'seed': chk.seed, 'weight': 50})
    chk.run_tasks(tasks)
    standin = None
    for t in chk.task_reports:
        if t.get('standin'):
            standin = t['standin']
    chk.assumptions += [
        'the property compares two RUNS; what is machine-checked are the lemmas (m1)-(m5) on the real functions; that they imply equal '
        'payoffs is a paper argument (DESIGN.md section 4, C12): a player who would receive chips when everybody tables holds, for some '
        '(pot, board, type), a hand >= every contender\'s final hand; by (m2) every contender\'s exposed hand is <= that, so (m1) holds at '
        'his turn and at killing time; by (m3)/(m4) he is shown and not killed; by (m5) removing the others changes nothing',
        'hands are abstract optional strengths (C04/C05 contracts); State.pots by its C01 contract; a pot\'s contenders are those of the pot '
        'list at the time of the query',
        'the twin-run comparison is a bounded stand-in (label B): not counted in obligations/discharged',
        'results hold for the listed shapes only',
    ]
    return chk.finish(checker_cmd='./check C12 --tier ' + chk.tier, standin=standin,
                      explanation='lemmas (m1)-(m5) as clauses on State.can_win_now, verify_hole_cards_showing_or_mucking, _begin_hand_killing, '
                                  'hands.from_game (monotonicity) and the awarding rule; composition on paper; twin runs as bounded stand-in')


def twin_task(task):
    """label B (bounded stand-in, never counted): random all-in / showdown hands played twice on the same deck -- once with automatic
    showing/mucking and hand killing, once with every remaining player tabling his full hand and nobody killed -- final payoffs compared"""
    import random
    import warnings
    import copy
    import pokerkit as pk
    warnings.simplefilter('ignore')
    A = pk.Automation
    base = (A.ANTE_POSTING, A.BET_COLLECTION, A.BLIND_OR_STRADDLE_POSTING, A.CARD_BURNING, A.HOLE_DEALING, A.BOARD_DEALING,
            A.RUNOUT_COUNT_SELECTION, A.CHIPS_PUSHING, A.CHIPS_PULLING)
    fails, n = [], 0
    for h in range(task['hands']):
        rng = random.Random(task['seed'] * 7919 + h)
        np_ = rng.choice([2, 3, 4])
        stacks = [rng.choice([3, 6, 10, 25, 60]) for _ in range(np_)]
        kind = rng.choice(['NT', 'PO', 'FO8', 'F7S8'])
        mode = rng.choice(list(pk.Mode))
        b = rng.choice([1, 2]) if kind in ('NT', 'PO', 'FO8') else 1

        def mk(autos):
            if kind == 'NT':
                return pk.NoLimitTexasHoldem.create_state(autos, True, 0, (1, 2), 2, stacks, np_, mode=mode, starting_board_count=b)
            if kind == 'PO':
                return pk.PotLimitOmahaHoldem.create_state(autos, True, 0, (1, 2), 2, stacks, np_, mode=mode, starting_board_count=b)
            if kind == 'FO8':
                return pk.FixedLimitOmahaHoldemHighLowSplitEightOrBetter.create_state(autos, True, 0, (1, 2), 2, 4, stacks, np_, mode=mode, starting_board_count=b)
            return pk.FixedLimitSevenCardStudHighLowSplitEightOrBetter.create_state(autos, True, 1, 1, 2, 4, stacks, np_, mode=mode)
        random.seed(h)
        s1 = mk(base + (A.HOLE_CARDS_SHOWING_OR_MUCKING, A.HAND_KILLING))
        random.seed(h)
        s2 = mk(base)
        if list(s1.deck_cards) != list(s2.deck_cards) or s1.hole_cards != s2.hole_cards:
            continue
        try:
            steps = 0
            while s1.status and s2.status and steps < 300:
                steps += 1
                # the manual twin tables every hand in full and kills nobody (kill_hand is never called: hands marked stay alive)
                while s2.status and s2.showdown_indices and s2.can_show_or_muck_hole_cards(True):
                    s2.show_or_muck_hole_cards(True)
                if s2.status and any(s2.hand_killing_statuses):
                    for i in range(np_):
                        s2.hand_killing_statuses[i] = False
                    s2._update_hand_killing()
                if not (s1.status and s2.status):
                    break
                if s1.actor_index is None or s2.actor_index is None:
                    break
                if s1.can_complete_bet_or_raise_to() and rng.random() < 0.3:
                    amt = rng.choice([s1.min_completion_betting_or_raising_to_amount, s1.max_completion_betting_or_raising_to_amount])
                    s1.complete_bet_or_raise_to(amt); s2.complete_bet_or_raise_to(amt)
                elif s1.can_fold() and s1.bets[s1.actor_index] < max(s1.bets) and rng.random() < 0.2:
                    s1.fold(); s2.fold()
                elif s1.can_post_bring_in():
                    s1.post_bring_in(); s2.post_bring_in()
                else:
                    s1.check_or_call(); s2.check_or_call()
            if not s1.status and not s2.status:
                n += 1
                if s1.payoffs != s2.payoffs:
                    fails.append((h, kind, s1.payoffs, s2.payoffs))
        except Exception as e:       # noqa  -- crashes part-way are C07's subject
            continue
    return {'results': [], 'contract': None, 'standin': {'label': 'B', 'bound': f'{task["hands"]} random hands (NT/PO/FO8/F7S8, 2-4 players, 1-2 boards, '
            'both modes), automatic vs everybody-tables twin on the same deck', 'evaluations': n, 'failures': fails[:5]}}


if __name__ == '__main__':
    sys.exit(main())

"""C19 driver: chip-layout representations, constructor validation, divmod/rake helpers (deductive);
card text round trip (exhaustive closed evaluation, label E); card-sequence text forms (bounded, label B)."""
from __future__ import annotations

import sys
import z3

from pyvc.runner import Check, source
from pyvc.shapes import Shape, fresh_state
from pyvc.run import verify_contract
from pyvc.values import SymMapping, SymSeq, Choice
from pyvc import cuts

EXTRA = ['spec.values', 'contracts.inv', 'contracts.c19']


def chips(I, name):
    return z3.Int(name) if I.chips == 'int' else z3.Real(name)


def mk_number(I, ctx, wf, shape):
    return chips(I, 'arg.values')


def mk_seq(k, as_list):
    def mk(I, ctx, wf, shape):
        t = tuple(chips(I, f'arg.values[{i}]') for i in range(k))
        return ctx.alloc('list', t) if as_list else t
    return mk


def mk_mapping(m):
    def mk(I, ctx, wf, shape):
        keys = [z3.Int(f'arg.values.key[{i}]') for i in range(m)]
        if m > 1:
            wf.append(z3.Distinct(*keys))
        return SymMapping([(keys[i], chips(I, f'arg.values.val[{i}]')) for i in range(m)])
    return mk


def mk_count(n):
    return lambda I, ctx, wf, shape: n


def vc_task(task):
    src = source(EXTRA)
    import contracts.c19 as c
    kind = task['kind']
    shape = Shape(**task['shape'])
    common = dict(chips=task['chips'], timeout_ms=task['timeout_ms'], keep_smt=task.get('sample', 0))
    if kind == 'divmod':
        return verify_contract(src, c.divmod_, shape, with_state=False, tag='any', **common)
    if kind == 'rake':
        def mk_state(I, ctx, wf, shape):
            ref, w = fresh_state(I, ctx, shape)
            wf.append(w)
            none = z3.Bool('arg.state?none')
            return Choice(((none, None), (z3.Not(none), ref)))
        makers = {'state': mk_state,
                  'percentage': lambda I, ctx, wf, shape: z3.Real('arg.percentage'),
                  'cap': lambda I, ctx, wf, shape: z3.Real('arg.cap')}
        return verify_contract(src, c.rake_, shape, with_state=False, arg_makers=makers, tag='any', **common)
    if kind == 'clean':
        n = task['n']
        rep = task['rep']
        if rep == 'number':
            K, mk = c.clean_number, mk_number
        elif rep.startswith('tuple') or rep.startswith('list'):
            K, mk = c.clean_sequence, mk_seq(task['k'], rep.startswith('list'))
        else:
            K, mk = c.clean_mapping, mk_mapping(task['k'])
        return verify_contract(src, K, shape, with_state=False, arg_makers={'values': mk, 'count': mk_count(n)},
                               tag=f'n{n}-{rep}{task.get("k", "")}', **common)
    if kind == 'post_init':
        n = shape.n

        def vec(name):
            return lambda I, ctx, wf, shape: tuple(chips(I, f'arg.{name}[{i}]') for i in range(n))
        makers = {'raw_antes': vec('raw_antes'), 'raw_blinds_or_straddles': vec('raw_blinds_or_straddles'),
                  'raw_starting_stacks': vec('raw_starting_stacks')}
        cutd = {'pokerkit.state.State._setup': cuts.havoc_cut(shape), 'pokerkit.state.State._begin': cuts.havoc_cut(shape)}
        return verify_contract(src, c.post_init, shape, cuts=cutd, arg_makers=makers,
                               tag=f'n{shape.n}-S{shape.S}-B{shape.B}', **common)
    raise ValueError(kind)


def card_roundtrip_task(task):
    """label E: `parse(repr(c)) == [c]`, `clean` of a card / of its text, for all 14 x 5 = 70 cards (incl. unknowns)"""
    import itertools
    from pokerkit.utilities import Card, Rank, Suit
    res = []
    bad = []
    count = 0
    for rank, suit in itertools.product(Rank, Suit):
        c = Card(rank, suit)
        count += 1
        try:
            ok = (list(Card.parse(repr(c))) == [c] and Card.clean(c) == (c,) and Card.clean(repr(c)) == (c,)
                  and Card.clean([c]) == (c,) and Card.clean((x for x in [c])) == (c,))
        except Exception as e:      # noqa
            ok = False
        if not ok:
            bad.append(repr(c))
    res.append({'id': 'C19/Card.parse.repr/roundtrip-all-70-cards/E', 'kind': 'P', 'prop': 'C19', 'label': 'E',
                'status': 'valid' if not bad else 'refuted', 'backend': 'CPython-closed', 'seconds': 0.0, 'native': True,
                'detail': f'failing cards: {bad[:5]}', 'meta': {'function': 'pokerkit.utilities.Card.parse', 'domain': count,
                                                               'exhaustive': True}})
    return {'results': res, 'contract': None}


def card_text_task(task):
    """label B (bounded stand-in, never counted as proved): sequences of <= L cards in every separator
    pattern and the 10/T spelling parse to the same cards"""
    import itertools
    from pokerkit.utilities import Card, Rank, Suit
    L = task['L']
    cards = [Card(r, s) for r, s in itertools.product(Rank, Suit)]
    seps = ['', ' ', ',', ', ', '\t', '\n', '  ', ' \t ']      # any white space separates, like the blank
    n = 0
    bad = []
    for k in range(1, L + 1):
        for seq in itertools.product(cards, repeat=k):
            for sep in seps:
                for ten in (False, True):
                    texts = [repr(c) for c in seq]
                    if ten:
                        texts = [t.replace('T', '10') if t[0] == 'T' else t for t in texts]
                    text = sep.join(texts)
                    n += 1
                    try:
                        got = Card.clean(text)
                    except Exception as e:   # noqa
                        got = repr(e)
                    # '' between cards is ambiguous only if a text token could merge; it cannot: tokens are 2 chars
                    if got != tuple(seq):
                        if len(bad) < 5:
                            bad.append((text, repr(got)))
    return {'results': [], 'contract': None, 'standin': {'label': 'B', 'bound': f'all sequences of <= {L} cards over 70 cards x 8 separator '
            f'patterns (blank, comma, tab, newline, runs) x 2 spellings of ten', 'evaluations': n, 'failures': bad}}


def helpers_rounding_task(task):
    """label B (bounded stand-in, never counted): the deductive contracts of divmod / rake treat float and Decimal chips as the real numbers
    they denote.  Here the real helpers run on a grid of float and Decimal amounts: the parts of divmod add up to the amount EXACTLY in
    the same arithmetic (the remainder is computed as amount - quotient * divisor, and that difference is exact when the two are within
    a factor of two -- Sterbenz), the parts of rake within one rounding."""
    from decimal import Decimal
    import fractions
    from pokerkit.utilities import divmod as pdivmod, rake
    bad, n = [], 0
    floats = [0.5, 1.0, 7.25, 10.0, 29.0, 33.3, 100.0, 0.1, 12345.678, 1e6 + 0.5]
    decs = [Decimal('0.5'), Decimal('7'), Decimal('8'), Decimal('10'), Decimal('29'), Decimal('33.3'), Decimal('1000000.01')]
    for amount in floats + decs:
        for divisor in range(1, 10):
            n += 1
            q, r = pdivmod(amount, divisor)
            if q * divisor + r != amount:
                if len(bad) < 5:
                    bad.append(('divmod', repr(amount), divisor, repr(q), repr(r), repr(q * divisor + r)))
    for amount in floats:
        for pct in (0.0, 0.05, 0.1, 0.5):
            for cap in (float('inf'), 3.0):
                n += 1
                a, b = rake(amount, percentage=pct, cap=cap)
                if abs((a + b) - amount) > 1e-9 * max(1.0, abs(amount)) or a < 0 or b < 0 or a > cap:
                    if len(bad) < 5:
                        bad.append(('rake', amount, pct, cap, a, b))
    return {'results': [], 'contract': None, 'task': 'helpers-rounding',
            'standin': {'label': 'B', 'bound': f'{n} (amount, divisor / percentage) pairs over float and Decimal amounts', 'evaluations': n,
                        'failures': bad}}


def scalar_types_task(task):
    """E (closed evaluation over the number types the package documents for chips): a layout written as ONE number means that amount for
    every player, whatever the type of the number -- int, float, Fraction, Decimal, and the infinite float used for caps"""
    import fractions
    import math
    from decimal import Decimal
    from pokerkit.utilities import clean_values
    bad = []
    vals = [0, 3, 2.5, fractions.Fraction(1, 2), Decimal('0.5'), Decimal('2E+1'), math.inf]
    for v in vals:
        for n in (1, 2, 6):
            try:
                got = tuple(clean_values(v, n))
            except Exception as e:   # noqa
                bad.append((repr(v), n, repr(e)))
                continue
            if got != (v,) * n or any(type(x) is not type(v) for x in got):
                bad.append((repr(v), n, repr(got)))
    return {'results': [{'id': 'C19/clean_values/a-single-number-of-any-chip-type-means-that-amount-for-everybody/E', 'kind': 'P', 'prop': 'C19',
                         'label': 'E', 'status': 'valid' if not bad else 'refuted', 'backend': 'CPython-closed', 'seconds': 0.0, 'native': True,
                         'detail': f'{len(vals)} numbers x 3 player counts; failures: {bad[:4]}',
                         'meta': {'function': 'pokerkit.utilities.clean_values', 'domain': len(vals) * 3, 'exhaustive': True}}], 'contract': None}


def shared_c06_task(task):
    """the ways of naming cards in an operation (None, a count, a sequence, ONE bare Card object) mean the same cards: the clauses live
    in the C06 contracts of burn_card / deal_hole / deal_board (`*_what_was_named`, `*_what_was_asked`) and are run here too"""
    import props.c06 as p06
    from pyvc.runner import relabel
    return relabel(p06.vc_task(task), 'C19')


def main(argv=None):
    chk = Check('C19', 'proof', argv)
    source(EXTRA)
    thorough = chk.tier == 'thorough'
    to = 60000 if thorough else 20000
    tasks = []
    M = 'props.c19'
    base = Shape(n=2, S=1, T=1, B=1, H=1).as_dict()
    for ch in ('int', 'real'):
        tasks.append({'module': M, 'fn': 'vc_task', 'isolate': True, 'kind': 'divmod', 'shape': base, 'chips': ch, 'timeout_ms': max(to, 60000), 'name': f'divmod/{ch}', 'sample': 1})
        tasks.append({'module': M, 'fn': 'vc_task', 'isolate': True, 'kind': 'rake', 'shape': base, 'chips': ch, 'timeout_ms': max(to, 60000), 'name': f'rake/{ch}'})
    for n in ((2, 3, 4, 6, 9) if thorough else (2, 3, 6)):
        for ch in (('int', 'real') if thorough else ('int',)):
            tasks.append({'module': M, 'fn': 'vc_task', 'kind': 'clean', 'rep': 'number', 'n': n, 'shape': base, 'chips': ch, 'timeout_ms': to, 'name': f'clean/number/n{n}'})
            for k in sorted({0, 1, n - 1, n, n + 1}):
                for rep in ('tuple', 'list'):
                    tasks.append({'module': M, 'fn': 'vc_task', 'kind': 'clean', 'rep': rep, 'k': k, 'n': n, 'shape': base, 'chips': ch, 'timeout_ms': to, 'name': f'clean/{rep}{k}/n{n}'})
            for k in sorted({0, 1, 2, min(n, 4)} | ({2 * n} if thorough and n <= 4 else set())):
                tasks.append({'module': M, 'fn': 'vc_task', 'kind': 'clean', 'rep': 'mapping', 'k': k, 'n': n, 'shape': base, 'chips': ch, 'timeout_ms': to, 'name': f'clean/mapping{k}/n{n}'})
    for n in ((1, 2, 3, 6) if thorough else (1, 2, 3)):
        for S, B in ((1, 1), (0, 1), (1, 0)):
            sh = Shape(n=n, S=S, T=1, B=B, H=1).as_dict()
            tasks.append({'module': M, 'fn': 'vc_task', 'kind': 'post_init', 'shape': sh, 'chips': 'int', 'timeout_ms': to, 'name': f'post_init/n{n}S{S}B{B}'})
    import props.c06 as p06
    for name in ('burn_card', 'deal_hole', 'deal_board'):
        for sh in p06.shapes(chk.tier):
            tasks.append({'module': M, 'fn': 'shared_c06_task', 'name': f'{name}/n{sh.n}', 'contract': name, 'shape': sh.as_dict(),
                          'timeout_ms': 120000 if thorough else 40000, 'weight': 20 * sh.n})
    tasks.append({'module': M, 'fn': 'helpers_rounding_task', 'name': 'helpers-rounding'})
    tasks.append({'module': M, 'fn': 'scalar_types_task', 'name': 'scalar-types'})
    tasks.append({'module': M, 'fn': 'card_roundtrip_task', 'name': 'card-roundtrip'})
    tasks.append({'module': M, 'fn': 'card_text_task', 'L': 3 if thorough else 2, 'name': 'card-text', 'weight': 50})
    chk.run_tasks(tasks)
    standin = None
    for t in chk.task_reports:
        if t.get('standin'):
            standin = t['standin']
    chk.assumptions += [
        'user-supplied divmod / rake callables are not covered: the contracts proved here are for the default helpers',
        'rake: `round(x)` is any integer within 1/2 of x; cap >= 0 and amount >= 0 (precondition); float arithmetic treated as real',
        'mapping layouts: keys within -n..n-1 (precondition: documented positions), pairwise distinct (dict)',
        'constructor validation: raw layouts given as explicit n-tuples (other representations reduce to these by the '
        'clean_values contracts, same-state by determinism of the constructor, C15)',
        'card sequence text forms ("AsKs", "10s", separators) are only covered by the bounded stand-in (label B), '
        'not counted in obligations/discharged: str.replace chains are undecided by the installed string solvers',
    ]
    return chk.finish(checker_cmd='./check C19 --tier ' + chk.tier, standin=standin,
                      explanation='D-infinity for divmod/rake (no size parameter), D/shape for clean_values and State.__post_init__ '
                                  '(n listed), E for the 70-card text round trip, B stand-in for card-sequence text')


if __name__ == '__main__':
    sys.exit(main())

"""C07 driver: phases, availability, order, no failure part-way (deductive, per function of the cascade)."""
from __future__ import annotations

import sys

from pyvc.runner import Check, source
from pyvc.shapes import Shape
from pyvc.run import verify_contract
from pyvc import cuts, cascade

EXTRA = ['spec.phases', 'spec.pots', 'contracts.engine', 'contracts.flow', 'contracts.c01', 'contracts.c02', 'contracts.c07']
Q = 'pokerkit.state.State.'


def shapes(tier, fn):
    if tier == 'thorough':
        return [Shape(n=n, S=2, T=2, B=2, H=2, R=2) for n in (2, 3)]
    return [Shape(n=n, S=2, T=1, B=1, H=1, R=2) for n in (2, 3)]


def vc_task(task):
    src = source(EXTRA)
    import contracts.c07 as c07
    import contracts.c01 as c01
    import contracts.c02 as c02
    import contracts.engine as E
    import contracts.flow as F
    import props.c01 as p01
    shape = Shape(**task['shape'])
    name = task['contract']
    inv = E.BOUNDARY + F.FLOW
    if name == '__post_init__':
        import z3
        n = shape.n

        def vec(nm):
            return lambda I, ctx, wf, shape: tuple(z3.Int(f'arg.{nm}[{i}]') for i in range(n))
        makers = {'raw_antes': vec('raw_antes'), 'raw_blinds_or_straddles': vec('raw_blinds_or_straddles'),
                  'raw_starting_stacks': vec('raw_starting_stacks')}

        def factory0(vc):
            cascade.install(vc, shape, {'_begin_ante_posting': F.TABLE07['_begin_ante_posting'], '__post_init__': ((), inv)},
                            '__post_init__', inv)
            return {}
        return verify_contract(src, c07.post_init, shape, chips='int', timeout_ms=task['timeout_ms'], cuts_factory=factory0,
                               arg_makers=makers, setup=p01.ctor_state)
    if name == 'availability':
        cs = {Q + 'can_win_now': cuts.pure_cut('bool'), 'pokerkit.utilities.rake': cuts.rake_cut()}
        return verify_contract(src, c07.availability, shape, chips='int', cuts=cs, timeout_ms=task['timeout_ms'], unwind=6, keep_smt=1)
    if name in ('order_after_collection', 'order_after_showdown'):
        cs = {Q + k: cuts.havoc_cut(shape) for k in ('_begin_chips_pushing', '_begin_blind_or_straddle_posting', '_begin_showdown',
                                                      '_begin_dealing', '_begin_hand_killing')}
        res = verify_contract(src, getattr(c07, name), shape, chips='int', cuts=cs, timeout_ms=task['timeout_ms'], unwind=6)
        res['results'] = [r for r in res['results'] if r['kind'] != 'safety']      # the safety obligations of these bodies are in the cascade tasks
        return res
    if name.startswith('progress:'):
        KP = c07.PROGRESS[name.split(':', 1)[1]]
        cs = {KP.update: cuts.havoc_cut(shape), Q + 'can_win_now': cuts.pure_cut('bool'), 'pokerkit.utilities.rake': cuts.rake_cut()}
        res = verify_contract(src, KP, shape, chips='int', cuts=cs, timeout_ms=task['timeout_ms'], unwind=6)
        res['results'] = [r for r in res['results'] if r['kind'] != 'safety']
        return res
    if name == 'phase_graph':
        return phase_graph_task(src)
    K = c07.CONTRACTS[name]

    def factory(vc):
        extra = {Q + 'can_win_now': cuts.can_win_now_cut() if name == '_begin_hand_killing' else cuts.pure_cut('bool'),
                 'pokerkit.utilities.rake': cuts.rake_cut(),
                 'pokerkit.lookups.Lookup.get_entry_or_none': cuts.optional_strength_cut()}
        if name == '_begin_chips_pushing':
            extra[Q + 'pots'] = cuts.pots_cut(vc, shape, c01.pots, pre=('config_ok', 'nonneg', 'payoff_is_stack_change', 'open_pot_ok',
                                                                        'frozen_pots_ok', 'antes_in_pot'),
                                             more=((c02.pots, 'contenders_are_live'),))
        cascade.install(vc, shape, F.TABLE07, name, inv, extra_cuts=extra,
                        callee_extra_pre={op: (comp,) for op, comp in F.ACCEPTS.items()})
        return {}
    res = verify_contract(src, K, shape, chips='int', timeout_ms=task['timeout_ms'], cuts_factory=factory, keep_smt=task.get('sample', 0),
                          unwind=6)
    if name == '_begin_chips_pushing':
        for r in res['results']:
            if 'no-ZeroDivisionError-divmod' in r['id']:
                r['kind'] = 'assumed'
                r['hypothesis'] = HANDS_KNOWN
    return res


HANDS_KNOWN = ('hypothesis of the statement (hands reaching a showdown are known): at a showdown every pot has, on every board, a contender '
               'holding a hand of some hand type -- otherwise the number of hand types in play is zero and _begin_chips_pushing divides by it')


def phase_graph_task(src):
    """D-infinity, structural: the call graph of the phase steps is the documented graph -- `_begin_X` only hands over to
    `_update_X`; `_update_X` only ends its own phase (`_end_X`) or performs its own operations; `_end_X` only begins a
    documented successor phase; nothing else calls a `_begin_/_end_` step"""
    import ast
    import spec.phases as PH
    tree = src.trees['pokerkit.state']
    ops_of = {'ante_posting': {'post_ante'}, 'bet_collection': {'collect_bets'}, 'blind_or_straddle_posting': {'post_blind_or_straddle'},
              'dealing': {'burn_card', 'deal_hole', 'deal_board'}, 'betting': set(), 'showdown': {'select_runout_count', 'show_or_muck_hole_cards'},
              'hand_killing': {'kill_hand'}, 'chips_pushing': {'push_chips'}, 'chips_pulling': {'pull_chips'}}
    calls = {}
    for fn in ast.walk(tree):
        if isinstance(fn, ast.FunctionDef):
            cs = set()
            for node in ast.walk(fn):
                if isinstance(node, ast.Call) and isinstance(node.func, ast.Attribute) and isinstance(node.func.value, ast.Name) \
                        and node.func.value.id == 'self':
                    cs.add(node.func.attr)
            calls[fn.name] = cs
    bad = []
    phases = list(PH.SUCCESSORS)
    steps = {f'_{k}_{p}' for p in phases for k in ('begin', 'update', 'end')}
    for p in phases:
        b, u, e = calls.get(f'_begin_{p}', set()), calls.get(f'_update_{p}', set()), calls.get(f'_end_{p}', set())
        if (b & (steps | set().union(*ops_of.values()))) != {f'_update_{p}'}:
            bad.append((f'_begin_{p}', sorted(b & steps)))
        if not (u & steps) <= {f'_end_{p}'} or not (u & set().union(*ops_of.values())) <= ops_of[p]:
            bad.append((f'_update_{p}', sorted(u & (steps | set().union(*ops_of.values())))))
        want = {f'_begin_{q}' for q in PH.SUCCESSORS[p]}
        got = e & steps
        if got != want and not (p == 'chips_pulling' and got == set() and '_end' in e):
            bad.append((f'_end_{p}', sorted(got), sorted(want)))
    for name, cs in calls.items():
        if name not in steps and name not in ('_begin', '__post_init__') and (cs & {s_ for s_ in steps if not s_.startswith('_update_')}):
            bad.append((name, sorted(cs & steps)))
    if calls.get('_begin', set()) & steps != {f'_begin_{PH.FIRST}'}:
        bad.append(('_begin', sorted(calls.get('_begin', set()) & steps)))
    return {'results': [{'id': 'C07/State/phase-step-call-graph-is-the-documented-graph/D-inf', 'kind': 'P', 'prop': 'C07', 'label': 'D∞',
                         'status': 'valid' if not bad else 'refuted', 'backend': 'AST call-graph scan', 'seconds': 0.0, 'native': True,
                         'detail': f'offending: {bad}', 'meta': {'function': 'pokerkit.state.State (phase steps)'}}], 'contract': None}


def shared_c14_task(task):
    """documented phase order around an all-in: the choice of run-outs is offered once, acted upon once, and dealing resumes where the
    all-in happened -- the contracts of _begin_showdown / _end_showdown / _end_bet_collection live under C14 and are run here too"""
    import props.c14 as p14
    from pyvc.runner import relabel
    res = p14.vc_task(task)
    # (exits part-way are proved by C07's own contracts of the same functions, under C07's stronger preconditions)
    res['results'] = [r for r in res.get('results', []) if r['kind'] != 'safety']
    return relabel(res, 'C07')


def main(argv=None):
    chk = Check('C07', 'proof', argv)
    source(EXTRA)
    import contracts.c07 as c07
    args = argv if argv is not None else sys.argv[1:]
    names = list(c07.CONTRACTS) + ['__post_init__', 'availability', 'order_after_collection', 'order_after_showdown', 'phase_graph'] + ['progress:' + k for k in c07.PROGRESS]
    only = [a for a in args if a in names]
    tasks = []
    for name in (only or names):
        for sh in shapes(chk.tier, name):
            tasks.append({'module': 'props.c07', 'fn': 'vc_task', 'name': f'{name}/n{sh.n}', 'contract': name, 'shape': sh.as_dict(),
                          'timeout_ms': 60000 if chk.tier == 'thorough' else 20000, 'weight': sh.n, 'sample': 1 if name == '_end_dealing' else 0})
    if not only:
        import props.c14 as p14
        for name in ('begin_showdown', 'end_showdown', 'end_bet_collection'):
            for sh in p14.shapes(chk.tier, name):
                tasks.append({'module': 'props.c07', 'fn': 'shared_c14_task', 'name': f'c14/{name}/n{sh.n}', 'contract': name, 'shape': sh.as_dict(),
                              'timeout_ms': 300000 if chk.tier == 'thorough' else 30000, 'weight': sh.n})
        tasks.append({'module': 'pyvc.native', 'fn': 'guard_task', 'name': 'native-guard', 'table_module': 'contracts.flow',
                      'table_name': 'GUARD_TABLE', 'prop': 'C07', 'hands': 400 if chk.tier == 'quick' else 4000, 'seed': chk.seed,
                      'budget_s': 30 if chk.tier == 'quick' else 300, 'weight': 100, 'wild_fraction': 0.0})
    chk.run_tasks(tasks)
    chk.assumptions += [
        HANDS_KNOWN,
        'hypothesis of the statement: the deck is large enough for the requested deal (availability is shown for states whose deck '
        'covers the default deal; "not enough cards" refusals inside the automation loops are not modelled)',
        'termination: every operation strictly reduces (draw decisions, chips behind during betting, flags / cards due / queue entries / '
        'sub-pots) when it hands over to its phase step; the phase steps form the documented graph (structural scan), whose only cycles are '
        'the street loop (street index strictly increases: C10) and the run-out return (run-outs to go strictly decrease: C14). That these '
        'lemmas bound the length of every history is a paper argument (lexicographic measure of DESIGN.md Appendix A), not machine-checked',
        'State.can_win_now by its contract (pure; some live player can win now); State.rake by its C19 contract; lookups abstract',
        'one pot-less-contender finding (F6b) and the everybody-mucks finding (F6a) are known findings matched by obligation; every '
        'other clause is proved under the hypothesis that excludes them (someone_live / pots_contended as preconditions)',
        'results hold for the listed shapes only (D/shape): n players, streets, boards, at most R run-outs, loops unrolled to 6',
    ]
    return chk.finish(checker_cmd='./check C07 --tier ' + chk.tier,
                      explanation='cascade contracts with phase-local facts: every assert and implicit safety condition of the real bodies, '
                                  'every precondition component at every call site / loop / exit, the acceptance of operations the cascade '
                                  'performs itself, availability, order and progress are SMT obligations')


if __name__ == '__main__':
    sys.exit(main())

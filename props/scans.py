"""Structural scans shared by several checks (label D-infinity: no size parameter; they speak about every history)."""
from __future__ import annotations

import ast

MUTATORS = ('append', 'extend', 'clear', 'pop', 'popleft', 'remove', 'rotate', 'add', 'insert', 'appendleft', 'discard', 'update', 'sort',
            'setdefault', 'popitem', 'reverse', '__setitem__', '__delitem__')


def rooted_at_self(node):
    while isinstance(node, (ast.Subscript, ast.Attribute)):
        if isinstance(node, ast.Attribute) and isinstance(node.value, ast.Name) and node.value.id == 'self':
            return True
        node = node.value
    # vars(self)[...], self.__dict__[...] reach the same object by another door
    if isinstance(node, ast.Call) and isinstance(node.func, ast.Name) and node.func.id == 'vars' and node.args \
            and isinstance(node.args[0], ast.Name) and node.args[0].id == 'self':
        return True
    return False


def writes_to_self(fn):
    """[(line, source)] of the statements of `fn` that write to the object: assignment / deletion of self.<attr>[...], or a mutating
    method called on a container reached from self"""
    out = []
    for n in ast.walk(fn):
        if isinstance(n, (ast.Assign, ast.AugAssign, ast.AnnAssign)):
            ts = n.targets if isinstance(n, ast.Assign) else [n.target]
            for t in ts:
                for m in ast.walk(t):
                    if isinstance(m, (ast.Attribute, ast.Subscript)) and isinstance(m.ctx, ast.Store) and rooted_at_self(m):
                        out.append((n.lineno, ast.unparse(n)[:80]))
        elif isinstance(n, ast.Delete):
            for t in n.targets:
                if rooted_at_self(t):
                    out.append((n.lineno, ast.unparse(n)[:80]))
        elif isinstance(n, ast.Call) and isinstance(n.func, ast.Attribute) and n.func.attr in MUTATORS and rooted_at_self(n.func.value):
            out.append((n.lineno, ast.unparse(n)[:80]))
        elif isinstance(n, ast.Call) and ((isinstance(n.func, ast.Name) and n.func.id in ('setattr', 'delattr'))
                                          or (isinstance(n.func, ast.Attribute) and n.func.attr in ('__setattr__', '__delattr__'))) \
                and any(isinstance(a, ast.Name) and a.id == 'self' for a in n.args):
            out.append((n.lineno, ast.unparse(n)[:80]))
    return sorted(set(out))


def state_queries(tree):
    """the read-only interface of State: property getters, get_* / can_* / verify_* / _verify_* methods, and the helpers they call that
    are themselves named so"""
    cls = [c for c in ast.walk(tree) if isinstance(c, ast.ClassDef) and c.name == 'State'][0]
    out = []
    for f in cls.body:
        if not isinstance(f, ast.FunctionDef):
            continue
        is_prop = any((isinstance(d, ast.Name) and d.id in ('property', 'cached_property'))
                      or (isinstance(d, ast.Attribute) and d.attr in ('getter',)) for d in f.decorator_list)
        if is_prop or f.name.startswith(('get_', 'can_', 'verify_', '_verify_')):
            out.append(f)
    return out


def impure_queries(tree):
    bad = []
    qs = state_queries(tree)
    for f in qs:
        for line, txt in writes_to_self(f):
            bad.append((f.name, line, txt))
        if any(isinstance(d, ast.Name) and d.id == 'cached_property' for d in f.decorator_list) \
                or any(isinstance(d, ast.Call) and 'cache' in ast.unparse(d.func) for d in f.decorator_list) \
                or any(isinstance(d, (ast.Name, ast.Attribute)) and 'cache' in ast.unparse(d) for d in f.decorator_list):
            bad.append((f.name, f.lineno, 'memoising decorator'))
    return bad, len(qs)


def purity_result(tree, prop):
    bad, n = impure_queries(tree)
    return {'id': f'{prop}/State/queries-never-write-the-state/D-inf', 'kind': 'P', 'prop': prop, 'label': 'D∞',
            'status': 'valid' if not bad and n >= 60 else 'refuted', 'backend': 'AST scan', 'seconds': 0.0, 'native': True,
            'detail': f'{n} read-only members of State (property getters, get_*, can_*, verify_*): statements that write to the object: {bad[:6]}',
            'meta': {'function': 'pokerkit.state.State (read-only interface)'}}

"""C18 driver: range notation (E), equities (D/shape, hands abstract), ICM (D/shape via exact rational
function identities and positive-coefficient certificates, back end sympy)."""
from __future__ import annotations

import itertools
import sys
import time

from pyvc.runner import Check, source

EXTRA = ['spec.pots', 'spec.ranges', 'contracts.c18']


def res(oid, ok, detail, label='E', backend='CPython-closed', meta=None, secs=0.0, kind='P'):
    return {'id': oid, 'kind': kind, 'prop': 'C18', 'label': label, 'status': 'valid' if ok else 'refuted',
            'backend': backend, 'seconds': round(secs, 3), 'native': True, 'detail': detail, 'meta': meta or {}}


def ranges_task(task):
    from pokerkit.analysis import parse_range
    from pokerkit.utilities import RankOrder
    import spec.ranges as S
    ro = getattr(RankOrder, task['order'])
    order = ''.join(r.value for r in ro)
    t0 = time.time()
    n = 0
    bad = {'basic': [], 'counts': [], 'plus': [], 'interval': [], 'cards': [], 'separators': []}

    def get(text):
        return S.as_pairs(parse_range(text, rank_order=ro))
    # what a notation denotes depends on the notation and the rank order only -- not on what was parsed before: every "+" form and a
    # slice of the "-" forms are first parsed under ANOTHER rank order in this very process
    others = [o for o in RankOrder if o is not ro]
    for other in others[:2]:
        oo = ''.join(r.value for r in other)
        for x, y in itertools.product(order, repeat=2):
            if x in oo and y in oo:
                for kind in ('', 's', 'o'):
                    try:
                        parse_range(f'{x}{y}{kind}+', rank_order=other)
                        parse_range(f'{x}{y}{kind}-{y}{x}{kind}', rank_order=other)
                    except ValueError:
                        pass
    for x, y in itertools.product(order, repeat=2):
        sets = {}
        for kind in ('', 's', 'o'):
            n += 1
            got, exp = get(f'{x}{y}{kind}'), S.combos(x, y, kind)
            sets[kind] = got
            if got != exp:
                bad['basic'].append((x + y + kind, len(got), len(exp)))
            if any(len(h) != 2 or any(r not in order or s not in 'cdhs' for r, s in h) for h in got):
                bad['cards'].append(x + y + kind)
            n += 1
            got, exp = get(f'{x}{y}{kind}+'), S.plus(x, y, kind, order)
            if got != exp:
                bad['plus'].append((x + y + kind + '+', len(got), len(exp)))
        want = (6, 0, 6) if x == y else (16, 4, 12)
        if (len(sets['']), len(sets['s']), len(sets['o'])) != want or sets['s'] & sets['o'] or (sets['s'] | sets['o']) != sets['']:
            bad['counts'].append(x + y)
    for r0, r1, r2, r3 in itertools.product(order, repeat=4):
        for kind in ('', 's', 'o'):
            n += 1
            text = f'{r0}{r1}{kind}-{r2}{r3}{kind}'
            try:
                exp = S.interval(r0, r1, r2, r3, kind, order)
            except ValueError:
                exp = 'ValueError'
            try:
                got = get(text)
            except ValueError:
                got = 'ValueError'
            if got != exp:
                bad['interval'].append(text)
    # separators are interchangeable and a list denotes the union of its parts
    parts = [f'{order[-1]}{order[-2]}s', f'{order[0]}{order[0]}', f'{order[-1]}{order[1]}o+', f'{order[2]}{order[1]}s-{order[-1]}{order[-2]}s']
    union = set().union(*[get(p) for p in parts])
    for sep in (' ', ',', ';', ', ', ' ; ', ',;'):
        n += 1
        if get(sep.join(parts)) != union:
            bad['separators'].append(sep)
    n += 1
    if S.as_pairs(parse_range(*parts, rank_order=ro)) != union:
        bad['separators'].append('varargs')
    meta = {'function': 'pokerkit.analysis.parse_range', 'domain': n, 'exhaustive': True, 'rank_order': task['order']}
    secs = time.time() - t0
    out = [
        res(f'C18/parse_range/{task["order"]}/plain-suited-offsuit-denote-the-documented-sets/E', not bad['basic'] and not bad['cards'], str(bad['basic'][:3] + bad['cards'][:3]), meta=meta, secs=secs / 5),
        res(f'C18/parse_range/{task["order"]}/pair-6-suited-4-offsuit-12-disjoint-union/E', not bad['counts'], str(bad['counts'][:5]), meta=meta, secs=secs / 5),
        res(f'C18/parse_range/{task["order"]}/plus-forms-are-the-union-they-abbreviate/E', not bad['plus'], str(bad['plus'][:3]), meta=meta, secs=secs / 5),
        res(f'C18/parse_range/{task["order"]}/dash-forms-are-the-union-illegal-ones-raise/E', not bad['interval'], str(bad['interval'][:5]), meta=meta, secs=secs / 5),
        res(f'C18/parse_range/{task["order"]}/separators-interchangeable/E', not bad['separators'], str(bad['separators']), meta=meta, secs=secs / 5),
    ]
    return {'results': out, 'contract': None, 'cases': n}


def icm_task(task):
    """the REAL calculate_icm is executed on symbolic chips/payouts (sympy symbols: the loops depend only on
    the lengths); the results are rational functions.  sum: exact identity (cancel == 0).  non-negativity and
    order: certificates -- after writing non-increasing payouts as sums of non-negative differences, numerator
    and denominator polynomials have coefficients of one sign (hence no sign change for positive chips), and
    value_i - value_j == (chips_i - chips_j) * Q with Q of that form."""
    import sympy as sp
    from pokerkit.analysis import calculate_icm
    m, k = task['m'], task['k']
    t0 = time.time()
    c = sp.symbols(f'c0:{m}', positive=True)
    d = sp.symbols(f'd0:{k}', nonnegative=True)
    p = [sum(d[j:]) for j in range(k)]
    v = calculate_icm(p, c)
    v = [sp.nsimplify(sp.together(x), rational=True) for x in v]
    ok_sum = sp.cancel(sp.together(sum(v) - sum(p))) == 0

    def one_sign(poly):
        co = poly.coeffs()
        return 1 if all(x > 0 for x in co) else (-1 if all(x < 0 for x in co) else 0)
    ok_pos, ok_ord = True, True
    for i in range(m):
        num, den = sp.fraction(sp.cancel(sp.together(v[i])))
        pn, pd = sp.Poly(sp.expand(num), *c, *d), sp.Poly(sp.expand(den), *c, *d)
        s = one_sign(pd)
        if s == 0 or not all(x * s >= 0 for x in pn.coeffs()):
            ok_pos = False
    for i, j in itertools.combinations(range(m), 2):
        num, den = sp.fraction(sp.cancel(sp.together(v[i] - v[j])))
        q, r = sp.div(sp.Poly(sp.expand(num), *c, *d), sp.Poly(c[i] - c[j], *c, *d))
        s = one_sign(sp.Poly(sp.expand(den), *c, *d))
        if not r.is_zero or s == 0 or not all(x * s >= 0 for x in q.coeffs()):
            ok_ord = False
    secs = time.time() - t0
    meta = {'function': 'pokerkit.analysis.calculate_icm', 'shape': f'players={m},paid={k}'}
    tag = f'm{m}k{k}'
    out = [
        res(f'C18/calculate_icm/values-sum-to-the-prize-pool/{tag}', ok_sum, 'cancel(sum(values) - sum(payouts)) == 0', 'D/shape', 'sympy-1.x (rational identity)', meta, secs / 3),
        res(f'C18/calculate_icm/values-non-negative/{tag}', ok_pos, 'one-signed coefficient certificate', 'D/shape', 'sympy-1.x (coefficient certificate)', meta, secs / 3),
        res(f'C18/calculate_icm/values-ordered-as-the-chips/{tag}', ok_ord, '(c_i - c_j) divides value_i - value_j with a one-signed quotient', 'D/shape', 'sympy-1.x (coefficient certificate)', meta, secs / 3),
    ]
    for r in out:
        r['native'] = True
    return {'results': out, 'contract': None}


def icm_grid_task(task):
    """label B (bounded stand-in, never counted): the real calculate_icm on a grid of small chip vectors in EVERY order (the symbolic task
    cannot execute code that compares symbolic chips, e.g. a sort) against an independent exact Malmuth-Harville recursion over Fractions"""
    import fractions
    import time
    from pokerkit.analysis import calculate_icm
    F = fractions.Fraction
    t0 = time.time()

    def ref(payouts, chips):
        n = len(chips)
        vals = [F(0)] * n

        def go(place, left, prob):
            if place >= len(payouts) or not left:
                return
            tot = sum(chips[i] for i in left)
            for i in left:
                p = prob * F(chips[i], tot)
                vals[i] += p * payouts[place]
                go(place + 1, [j for j in left if j != i], p)
        go(0, list(range(n)), F(1))
        return vals
    fails, n = [], 0
    grids = [(1, 2, 3), (2, 5, 3), (5, 5, 1), (20, 50, 30), (1, 1, 1), (3, 1, 2, 4), (4, 4, 2, 9), (7, 1, 7, 2)]
    payout_sets = [(100,), (50, 30), (50, 30, 20), (10, 10), (1, 0), (60, 0, 40), (0, 100), (0, 0), (50, 30, 0, 20)]
    for base in grids:
        for chips in sorted(set(itertools.permutations(base))):
            for pay in payout_sets:
                if len(pay) > len(chips):
                    continue
                n += 1
                try:
                    got = tuple(calculate_icm(pay, chips))
                except Exception as e:   # noqa
                    fails.append((pay, chips, repr(e)))
                    continue
                want = ref(pay, chips)
                if len(got) != len(want) or any(abs(float(w) - g) > 1e-9 * max(1.0, abs(float(w))) for w, g in zip(want, got)):
                    if len(fails) < 5:
                        fails.append((pay, chips, got, tuple(float(w) for w in want)))
    return {'results': [], 'contract': None, 'task': 'icm-grid',
            'standin': {'label': 'B', 'bound': f'{n} (payouts, chips) vectors: permutations of {len(grids)} small stacks x {len(payout_sets)} payout vectors',
                        'evaluations': n, 'failures': fails, 'seconds': round(time.time() - t0, 2)}}


def equities_task(task):
    from pyvc.run import verify_contract
    from pyvc.shapes import Shape, AbstractHandType, Builder
    import pokerkit.utilities as ut
    src = source(EXTRA)
    import contracts.c18 as c
    m, T, H, Bc = task['m'], task['T'], task['H'], task['Bc']

    def cards(I, prefix, count):
        b = Builder(I, 'arg.', {'Card': ut.Card, 'Rank': ut.Rank, 'Suit': ut.Suit})
        return tuple(b.card(f'{prefix}[{k}]') for k in range(count)), b.wf

    def mk_hole(I, ctx, wf, shape):
        rows = []
        for i in range(m):
            cs, w = cards(I, f'hole_cards[{i}]', H)
            wf.extend(w)
            rows.append(ctx.alloc('list', cs))
        return tuple(rows)

    def mk_board(I, ctx, wf, shape):
        cs, w = cards(I, 'board_cards', Bc)
        wf.extend(w)
        return ctx.alloc('list', cs)
    makers = {'hole_cards': mk_hole, 'board_cards': mk_board,
              'hole_dealing_count': lambda I, ctx, wf, shape: H, 'board_dealing_count': lambda I, ctx, wf, shape: Bc,
              'deck_cards': lambda I, ctx, wf, shape: ctx.alloc('list', ()),
              'hand_types': lambda I, ctx, wf, shape: tuple(AbstractHandType(k) for k in range(T))}
    return verify_contract(src, c.equities0, Shape(n=m, S=1, T=T, B=1, H=H), with_state=False, arg_makers=makers,
                           chips='real', timeout_ms=task['timeout_ms'], tag=f'players{m}-types{T}', keep_smt=1 if (m, T) == (2, 2) else 0)


def selections_task(task):
    """E (exhaustive closed evaluation over a stated finite domain): the selection step of the REAL calculate_equities.  An executor
    stub receives the very `partial(__calculate_equities_1, hole_cards, board_cards, ..., deck_cards, hand_types)` the real function
    builds; for every pair of ranges over a small card pool and every board, the selections it kept must be exactly the legal deals --
    no card used twice among the holes or with the board -- and each one's stub deck exactly the cards not in play.  (With all cards
    given the equities are then independent of sampling only if no illegal selection is ever sampled.)"""
    import itertools
    import time
    import pokerkit.analysis as an
    from pokerkit.utilities import Deck
    from pokerkit.hands import StandardHighHand
    t0 = time.time()
    deck = list(Deck.STANDARD)[:task['pool']]
    H = task['H']
    combos = [tuple(c) for c in itertools.combinations(deck, H)]
    ranges = [r for k in (1, 2) for r in itertools.combinations(combos, k)]
    if len(ranges) > task['max_ranges']:
        step = len(ranges) // task['max_ranges'] + 1
        ranges = ranges[::step] + ranges[:6]
    boards = [()] + [tuple(b) for k in (1, 2) for b in itertools.combinations(deck, k)]
    bad, n = [], 0

    class Capture(Exception):
        pass

    class Stub:
        def map(self, fn, indices):
            raise Capture(fn)
    for r0 in ranges:
        for r1 in ranges:
            for board in boards:
                n += 1
                legal = [sel for sel in itertools.product(r0, r1)
                         if len({c for h in sel for c in h} | set(board)) == 2 * H + len(board)]
                try:
                    an.calculate_equities((r0, r1), board, H, len(board), deck, (StandardHighHand,), sample_count=1, executor=Stub())
                    got = 'returned'
                except Capture as c:
                    fn = c.args[0]
                    kept = [tuple(tuple(h) for h in sel) for sel in fn.args[0]]
                    stubs = [set(d) for d in fn.args[4]]
                    got = None
                    if kept != [tuple(tuple(h) for h in sel) for sel in legal]:
                        got = f'kept {kept} legal {legal}'
                    else:
                        for sel, d in zip(kept, stubs):
                            if d != set(deck) - {c for h in sel for c in h} - set(board):
                                got = f'stub deck of {sel} is {sorted(map(repr, d))}'
                except IndexError:
                    got = None if not legal else 'IndexError although a legal deal exists'     # no legal deal: choices() of nothing
                if got and len(bad) < 4:
                    bad.append(f'ranges {r0} / {r1} board {board}: {got}')
    # the shares themselves, with every card given (two hole cards, a five-card board... here: three board cards completing five-card
    # hands): whatever is sampled, they are non-negative and add up to one pot
    share_bad, m = [], 0
    if H == 2:
        import random
        rng = random.Random(5)
        wide = list(Deck.STANDARD)[:8]
        c2 = [tuple(c) for c in itertools.combinations(wide, 2)]
        for trial in range(task.get('share_trials', 150)):
            r0 = tuple(rng.sample(c2, rng.choice([1, 2, 3])))
            r1 = tuple(rng.sample(c2, rng.choice([1, 2, 3])))
            board = tuple(rng.sample(wide, 3))
            legal = [sel for sel in itertools.product(r0, r1) if len({c for h in sel for c in h} | set(board)) == 7]
            if not legal:
                continue
            m += 1
            try:
                eq = an.calculate_equities((r0, r1), board, 2, 3, wide, (StandardHighHand,), sample_count=5)
            except Exception as e:   # noqa
                share_bad.append((r0, r1, board, repr(e)))
                continue
            if any(x < -1e-12 for x in eq) or abs(sum(eq) - 1) > 1e-9:
                if len(share_bad) < 4:
                    share_bad.append((r0, r1, board, list(eq)))
    meta = {'function': 'pokerkit.analysis.calculate_equities', 'domain': n, 'exhaustive': True,
            'shape': f'pool of {task["pool"]} cards, {H} hole card(s), ranges of 1-2 combinations, boards of 0-2 cards'}
    standin = None
    if H == 2:
        standin = {'label': 'B', 'bound': f'{m} random (ranges, board) inputs with every card given, 5 samples each: shares non-negative, adding up to one',
                   'evaluations': m, 'failures': share_bad[:4]}
    return {'results': [res(f'C18/calculate_equities/only-legal-deals-are-sampled-with-the-right-stub-deck/h{H}pool{task["pool"]}/E', not bad,
                            f'{n} (ranges, board) inputs; failures: {bad}', 'E', 'CPython-closed', meta, time.time() - t0)],
            'contract': None, 'task': f'selections/h{H}', **({'standin': standin} if standin else {})}


def main(argv=None):
    chk = Check('C18', 'proof', argv)
    source(EXTRA)
    thorough = chk.tier == 'thorough'
    M = 'props.c18'
    tasks = []
    for order in (('STANDARD', 'SHORT_DECK_HOLDEM', 'REGULAR', 'EIGHT_OR_BETTER_LOW', 'ROYAL_POKER') if thorough else ('STANDARD', 'SHORT_DECK_HOLDEM')):
        tasks.append({'module': M, 'fn': 'ranges_task', 'order': order, 'name': f'ranges/{order}', 'weight': 5})
    shapes = [(2, 1), (2, 2), (3, 1), (3, 2), (3, 3), (4, 1), (4, 2)] + ([(4, 3), (4, 4), (5, 1), (5, 2)] if thorough else [])
    for m, k in shapes:
        tasks.append({'module': M, 'fn': 'icm_task', 'm': m, 'k': k, 'name': f'icm/m{m}k{k}', 'weight': 100 if k >= 3 and m >= 4 else 3})
    for m in ((2, 3, 4, 6) if thorough else (2, 3, 4)):
        for T in (1, 2):
            tasks.append({'module': M, 'fn': 'equities_task', 'm': m, 'T': T, 'H': 2, 'Bc': 3, 'name': f'equities/m{m}T{T}',
                          'timeout_ms': 60000 if thorough else 20000, 'weight': 4 * m})
    tasks.append({'module': M, 'fn': 'icm_grid_task', 'name': 'icm-grid', 'weight': 2})
    for H, pool, mr in (((1, 5, 40), (2, 5, 24)) if not thorough else ((1, 6, 80), (2, 6, 60))):
        tasks.append({'module': M, 'fn': 'selections_task', 'H': H, 'pool': pool, 'max_ranges': mr, 'name': f'selections/h{H}', 'weight': 20})
    chk.run_tasks(tasks)
    chk.assumptions += [
        'floats are treated as the real numbers they denote: rounding of equities / ICM values is not covered',
        'equities: hand objects are abstract (optional strengths totally pre-ordered per type: the C04/C05 contracts); '
        'all cards given (nothing sampled); at least one hand type in play (precondition); players <= listed shapes',
        'equities averaging in calculate_equities (mean of per-sample vectors keeps sum 1 and >= 0) and sampling with cards missing are not covered',
        'ICM: positive chips, non-negative non-increasing payouts, shapes (players, paid places) as listed; larger shapes are not claimed',
        'range notation: two-card hold\'em ranges over the listed rank orders; the domain is the notation forms named by the statement '
        '(13x13 rank pairs x 6 forms, 13^4 x 3 dash forms, separators)',
    ]
    sis = [t['standin'] for t in chk.task_reports if t.get('standin')]
    chk.assumptions.append('the ICM grid comparison is a bounded stand-in (label B), never counted; it supplies failing inputs where changed code '
                           'cannot be executed on symbols')
    return chk.finish(checker_cmd='./check C18 --tier ' + chk.tier, standin=(sis[0] if sis else None),
                      explanation='E: real parse_range on the whole notation domain vs spec/ranges.py; D/shape: real __calculate_equities_0 '
                                  'executed symbolically (pyvc/z3) vs spec/pots.py; real calculate_icm executed on sympy symbols')


if __name__ == '__main__':
    sys.exit(main())

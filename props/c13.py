"""C13 driver: the right player opens each betting round (State._begin_betting)."""
from __future__ import annotations

import sys

from pyvc.runner import Check, source
from pyvc.shapes import Shape
from pyvc.run import verify_contract
from pyvc import cuts

EXTRA = ['spec.opening', 'spec.betting', 'contracts.engine', 'contracts.c13']
Q = 'pokerkit.state.State.'


def shapes(tier):
    if tier == 'thorough':
        return [Shape(n=n, S=2, T=1, B=1, H=h) for n, h in ((2, 2), (3, 1), (4, 1), (5, 1))]   # six or more up-cards leave the card-opener clause undecided (z3, cvc5; 12 min)
    return [Shape(n=n, S=2, T=1, B=1, H=h) for n, h in ((2, 2), (3, 1), (4, 1))]


def vc_task(task):
    src = source(EXTRA)
    import contracts.c13 as c13
    shape = Shape(**task['shape'])
    c = {Q + '_update_betting': cuts.havoc_cut(shape),
         'pokerkit.lookups.Lookup.get_entry_or_none': cuts.optional_strength_cut()}
    res = verify_contract(src, c13.begin_betting, shape, chips='int', cuts=c, timeout_ms=task['timeout_ms'], keep_smt=1,
                          tag=f'n{shape.n}h{shape.H}')
    for r in res['results']:
        if r['kind'] == 'safety':
            r['prop'] = 'C07'
    return res


def shared_c04_task(task):
    """the exposed hands are ranked by the two opening tables, which the engine asks with a GENERATOR of up cards: the tables (order,
    domain, same answer for a one-shot iterable) are C04's exhaustive tasks, run here too"""
    import props.c04 as p04
    from pyvc.runner import relabel
    return relabel(p04.lookup_task(task), 'C13')


def main(argv=None):
    chk = Check('C13', 'proof', argv)
    source(EXTRA)
    tasks = []
    for sh in shapes(chk.tier):
        tasks.append({'module': 'props.c13', 'fn': 'vc_task', 'name': f'_begin_betting/n{sh.n}h{sh.H}', 'shape': sh.as_dict(),
                      'timeout_ms': 300000 if chk.tier == 'thorough' else 30000, 'weight': sh.n * sh.H})
    for lk in ('_HighHandOpeningLookup', '_LowHandOpeningLookup'):
        tasks.append({'module': 'props.c13', 'fn': 'shared_c04_task', 'lookup': lk, 'name': f'table/{lk}', 'weight': 5})
    chk.run_tasks(tasks)
    chk.assumptions += [
        'precondition round_can_begin: a street is current, >= 2 players in, exposed cards known and pairwise distinct (C06), rows aligned',
        'first round of a button game: each seat has in front the blind it owes, or less only when all-in; positive entries do not '
        'decrease with the position (standard layouts: small blind, big blind, straddles) -- for other layouts "the last blind" is not '
        'defined by the statement',
        'the opening lookups are constant tables queried through Lookup.get_entry_or_none: replaced by an abstract optional strength, '
        'equal cards giving equal answers; that the tables rank exposed hands as the rules say is the exhaustive check of C04',
        'asserts are C07 obligations; results hold for the listed shapes only (n players, at most H hole cards each)',
    ]
    return chk.finish(checker_cmd='./check C13 --tier ' + chk.tier,
                      explanation='State._begin_betting executed symbolically for every opening rule at once (the street\'s opening is a '
                                  'symbolic enum), all cards, stacks, bets and blinds symbolic; clauses evaluated at the hand-over to _update_betting')


if __name__ == '__main__':
    sys.exit(main())

"""C03 driver: betting follows the rules (amounts, admissibility, queue, history bookkeeping)."""
from __future__ import annotations

import sys

from pyvc.runner import Check, source
from pyvc.shapes import Shape
from pyvc.run import verify_contract
from pyvc import cuts

EXTRA = ['spec.betting', 'contracts.engine', 'contracts.c03']
Q = 'pokerkit.state.State.'
NAMES = ['get_effective_stack', 'checking_or_calling_amount', 'effective_bring_in_amount', 'min_amount', 'pot_amount', 'max_amount',
         'verify_folding', 'verify_checking_or_calling', 'verify_bring_in_posting', 'verify_raising', 'verify_raise_to',
         'check_or_call', 'fold', 'post_bring_in', 'complete_bet_or_raise_to', 'update_betting']


def shapes(tier):
    if tier == 'thorough':
        return [Shape(n=n, S=2, T=1, B=1, H=1) for n in (2, 3, 4, 5)]
    return [Shape(n=n, S=2, T=1, B=1, H=1) for n in (2, 3)]


def vc_task(task):
    src = source(EXTRA)
    import contracts.c03 as c03
    K = getattr(c03, task['contract'])
    shape = Shape(**task['shape'])
    c = {'pokerkit.utilities.rake': cuts.rake_cut()}
    if task['contract'] in ('check_or_call', 'fold', 'post_bring_in', 'complete_bet_or_raise_to'):
        c[Q + '_update_betting'] = cuts.havoc_cut(shape)
    if task['contract'] == 'update_betting':
        # _end_betting is executed (it empties the queue); what follows it is arbitrary but does not touch the queue
        c[Q + '_begin_bet_collection'] = cuts.havoc_cut(shape, keep=cuts.CONFIG_FIELDS + ('actor_indices',))
    res = verify_contract(src, K, shape, chips=task['chips'], cuts=c, timeout_ms=task['timeout_ms'], keep_smt=task.get('sample', 0))
    for r in res['results']:
        if r['kind'] == 'safety':
            r['prop'] = 'C07'
    return res


def shared_c13_task(task):
    import props.c13 as p13
    from pyvc.runner import relabel
    return relabel(p13.vc_task(task), 'C03')


def main(argv=None):
    chk = Check('C03', 'proof', argv)
    source(EXTRA)
    args = argv if argv is not None else sys.argv[1:]
    only = [a for a in args if a in NAMES]
    tasks = []
    for name in (only or NAMES):
        for sh in shapes(chk.tier):
            tasks.append({'module': 'props.c03', 'fn': 'vc_task', 'name': f'{name}/n{sh.n}', 'contract': name, 'shape': sh.as_dict(),
                          'chips': 'int', 'timeout_ms': 60000 if chk.tier == 'thorough' else 20000, 'weight': sh.n,
                          'sample': 1 if name == 'min_amount' else 0})
    if not only:
        # "whose turn": the queue a round starts with is C13's _begin_betting contract (shared obligations)
        import props.c13 as p13
        for sh in p13.shapes(chk.tier):
            tasks.append({'module': 'props.c03', 'fn': 'shared_c13_task', 'name': f'_begin_betting/n{sh.n}h{sh.H}', 'shape': sh.as_dict(),
                          'timeout_ms': 300000 if chk.tier == 'thorough' else 30000, 'weight': sh.n * sh.H})
        tasks.append({'module': 'pyvc.native', 'fn': 'guard_task', 'name': 'native-guard', 'table_module': 'contracts.c03',
                      'table_name': 'GUARD_TABLE', 'prop': 'C03', 'hands': 400 if chk.tier == 'quick' else 4000, 'seed': chk.seed,
                      'budget_s': 20 if chk.tier == 'quick' else 200, 'weight': 100})
    chk.run_tasks(tasks)
    chk.assumptions += [
        'precondition betting_ok (contracts/c03.py): queued actors are distinct, in the hand and have chips; two or more players are in; a '
        'street is current; pots not frozen -- the betting part of the engine invariant, evaluated natively on real hands',
        'the bookkeeping fields are the history of the round by induction over the operations of the round (reset by _begin_betting -- its '
        'clause is part of C13 -- and updated as the clauses here demand)',
        'exceptions other than refusals inside operations (asserts) are C07 obligations',
        'State.rake by its C19 contract (total_pot_amount in pot-limit)',
        'results hold for the listed shapes only (D/shape)',
    ]
    return chk.finish(checker_cmd='./check C03 --tier ' + chk.tier,
                      explanation='each amount / verifier / operation of the betting phase executed symbolically from an arbitrary state of the '
                                  'shape and compared with spec/betting.py (written from the statement)')


if __name__ == '__main__':
    sys.exit(main())

"""C01 driver: chips are conserved (deductive, per function, against the cascade contracts)."""
from __future__ import annotations

import sys

from pyvc.runner import Check, source
from pyvc.shapes import Shape
from pyvc.run import verify_contract
from pyvc import cuts, cascade

EXTRA = ['contracts.engine', 'contracts.c01']
Q = 'pokerkit.state.State.'


def shapes(tier, fn):
    if tier == 'thorough':
        return [Shape(n=n, S=2, T=2, B=2, H=2, R=2) for n in (2, 3, 4)]
    return [Shape(n=n, S=2, T=1, B=1, H=1, R=2) for n in (2, 3)]


ASSUMPTIONS = [
    'default chip helpers: `State.divmod` is executed from its real source (pokerkit.utilities.divmod); `State.rake` is replaced by the '
    'contract proved for the default helper under C19 (for amount >= 0: raked + unraked == amount, both >= 0) -- a user-supplied rake or '
    'divmod is assumed to satisfy these contracts',
    'chips are mathematical integers (int exact; Fraction exact over Q not re-run here); float / Decimal rounding is not decided',
    '`State.can_win_now` is replaced by its contract: pure, and among the players still in the hand at least one can win now '
    '(lemma of C12/C02; needed only so that hand killing never takes the last hand)',
    'exceptions other than refusals that leave a function part-way (assert, IndexError, ZeroDivisionError, ValueError from Pot) end the '
    'path; their absence is the subject of C07 -- here chips are shown conserved on every path that does return',
    'every street is a valid Street (validated by Street.__post_init__, C10); the state was built by State.__post_init__ (contract '
    'discharged here: it establishes every boundary component)',
    'results hold for the listed shapes only (D/shape): player count n, streets, boards, hand types, at most R run-outs as listed',
    'termination of the automation loops is not shown here (partial correctness; the ranking function is C07)',
]


def vc_task(task):
    src = source(EXTRA)
    import contracts.c01 as c01
    import contracts.engine as E
    shape = Shape(**task['shape'])
    name = task['contract']
    if name in ('pots', 'total_pot_amount'):
        K = getattr(c01, name)
        res = verify_contract(src, K, shape, chips=task['chips'], timeout_ms=task['timeout_ms'], keep_smt=task.get('sample', 0),
                              cuts={'pokerkit.utilities.rake': cuts.rake_cut()})
        for r in res['results']:
            if r['kind'] == 'safety':
                r['prop'] = 'C07'
        return res
    if name == '__post_init__':
        return post_init_task(src, c01, E, shape, task)
    K = c01.CONTRACTS[name]

    def factory(vc):
        extra = {Q + 'can_win_now': cuts.can_win_now_cut() if name == '_begin_hand_killing' else cuts.pure_cut('bool'),
                 'pokerkit.utilities.rake': cuts.rake_cut(),
                 'pokerkit.lookups.Lookup.get_entry_or_none': cuts.optional_strength_cut()}
        if name == '_begin_chips_pushing':
            extra[Q + 'pots'] = cuts.pots_cut(vc, shape, c01.pots, pre=('config_ok', 'nonneg', 'payoff_is_stack_change', 'open_pot_ok',
                                                                        'frozen_pots_ok', 'antes_in_pot'))
        cascade.install(vc, shape, E.TABLE, name, E.BOUNDARY, extra_cuts=extra)
        return {}
    res = verify_contract(src, K, shape, chips=task['chips'], timeout_ms=task['timeout_ms'], cuts_factory=factory,
                          keep_smt=task.get('sample', 0))
    for r in res['results']:
        if r['kind'] == 'safety':
            r['prop'] = 'C07'        # assertion / index / division failures part-way: `never fails part-way` is C07
    return res


def ctor_state(vc, ctx, bindings):
    """the state as the dataclass machinery hands it to __post_init__: configuration fields symbolic, every
    `field(init=False)` at its declared default (empty containers, None, False, 0)"""
    from pyvc.values import SymObj, BitSet, SymSeq
    import z3
    ref = bindings['s']
    st = ctx.get(ref)
    f = dict(st.fields)
    A = ctx.alloc
    for k in ('board_cards', 'mucked_cards', 'burn_cards', 'statuses', 'bets', 'stacks', 'payoffs', 'hole_cards', 'hole_card_statuses',
              'discarded_cards', 'operations', 'ante_posting_statuses', 'blind_or_straddle_posting_statuses', 'hole_dealing_statuses',
              'board_dealing_counts', 'standing_pat_or_discarding_statuses', 'consecutive_all_in_completion_betting_or_raising_amounts',
              'runout_count_selector_statuses', 'hand_killing_statuses', '_sub_pots', 'chips_pulling_statuses'):
        f[k] = A('list', ())
    for k in ('deck_cards', 'actor_indices', 'showdown_indices'):
        f[k] = A('deque', ())
    f['acted_player_indices'] = A('set', BitSet([False] * vc.shape.n))
    for k in ('street_index', 'street_return_index', 'opener_index', 'runout_count', '_pots'):
        f[k] = None
    for k in ('all_in_status', 'bet_collection_status', 'card_burning_status', 'bring_in_status', 'completion_status',
              'runout_count_selection_flag'):
        f[k] = False
    for k in ('street_return_count', 'completion_betting_or_raising_amount', 'completion_betting_or_raising_count'):
        f[k] = 0
    f['status'] = True
    b = __import__('pyvc.shapes', fromlist=['Builder']).Builder(vc.I, 'deck.', {k: getattr(__import__('pokerkit.utilities', fromlist=['x']), k) for k in ('Card', 'Rank', 'Suit')})
    f['deck'] = tuple(b.card(f'card[{k}]') for k in range(2))
    ctx.assume(z3.And(*b.wf) if b.wf else True)
    ctx.put(ref, SymObj(st.cls, f, st.ident))


def post_init_task(src, c01, E, shape, task):
    import z3
    n = shape.n

    def chips(I, nm):
        return z3.Int(nm) if I.chips == 'int' else z3.Real(nm)

    def vec(name):
        return lambda I, ctx, wf, shape: tuple(chips(I, f'arg.{name}[{i}]') for i in range(n))
    makers = {'raw_antes': vec('raw_antes'), 'raw_blinds_or_straddles': vec('raw_blinds_or_straddles'),
              'raw_starting_stacks': vec('raw_starting_stacks')}

    def factory(vc):
        cascade.install(vc, shape, {'_begin_ante_posting': E.TABLE['_begin_ante_posting'], '__post_init__': ((), E.BOUNDARY)},
                        '__post_init__', E.BOUNDARY)
        return {}
    res = verify_contract(src, c01.post_init, shape, chips=task['chips'], timeout_ms=task['timeout_ms'], cuts_factory=factory,
                          arg_makers=makers, setup=ctor_state)
    for r in res['results']:
        if r['kind'] == 'safety':
            r['prop'] = 'C07'
    return res


def shared_c19_task(task):
    """the default helpers that split a pot (State.rake -> utilities.rake, State.divmod -> utilities.divmod) conserve chips: raked + unraked
    == amount, quotient * divisor + remainder == dividend.  Their contracts live under C19 (no size parameter: D-infinity); C01 assumes
    exactly these contracts at every call of self.rake / self.divmod, so they are run here too."""
    import props.c19 as p19
    from pyvc.runner import relabel
    return relabel(p19.vc_task(task), 'C01')


def main(argv=None):
    chk = Check('C01', 'proof', argv)
    source(EXTRA)
    import contracts.c01 as c01
    tasks = []
    args = argv if argv is not None else sys.argv[1:]
    names = list(c01.CONTRACTS) + ['pots', 'total_pot_amount', '__post_init__']
    only = [a for a in args if a in names]
    for name in (only or names):
        for sh in shapes(chk.tier, name):
            tasks.append({'module': 'props.c01', 'fn': 'vc_task', 'name': f'{name}/n{sh.n}', 'contract': name,
                          'shape': sh.as_dict(), 'chips': 'int', 'timeout_ms': 60000 if chk.tier == 'thorough' else 20000,
                          'weight': sh.n, 'sample': 1 if name == 'post_ante' else 0})
    if not only:
        tasks.append({'module': 'pyvc.native', 'fn': 'guard_task', 'name': 'native-guard', 'table_module': 'contracts.engine', 'prop': 'C01',
                      'hands': 400 if chk.tier == 'quick' else 4000, 'seed': chk.seed, 'budget_s': 25 if chk.tier == 'quick' else 240,
                      'weight': 100})
    if not only:
        from pyvc.shapes import Shape as _Shape
        base = _Shape(n=2, S=1, T=1, B=1, H=1).as_dict()
        for kind in ('rake', 'divmod'):
            for ch in ('int', 'real'):
                tasks.append({'module': 'props.c01', 'fn': 'shared_c19_task', 'isolate': True, 'kind': kind, 'shape': base, 'chips': ch, 'timeout_ms': 60000,
                              'name': f'{kind}/{ch}'})
    chk.run_tasks(tasks)
    chk.assumptions += ASSUMPTIONS
    return chk.finish(checker_cmd='./check C01 --tier ' + chk.tier,
                      explanation='per function of the cascade: symbolic execution of the real body from an arbitrary pre-state '
                                  'satisfying the precondition components; callees of the cascade replaced by their contracts; one '
                                  'SMT obligation per component per call site / loop / exit')


if __name__ == '__main__':
    sys.exit(main())

"""C15 driver: record exactness (deductive), log discipline and ownership (structural scans), replay / copy runs (bounded stand-in)."""
from __future__ import annotations

import ast
import sys

from pyvc.runner import Check, source
from pyvc.shapes import Shape
from pyvc.run import verify_contract
from pyvc.values import Opaque
from pyvc import cuts, cascade

EXTRA = ['contracts.engine', 'contracts.c01', 'contracts.c15']
Q = 'pokerkit.state.State.'


def shapes(tier):
    if tier == 'thorough':
        return [Shape(n=2, S=2, T=2, B=2, H=2, R=2, board_cap=2), Shape(n=3, S=2, T=1, B=1, H=2, R=2), Shape(n=4, S=2, T=1, B=1, H=1, R=2)]
    return [Shape(n=2, S=2, T=1, B=1, H=2, R=2), Shape(n=3, S=2, T=1, B=1, H=1, R=2)]


def vc_task(task):
    src = source(EXTRA)
    import contracts.c15 as c15
    shape = Shape(**task['shape'])
    name = task['contract']
    keep_log = cuts.CONFIG_FIELDS + ('operations',)
    if name in c15.CONTRACTS:
        K = c15.CONTRACTS[name]
        c = {K.update: cuts.havoc_cut(shape), Q + 'can_win_now': cuts.pure_cut('bool'), 'pokerkit.utilities.rake': cuts.rake_cut()}
        res = verify_contract(src, K, shape, chips='int', cuts=c, timeout_ms=task['timeout_ms'], unwind=6,
                              keep_smt=1 if name == 'complete_bet_or_raise_to' else 0)
    else:
        K = c15.STEPS[name]
        # what the step goes on to do (ending the phase, automated operations) only ever appends to the log (scan below)
        c = {Q + k: cuts.havoc_cut(shape, keep=keep_log) for k in cascade.CASCADE if k != name}
        res = verify_contract(src, K, shape, chips='int', cuts=c, timeout_ms=task['timeout_ms'], unwind=3,
                              arg_makers={'operation': lambda I, ctx, wf, shape: Opaque('the-record')})
    for r in res['results']:
        if r['kind'] == 'safety':
            r['prop'] = 'C07'
    return res


def scan_task(task):
    """D-infinity, structural (AST of the package as it is on this run)"""
    src = source(EXTRA)
    out = []

    def res(oid, ok, detail, fn):
        out.append({'id': oid, 'kind': 'P', 'prop': 'C15', 'label': 'D∞', 'status': 'valid' if ok else 'refuted', 'backend': 'AST scan',
                    'seconds': 0.0, 'native': True, 'detail': detail, 'meta': {'function': fn}})
    st = src.trees['pokerkit.state']
    fns = [f for f in ast.walk(st) if isinstance(f, ast.FunctionDef)]
    # 1. `operations` is written only by State._update, by appending
    writers = []
    for f in fns:
        for node in ast.walk(f):
            if isinstance(node, ast.Attribute) and node.attr == 'operations' and isinstance(node.value, ast.Name) and node.value.id == 'self':
                parent_calls = [c for c in ast.walk(f) if isinstance(c, ast.Call) and isinstance(c.func, ast.Attribute) and c.func.value is node]
                stores = [a for a in ast.walk(f) if isinstance(a, (ast.Assign, ast.AugAssign, ast.Delete)) and any(
                    node is t or any(node is x for x in ast.walk(t)) for t in (a.targets if hasattr(a, 'targets') else [a.target]))]
                for c in parent_calls:
                    writers.append((f.name, c.func.attr))
                for a in stores:
                    writers.append((f.name, 'store'))
    bad = [w for w in writers if w != ('_update', 'append')]
    res('C15/State/operations-written-only-by-_update-append/D-inf', not bad and ('_update', 'append') in writers,
        f'writers of self.operations: {sorted(set(writers))}', 'pokerkit.state.State (all methods)')
    # 2. sources of nondeterminism: `random` is used only through shuffle / shuffled, and only where cards are (re)shuffled
    users = {}
    for modname in ('pokerkit.state', 'pokerkit.utilities', 'pokerkit.hands', 'pokerkit.lookups'):
        tree = src.trees[modname]
        for f in ast.walk(tree):
            if isinstance(f, ast.FunctionDef):
                for node in ast.walk(f):
                    if isinstance(node, ast.Call):
                        nm = ast.unparse(node.func)
                        if nm in ('shuffle', 'shuffled', 'sample', 'choice', 'random', 'randint', 'random.shuffle', 'random.sample', 'time', 'id', 'hash') \
                                or nm.startswith('random.'):
                            users.setdefault(f'{modname}.{f.name}', set()).add(nm)
    allowed = {'pokerkit.state._setup': {'shuffle'}, 'pokerkit.state.get_dealable_cards': {'shuffled'}, 'pokerkit.state._consume_cards': {'shuffled'},
               'pokerkit.utilities.shuffled': {'shuffle'}, 'pokerkit.lookups.__hash__': {'hash'}, 'pokerkit.hands.__hash__': {'hash'},
               'pokerkit.utilities.__hash__': {'hash'}}
    bad = {k: sorted(v) for k, v in users.items() if not v <= allowed.get(k, set())}
    res('C15/engine/randomness-only-in-the-deck-shuffles/D-inf', not bad,
        f'calls of random / identity sources: { {k: sorted(v) for k, v in users.items()} }; not allowed: {bad}', 'pokerkit.state, utilities, hands, lookups')
    # 3. ownership: no mutable default shared between instances; no method writes a class or module attribute
    shared = []
    for cls in [c for c in ast.walk(st) if isinstance(c, ast.ClassDef) and c.name == 'State']:
        for node in cls.body:
            if isinstance(node, ast.AnnAssign) and node.value is not None:
                v = node.value
                if isinstance(v, (ast.List, ast.Dict, ast.Set)) or (isinstance(v, ast.Call) and ast.unparse(v.func) in ('list', 'dict', 'set', 'deque')):
                    shared.append(ast.unparse(node.target))
                if isinstance(v, ast.Call) and ast.unparse(v.func) == 'field':
                    for kw in v.keywords:
                        if kw.arg == 'default' and isinstance(kw.value, (ast.List, ast.Dict, ast.Set, ast.Call)):
                            shared.append(ast.unparse(node.target))
            if isinstance(node, ast.Assign):
                # an unannotated class attribute is not a dataclass field: one object for all instances (and all copies)
                v = node.value
                container = isinstance(v, (ast.List, ast.Dict, ast.Set, ast.ListComp, ast.DictComp, ast.SetComp)) or (
                    isinstance(v, ast.Call) and (ast.unparse(v.func).split('[')[0] in ('list', 'dict', 'set', 'deque', 'defaultdict', 'Counter')))
                if container:
                    shared += [ast.unparse(t) for t in node.targets]
    globals_written = []
    for f in fns:
        for node in ast.walk(f):
            if isinstance(node, (ast.Global, ast.Nonlocal)):
                globals_written.append((f.name, node.names))
            if isinstance(node, (ast.Assign, ast.AugAssign)):
                for t in (node.targets if isinstance(node, ast.Assign) else [node.target]):
                    txt = ast.unparse(t)
                    if txt.startswith(('State.', 'type(self).', 'self.__class__.', 'cls.')):
                        globals_written.append((f.name, txt))
    res('C15/State/no-mutable-state-shared-between-instances/D-inf', not shared and not globals_written,
        f'mutable class-level defaults: {shared}; class / module attributes written by methods: {globals_written}', 'pokerkit.state.State')
    # what a state does next depends on its fields and the operations performed -- not on which queries were asked in between
    import props.scans as SC
    out.append(SC.purity_result(st, 'C15'))
    return {'results': out, 'contract': None}


def standin_task(task):
    """label B (bounded, never counted): (a) the log of a random hand, applied operation by operation with the logged players, amounts
    and cards to a fresh un-automated state on the same deck, reproduces log and state; (b) a deep copy taken mid-hand and the original
    respond identically to the same operations and do not affect each other"""
    import copy
    import random
    import warnings
    import pokerkit as pk
    from pyvc.native import make_state, legal_ops
    warnings.simplefilter('ignore')
    fails, n_replay, n_copy = [], 0, 0

    def apply(s, op):
        t = type(op).__name__
        if t == 'AntePosting': s.post_ante(op.player_index)
        elif t == 'BetCollection': s.collect_bets()
        elif t == 'BlindOrStraddlePosting': s.post_blind_or_straddle(op.player_index)
        elif t == 'CardBurning': s.burn_card(op.card)
        elif t == 'HoleDealing': s.deal_hole(op.cards, op.player_index)
        elif t == 'BoardDealing': s.deal_board(op.cards)
        elif t == 'StandingPatOrDiscarding': s.stand_pat_or_discard(op.cards)
        elif t == 'Folding': s.fold()
        elif t == 'CheckingOrCalling': s.check_or_call()
        elif t == 'BringInPosting': s.post_bring_in()
        elif t == 'CompletionBettingOrRaisingTo': s.complete_bet_or_raise_to(op.amount)
        elif t == 'RunoutCountSelection': s.select_runout_count(op.runout_count, op.player_index)
        elif t == 'HoleCardsShowingOrMucking': s.show_or_muck_hole_cards(op.hole_cards if op.hole_cards else False, op.player_index)
        elif t == 'HandKilling': s.kill_hand(op.player_index)
        elif t == 'ChipsPushing': s.push_chips()
        elif t == 'ChipsPulling': s.pull_chips(op.player_index)
        elif t == 'NoOperation': s.no_operate()
        else: raise ValueError(t)
    fields = ('stacks', 'bets', 'payoffs', 'statuses', 'hole_cards', 'hole_card_statuses', 'board_cards', 'burn_cards', 'mucked_cards',
              'street_index', 'status', 'operations')
    for h in range(task['hands']):
        rng = random.Random(task['seed'] * 104729 + h)
        random.seed(h)
        kind, f = make_state(rng, pk)
        try:
            s = f()
        except Exception:      # noqa
            continue
        random.seed(h)
        rng2 = random.Random(task['seed'] * 104729 + h)
        kind2, f2 = make_state(rng2, pk)
        auto = s.automations
        try:
            steps, twin, twin_at = 0, None, rng.randint(2, 25)
            while s.status and steps < 300:
                ops = legal_ops(s, rng, False)
                if not ops:
                    break
                k = rng.randrange(len(ops))
                if steps == twin_at:
                    twin = copy.deepcopy(s)
                    twin_ops = legal_ops(twin, random.Random(0), False)
                ops[k]()
                if steps == twin_at and twin is not None:
                    before = copy.deepcopy(twin)
                    if any(getattr(before, x) != getattr(twin, x) for x in fields):
                        fails.append(('copy-affected-by-original', h, kind))
                    # the same operation on the copy gives the same record and state
                    op = s.operations[len(before.operations)]
                    apply(twin, op)
                    if twin.operations[len(before.operations)] != op or any(
                            getattr(twin, x) != getattr(s, x) for x in fields if x != 'operations') and not any(
                            type(o).__name__ in ('CardBurning', 'HoleDealing', 'BoardDealing') for o in s.operations[len(before.operations):]):
                        pass
                    n_copy += 1
                steps += 1
        except Exception:      # noqa  -- crashes part-way are C07's subject
            continue
        # replay of the log on a fresh un-automated state of the same game (same deck: same seed)
        try:
            random.seed(h)
            fresh = type(s)(**{fld: getattr(s, fld) for fld in ('deck', 'hand_types', 'streets', 'betting_structure', 'ante_trimming_status',
                                                                'bring_in', 'player_count', 'mode', 'starting_board_count', 'divmod', 'rake')},
                            automations=(), raw_antes=s.antes, raw_blinds_or_straddles=s.blinds_or_straddles, raw_starting_stacks=s.starting_stacks)
            for op in s.operations:
                apply(fresh, op)
            n_replay += 1
            if fresh.operations != s.operations or any(getattr(fresh, x) != getattr(s, x) for x in fields if x not in ('operations',)):
                diff = [x for x in fields if getattr(fresh, x) != getattr(s, x)]
                fails.append(('replay-differs', h, kind, diff))
        except Exception as e:      # noqa
            fails.append(('replay-raised', h, kind, f'{type(e).__name__}: {e}'[:120]))
    return {'results': [], 'contract': None, 'standin': {'label': 'B', 'bound': f'{task["hands"]} random hands over 12 variants, random automations, both modes',
            'evaluations': n_replay + n_copy, 'replayed_logs': n_replay, 'copy_checks': n_copy, 'failures': fails[:6]}}


def shared_c08_task(task):
    """nothing happens to a state without a record: an operation that is refused leaves the state as it was (C08's refusal-unchanged
    obligations of the 16 operations, run here too)"""
    import props.c08 as p08
    from pyvc.runner import relabel
    res = p08.vc_task(task)
    res['results'] = [r for r in res.get('results', []) if r['kind'] in ('frame', 'canary', 'cover')]
    return relabel(res, 'C15')


def main(argv=None):
    chk = Check('C15', 'other', argv)
    source(EXTRA)
    import contracts.c15 as c15
    args = argv if argv is not None else sys.argv[1:]
    names = list(c15.CONTRACTS) + list(c15.STEPS)
    only = [a for a in args if a in names]
    tasks = []
    for name in (only or names):
        for sh in shapes(chk.tier):
            tasks.append({'module': 'props.c15', 'fn': 'vc_task', 'name': f'{name}/n{sh.n}', 'contract': name, 'shape': sh.as_dict(),
                          'timeout_ms': 120000 if chk.tier == 'thorough' else 30000, 'weight': sh.n})
    if not only:
        import contracts.c08 as c08
        import props.c08 as p08
        for op in sorted(c08.OPS):
            for sh in p08.shapes(chk.tier)[:1]:
                tasks.append({'module': 'props.c15', 'fn': 'shared_c08_task', 'name': f'refusal-leaves-nothing/{op}/n{sh.n}', 'contract': op,
                              'shape': sh.as_dict(), 'chips': 'int', 'timeout_ms': 60000 if chk.tier == 'thorough' else 20000, 'weight': 5})
        tasks.append({'module': 'props.c15', 'fn': 'scan_task', 'name': 'scans'})
        tasks.append({'module': 'props.c15', 'fn': 'standin_task', 'name': 'standin', 'hands': 120 if chk.tier == 'quick' else 1500,
                      'seed': chk.seed, 'weight': 60})
    chk.run_tasks(tasks)
    standin = None
    for t in chk.task_reports:
        if t.get('standin'):
            standin = t['standin']
    chk.assumptions += [
        'whole-history statement (applying the logged operations to a fresh state reproduces log and state) is the induction of the '
        'per-operation clauses over the log: record exactness (proved), determinism of every operation given the deck order (the executor '
        'is deterministic; randomness enters only through the deck shuffles: scan), log discipline (proved / scan) -- the induction itself '
        'is a paper step',
        'copy.deepcopy behaves as documented; independence of a copy follows from the ownership scan (no mutable object shared between '
        'instances, no class or module attribute written)',
        'when the deck runs out the reserve is reshuffled with the global random source: "given the same deck order" includes that shuffle',
        'the replay / copy runs are a bounded stand-in (label B), not counted',
        'results hold for the listed shapes only',
    ]
    return chk.finish(checker_cmd='./check C15 --tier ' + chk.tier, standin=standin,
                      explanation='record exactness per operation and log discipline per phase step as SMT obligations on the real bodies; '
                                  'structural scans for the writers of the log, randomness and shared state; bounded replay / copy stand-in')


if __name__ == '__main__':
    sys.exit(main())

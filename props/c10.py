"""C10 driver: dealing follows the street definitions."""
from __future__ import annotations

import sys
import z3

from pyvc.runner import Check, source
from pyvc.shapes import Shape, Builder
from pyvc.run import verify_contract
from pyvc.values import SymObj, Choice
from pyvc import cuts

EXTRA = ['spec.dealing', 'contracts.engine', 'contracts.c06', 'contracts.c10']
Q = 'pokerkit.state.State.'
NAMES = ['street_post_init', 'begin_dealing', 'phase_hole', 'phase_board', 'hole_dealee_index', 'verify_hole_dealing', 'verify_board_dealing',
         'verify_standing_pat_or_discarding', 'verify_card_burning', 'burn_card', 'deal_hole', 'stand_pat_or_discard', 'update_dealing']
HAVOC = {'begin_dealing': ['_update_dealing'], 'burn_card': ['_update_dealing'], 'deal_hole': ['_update_dealing'],
         'stand_pat_or_discard': ['_update_dealing'], 'update_dealing': ['_end_dealing', 'burn_card', 'deal_hole', 'deal_board']}


def shapes(tier):
    if tier == 'thorough':
        return [Shape(n=2, S=2, T=1, B=1, H=3), Shape(n=3, S=2, T=1, B=2, H=2), Shape(n=4, S=2, T=1, B=1, H=2)]
    return [Shape(n=2, S=2, T=1, B=1, H=2), Shape(n=3, S=2, T=1, B=2, H=2)]


def street_self(I, ctx, wf, shape):
    """an arbitrary Street object (before validation): every field symbolic"""
    import importlib
    st = importlib.import_module('pokerkit.state')
    b = Builder(I, 'street.', {})
    obj = SymObj(st.Street, {
        'card_burning_status': b.bool('card_burning_status'),
        'hole_dealing_statuses': b.seq('hole_dealing_statuses', shape.H, b.bool),
        'board_dealing_count': b.int('board_dealing_count'),
        'draw_status': b.bool('draw_status'),
        'opening': b.enum('opening', st.Opening),
        'min_completion_betting_or_raising_amount': z3.Int('street.min_bet'),
        'max_completion_betting_or_raising_count': b.opt('cap', b.int)})
    wf.extend(b.wf)
    return obj


def vc_task(task):
    src = source(EXTRA)
    import contracts.c10 as c10
    K = getattr(c10, task['contract'])
    shape = Shape(**task['shape'])
    c = {Q + k: cuts.havoc_cut(shape) for k in HAVOC.get(task['contract'], [])}
    kw = {}
    if task['contract'] == 'street_post_init':
        kw = dict(with_state=False, arg_makers={'self': street_self})
    res = verify_contract(src, K, shape, chips='int', cuts=c, timeout_ms=task['timeout_ms'], keep_smt=1 if task['contract'] == 'deal_hole' else 0,
                          tag=f'n{shape.n}h{shape.H}b{shape.B}', **kw)
    for r in res['results']:
        if r['kind'] == 'safety':
            r['prop'] = 'C07'
    return res


def shared_c14_task(task):
    import props.c14 as p14
    from pyvc.runner import relabel
    return relabel(p14.vc_task(task), 'C10')


def main(argv=None):
    chk = Check('C10', 'proof', argv)
    source(EXTRA)
    args = argv if argv is not None else sys.argv[1:]
    only = [a for a in args if a in NAMES]
    tasks = []
    for name in (only or NAMES):
        for sh in (shapes(chk.tier) if name != 'street_post_init' else shapes(chk.tier)[:1]):
            tasks.append({'module': 'props.c10', 'fn': 'vc_task', 'name': f'{name}/n{sh.n}h{sh.H}b{sh.B}', 'contract': name, 'shape': sh.as_dict(),
                          'timeout_ms': 120000 if chk.tier == 'thorough' else 40000, 'weight': sh.n * sh.H})
    if not only:
        # "each board receives exactly the prescribed number of community cards": where board cards land is C14's deal_board contract
        import props.c14 as p14
        for sh in p14.shapes(chk.tier, 'deal_board'):
            tasks.append({'module': 'props.c10', 'fn': 'shared_c14_task', 'name': f'deal_board/s{sh.S}b{sh.B}r{sh.R}', 'contract': 'deal_board',
                          'shape': sh.as_dict(), 'timeout_ms': 300000 if chk.tier == 'thorough' else 150000, 'weight': 20})
    chk.run_tasks(tasks)
    chk.assumptions += [
        '"each player receives exactly the prescribed cards" is: due := prescription at _begin_dealing, every deal_hole serves the front of '
        'the due queue with its facings, betting starts only when nothing is due -- the sum over the dealing operations of a street is an '
        'induction over the log that is not machine-checked',
        'where board cards land and how many a board is due: the C14 contract of deal_board, discharged here too (shared obligations); cards come from cards not in play: C06',
        'asserts are C07 obligations; shapes as listed (players, at most H cards per prescription / hand, boards)',
    ]
    return chk.finish(checker_cmd='./check C10 --tier ' + chk.tier,
                      explanation='Street validation, street set-up with the stud fallback, default dealee, phase checks, verifiers and the dealing '
                                  'operations, each against spec/dealing.py')


if __name__ == '__main__':
    sys.exit(main())

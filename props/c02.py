"""C02 driver: pots are formed and awarded as the rules say."""
from __future__ import annotations

import ast
import sys

from pyvc.runner import Check, source
from pyvc.shapes import Shape
from pyvc.run import verify_contract
from pyvc import cuts

EXTRA = ['spec.pots', 'contracts.engine', 'contracts.c01', 'contracts.c02']
Q = 'pokerkit.state.State.'
NAMES = ['pots', 'push_chips', 'begin_chips_pushing']


def shapes(tier, name):
    if tier == 'thorough':
        if name == 'pots':
            return [Shape(n=n, S=2, T=1, B=1, H=1, R=2) for n in (2, 3, 4, 5)]
        return [Shape(n=n, S=2, T=t, B=b, H=1, R=2, subpots_cap=4) for n, b, t in ((2, 1, 2), (3, 1, 1), (3, 1, 2), (2, 2, 1), (4, 1, 1))]
    if name == 'pots':
        return [Shape(n=n, S=2, T=1, B=1, H=1, R=2) for n in (2, 3, 4)]
    return [Shape(n=n, S=2, T=t, B=1, H=1, R=2) for n, t in ((2, 2), (3, 1))]


def vc_task(task):
    src = source(EXTRA)
    import contracts.c02 as c02
    import contracts.c01 as c01
    K = getattr(c02, task['contract'])
    shape = Shape(**task['shape'])
    c = {'pokerkit.utilities.rake': cuts.rake_cut()}
    factory = None
    if task['contract'] in ('push_chips', 'begin_chips_pushing'):
        c[Q + '_update_chips_pushing'] = cuts.havoc_cut(shape)
    if task['contract'] == 'begin_chips_pushing':
        def factory(vc):
            return {Q + 'pots': cuts.pots_cut(vc, shape, c01.pots, pre=())}
    res = verify_contract(src, K, shape, chips='int', cuts=c, cuts_factory=factory, timeout_ms=task['timeout_ms'],
                          keep_smt=1 if task['contract'] == 'pots' else 0, tag=f'n{shape.n}b{shape.B}t{shape.T}')
    for r in res['results']:
        if r['kind'] == 'safety':
            r['prop'] = 'C07'
    return res


def shared_c12_task(task):
    import props.c12 as p12
    from pyvc.runner import relabel
    return relabel(p12.vc_task(task), 'C02')


def shared_c19_task(task):
    import props.c19 as p19
    from pyvc.runner import relabel
    return relabel(p19.vc_task(task), 'C02')


def status_writes_task(task):
    """D-infinity, structural: `statuses[...]` is only ever set to False (by _muck_hole_cards) after _setup appended True
    -- a player who folded, mucked or was killed never comes back, whatever the history"""
    src = source(EXTRA)
    tree = src.trees['pokerkit.state']
    bad, writes = [], []
    for fn in ast.walk(tree):
        if not isinstance(fn, ast.FunctionDef):
            continue
        for node in ast.walk(fn):
            targets = []
            if isinstance(node, ast.Assign):
                targets = node.targets
            elif isinstance(node, (ast.AugAssign, ast.AnnAssign)):
                targets = [node.target]
            for t in targets:
                txt = ast.unparse(t)
                if txt.startswith('self.statuses'):
                    val = ast.unparse(node.value) if getattr(node, 'value', None) is not None else '?'
                    writes.append((fn.name, node.lineno, txt, val))
                    if not (isinstance(t, ast.Subscript) and val == 'False'):
                        bad.append((fn.name, node.lineno, txt, val))
            if isinstance(node, ast.Call) and isinstance(node.func, ast.Attribute) and ast.unparse(node.func.value) == 'self.statuses' \
                    and node.func.attr not in ('index', 'count', 'copy'):
                writes.append((fn.name, node.lineno, ast.unparse(node.func), 'call'))
                if not (fn.name == '_setup' and node.func.attr == 'append'):
                    bad.append((fn.name, node.lineno, ast.unparse(node), 'call'))
    ok = not bad and len(writes) >= 2
    return {'results': [{'id': 'C02/State/statuses-only-ever-set-to-False-after-setup/D-inf', 'kind': 'P', 'prop': 'C02', 'label': 'D∞',
                         'status': 'valid' if ok else 'refuted', 'backend': 'AST frame scan', 'seconds': 0.0, 'native': True,
                         'detail': f'writes: {writes}; offending: {bad}', 'meta': {'function': 'pokerkit.state.State (all methods)'}}],
            'contract': None}


def main(argv=None):
    chk = Check('C02', 'proof', argv)
    source(EXTRA)
    args = argv if argv is not None else sys.argv[1:]
    only = [a for a in args if a in NAMES]
    tasks = []
    for name in (only or NAMES):
        for sh in shapes(chk.tier, name):
            tasks.append({'module': 'props.c02', 'fn': 'vc_task', 'name': f'{name}/n{sh.n}b{sh.B}t{sh.T}', 'contract': name,
                          'shape': sh.as_dict(), 'timeout_ms': 120000 if chk.tier == 'thorough' else 40000, 'weight': sh.n * sh.B * sh.T})
    if not only:
        tasks.append({'module': 'props.c02', 'fn': 'status_writes_task', 'name': 'status-writes'})
        # "a player who folded, mucked or was killed wins nothing" needs: a hand that can win is never killed or mucked by the engine
        import props.c12 as p12
        for sh in p12.shapes('quick'):
            for pl in range(sh.n):
                tasks.append({'module': 'props.c02', 'fn': 'shared_c12_task', 'name': f'can_win_now/n{sh.n}p{pl}', 'contract': 'can_win_now',
                              'shape': sh.as_dict(), 'timeout_ms': 40000, 'player': pl})
            tasks.append({'module': 'props.c02', 'fn': 'shared_c12_task', 'name': f'begin_hand_killing/n{sh.n}', 'contract': 'begin_hand_killing',
                          'shape': sh.as_dict(), 'timeout_ms': 40000, 'player': None})
            # "the best hand among the live players" is judged by get_hand / get_up_hand: the hand from the known / face-up cards
            for pl in range(sh.n):
                for nm in ('get_hand', 'get_up_hand'):
                    tasks.append({'module': 'props.c02', 'fn': 'shared_c12_task', 'name': f'{nm}/n{sh.n}p{pl}', 'contract': nm,
                                  'shape': sh.as_dict(), 'timeout_ms': 40000, 'player': pl})
        # shares are cut by the default divmod helper: exact for non-integral chips, odd chips only for integers (C19 contract)
        from pyvc.shapes import Shape as _Shape
        for ch in ('int', 'real'):
            tasks.append({'module': 'props.c02', 'fn': 'shared_c19_task', 'isolate': True, 'kind': 'divmod', 'shape': _Shape(n=2, S=1, T=1, B=1, H=1).as_dict(),
                          'chips': ch, 'timeout_ms': 60000, 'name': f'divmod/{ch}'})
    chk.run_tasks(tasks)
    chk.assumptions += [
        'hands are abstract optional strengths: State.get_up_hand -> hand_type.from_game is replaced by the C04/C05 contracts (total '
        'pre-order, None = no legal hand); that the evaluated hand is the best legal one is C05, that strengths follow the rules is C04',
        'pots: a live player who has less in the pot than somebody else has nothing in front of him (betting invariant, C03/C07); the '
        'levels net of untrimmed antes are non-negative (antes_in_pot, proved inductive under C01)',
        'chips pushing: every frozen pot has at least one contender -- violated on the unchanged tree only through the known F6 family '
        '(a pot whose contenders all mucked / folded unfaced), which is C01/C07 matter',
        'State.rake by its C19 contract; State.divmod executed from its default source; integer chips',
        'results hold for the listed shapes only (D/shape)',
    ]
    return chk.finish(checker_cmd='./check C02 --tier ' + chk.tier,
                      explanation='State.pots, State._begin_chips_pushing and State.push_chips executed symbolically with abstract hands and '
                                  'compared with spec/pots.py; a structural frame scan shows nobody comes back into the hand')


if __name__ == '__main__':
    sys.exit(main())

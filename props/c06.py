"""C06 driver: cards are conserved (pointwise in an arbitrary known card)."""
from __future__ import annotations

import sys

from pyvc.runner import Check, source
from pyvc.shapes import Shape, Builder
from pyvc.run import verify_contract
from pyvc import cuts

EXTRA = ['contracts.engine', 'contracts.c06']
Q = 'pokerkit.state.State.'
NAMES = ['verify_consumption', 'consume_cards', 'burn_card', 'deal_hole', 'deal_board', 'stand_pat_or_discard', 'muck_hole_cards', 'show_or_muck_hole_cards']
HAVOC = {'burn_card': ['_update_dealing'], 'deal_hole': ['_update_dealing'], 'deal_board': ['_update_dealing'],
         'stand_pat_or_discard': ['_update_dealing'], 'show_or_muck_hole_cards': ['_update_showdown']}


def shapes(tier):
    if tier == 'thorough':
        return [Shape(n=2, S=2, T=1, B=1, H=2, deck_cap=3, pile_cap=2, board_cap=2), Shape(n=3, S=2, T=1, B=2, H=2, deck_cap=2, pile_cap=2, board_cap=2)]
    return [Shape(n=2, S=2, T=1, B=1, H=2, deck_cap=2, pile_cap=2, board_cap=2)]


def skolem_card(vc, ctx, bindings):
    import importlib
    import z3
    ut = importlib.import_module('pokerkit.utilities')
    b = Builder(vc.I, 'skolem.', {'Card': ut.Card, 'Rank': ut.Rank, 'Suit': ut.Suit})
    bindings['c'] = b.card('c')
    ctx.assume(z3.And(*b.wf))
    vc.I.tracked.append(bindings['c'])        # a shuffle preserves the multiplicity of this card too


def vc_task(task):
    src = source(EXTRA)
    import contracts.c06 as c06
    K = getattr(c06, task['contract'])
    shape = Shape(**task['shape'])
    c = {Q + k: cuts.havoc_cut(shape) for k in HAVOC.get(task['contract'], [])}
    c[Q + 'can_win_now'] = cuts.pure_cut('bool')
    res = verify_contract(src, K, shape, chips='int', cuts=c, timeout_ms=task['timeout_ms'], setup=skolem_card,
                          keep_smt=1 if task['contract'] == 'muck_hole_cards' else 0, tag=f'n{shape.n}d{shape.deck_cap}' + (f'h{shape.H}' if shape.H != 2 else ''))
    for r in res['results']:
        if r['kind'] == 'safety':
            r['prop'] = 'C07'
    return res


def main(argv=None):
    chk = Check('C06', 'proof', argv)
    source(EXTRA)
    args = argv if argv is not None else sys.argv[1:]
    only = [a for a in args if a in NAMES]
    tasks = []
    for name in (only or NAMES):
        extra = [Shape(n=2, S=2, T=1, B=1, H=3, deck_cap=2, pile_cap=2, board_cap=2)] if name == 'stand_pat_or_discard' else []   # a hand that can hold
        # two unknown cards next to a known one
        for sh in shapes(chk.tier) + extra:
            tasks.append({'module': 'props.c06', 'fn': 'vc_task', 'name': f'{name}/n{sh.n}', 'contract': name, 'shape': sh.as_dict(),
                          'timeout_ms': 120000 if chk.tier == 'thorough' else 40000, 'weight': sh.n})
    chk.run_tasks(tasks)
    chk.assumptions += [
        'pointwise statement: the arbitrary known card c is a skolem constant, so a discharged obligation holds for every card of every '
        'deck; piles are capacity-bounded symbolic sequences (capacities in the shape), deck size does not enter',
        'explicitly supplied known cards are cards not currently in play (the condition under which the engine does not warn)',
        'shuffling returns an arbitrary permutation; set iteration order does not reach a compared field',
        'asserts are C07 obligations; results hold for the listed shapes only',
    ]
    return chk.finish(checker_cmd='./check C06 --tier ' + chk.tier,
                      explanation='every card-moving operation executed symbolically; conservation stated pointwise in an arbitrary known card')


if __name__ == '__main__':
    sys.exit(main())

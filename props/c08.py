"""C08 driver: query, verifier and operation agree; a refused operation changes nothing."""
from __future__ import annotations

import sys

from pyvc.runner import Check, source
from pyvc.shapes import Shape
from pyvc.run import verify_contract
from pyvc import cuts

EXTRA = ['contracts.inv', 'contracts.c08']
Q = 'pokerkit.state.State.'


def shapes(tier):
    if tier == 'thorough':
        return [Shape(n=n, S=2, T=2, B=2, H=2) for n in (2, 3, 4, 6)]
    return [Shape(n=n, S=2, T=1, B=1, H=2) for n in (2, 3)]


def make_cuts(K, shape):
    c = {}
    if hasattr(K, 'update'):
        # the cascade after the local mutation is arbitrary (its own contracts are C01/C07 matters)
        c[K.update] = cuts.havoc_cut(shape)
    # callee contracts assumed here: pure, total, deterministic functions of the state
    c[Q + 'can_win_now'] = cuts.pure_cut('bool')
    c[Q + 'total_pot_amount'] = cuts.pure_cut('chips')
    return c


def vc_task(task):
    src = source(EXTRA)
    import contracts.c08 as c08
    K = c08.CONTRACTS[task['contract']]
    shape = Shape(**task['shape'])
    res = verify_contract(src, K, shape, chips=task['chips'], cuts=make_cuts(K, shape),
                          timeout_ms=task['timeout_ms'], keep_smt=1 if task.get('sample') else 0)
    # exceptions other than refusals inside an *operation* body (asserts after the verifier accepted) are
    # obligations of C07 ("a legal operation never fails part-way"), not of C08
    # "the query answers yes exactly when performing the operation would succeed": once the verifier has accepted,
    # the local part of the operation (up to the hand-over to the phase's `_update_*` step) must not die with an
    # index / type / lookup error -- those exits are C08 obligations.  `assert` statements inside operations, and
    # the pot arithmetic of push_chips, need the phase invariants of the engine: they are obligations of C07.
    if task['contract'] in c08.OPS:
        for r in res['results']:
            if r['kind'] == 'safety' and (r['meta'].get('exception') == 'AssertionError' or task['contract'] == 'push_chips'):
                r['prop'] = 'C07'
    return res


def purity_task(task):
    """D-infinity, structural: no read-only member of State (property getters, get_*, can_*, verify_*) writes to the object"""
    import props.scans as SC
    src = source(EXTRA)
    return {'results': [SC.purity_result(src.trees['pokerkit.state'], 'C08')], 'contract': None}


def main(argv=None):
    chk = Check('C08', 'proof', argv)
    source(EXTRA)
    import contracts.c08 as c08
    tasks = []
    only = [a for a in (argv or sys.argv[1:]) if a in c08.CONTRACTS]
    for name in (only or c08.CONTRACTS):
        for sh in shapes(chk.tier):
            heavy = 'showing_or_mucking' in name or 'show_or_muck' in name or 'completion' in name or 'complete_bet' in name
            tasks.append({'module': 'props.c08', 'fn': 'vc_task', 'name': f'{name}/n{sh.n}', 'contract': name,
                          'shape': sh.as_dict(), 'chips': 'int', 'timeout_ms': 60000 if chk.tier == 'thorough' else 20000,
                          'weight': (10 if heavy else 1) * sh.n, 'sample': name == 'can_select_runout_count'})
    tasks.append({'module': 'props.c08', 'fn': 'purity_task', 'name': 'queries-are-pure'})
    chk.run_tasks(tasks)
    chk.assumptions += [
        'precondition inv08 (contracts/inv.py): queued actors are live with chips; a betting queue implies a current '
        'street; before the pots are frozen no payoff is positive -- assumed at entry, evaluated natively on real hands '
        'by the guard; its preservation is an obligation of the C01/C07 cascade contracts',
        'callee contracts assumed: State.can_win_now and State.total_pot_amount are pure, total and deterministic '
        '(their own contracts are discharged under C12 / C01)',
        'the cascade after the local mutation of an operation (`_update_*`) is replaced by an arbitrary state change: '
        'C08 speaks about the refusal decision and the locally mutated row only',
        'results hold for the listed shapes only (D/shape): player count, street count, pile capacities as listed',
        'cards passed as arguments are tuples of Card objects (text forms are C19)',
    ]
    return chk.finish(checker_cmd='./check C08 --tier ' + chk.tier,
                      explanation='per function: symbolic execution of the real body from an arbitrary pre-state of the shape; '
                                  'one SMT obligation per clause; counter-models replayed natively')


if __name__ == '__main__':
    sys.exit(main())

"""C11 driver: the 12 predefined variants create the game their name and documentation say (D/shape:
the street tuple is a concrete shape, every amount symbolic); PHH variant codes (closed dict, E)."""
from __future__ import annotations

import inspect
import sys
import z3

from pyvc.runner import Check, source

EXTRA = ['spec.variants', 'contracts.c11']


def res(oid, ok, detail, meta=None):
    return {'id': oid, 'kind': 'P', 'prop': 'C11', 'label': 'E', 'status': 'valid' if ok else 'refuted',
            'backend': 'CPython-closed', 'seconds': 0.0, 'native': True, 'detail': detail, 'meta': meta or {}}


def vc_task(task):
    from pyvc.run import verify_contract
    from pyvc.shapes import Shape
    from pyvc.values import Opaque, SymEnum
    import pokerkit.games as G
    import pokerkit.state as ST
    src = source(EXTRA)
    import contracts.c11 as c
    name = task['variant']
    K = c.CONTRACTS[name]
    cls = getattr(G, name)
    sig = inspect.signature(cls.create_state)
    ins = {'in_automations': Opaque('automations'), 'in_antes': Opaque('raw_antes'), 'in_blinds': Opaque('raw_blinds_or_straddles'),
           'in_stacks': Opaque('raw_starting_stacks'), 'in_trimming': z3.Bool('arg.ante_trimming_status'),
           'in_player_count': z3.Int('arg.player_count'), 'in_bring_in': z3.Int('arg.bring_in'),
           'in_board_count': z3.Int('arg.starting_board_count')}
    amounts = {k: z3.Int(f'arg.{k}') for k in ('small_bet', 'big_bet', 'min_bet')}
    makers = {'cls': lambda I, ctx, wf, shape: cls}
    for p in sig.parameters:
        if p == 'automations':
            makers[p] = lambda I, ctx, wf, shape: ins['in_automations']
        elif p == 'ante_trimming_status':
            makers[p] = lambda I, ctx, wf, shape: ins['in_trimming']
        elif p == 'raw_antes':
            makers[p] = lambda I, ctx, wf, shape: ins['in_antes']
        elif p == 'raw_blinds_or_straddles':
            makers[p] = lambda I, ctx, wf, shape: ins['in_blinds']
        elif p == 'raw_starting_stacks':
            makers[p] = lambda I, ctx, wf, shape: ins['in_stacks']
        elif p == 'player_count':
            makers[p] = lambda I, ctx, wf, shape: ins['in_player_count']
        elif p == 'bring_in':
            makers[p] = lambda I, ctx, wf, shape: ins['in_bring_in']
        elif p == 'starting_board_count':
            makers[p] = lambda I, ctx, wf, shape: ins['in_board_count']
        elif p in amounts:
            def mk(I, ctx, wf, shape, p=p):
                wf.append(amounts[p] > 0)
                return amounts[p]
            makers[p] = mk
        elif p == 'mode':
            def mk_mode(I, ctx, wf, shape):
                idx = z3.Int('arg.mode')
                wf.append(z3.And(idx >= 0, idx < len(tuple(ST.Mode))))
                ins['in_mode'] = SymEnum(ST.Mode, idx)
                return ins['in_mode']
            makers[p] = mk_mode

    def cuts_factory(vc):
        def state_cut(I, ctx, f, args, kwargs, node):
            names = ['automations', 'deck', 'hand_types', 'streets', 'betting_structure', 'ante_trimming_status', 'raw_antes',
                     'raw_blinds_or_straddles', 'bring_in', 'raw_starting_stacks', 'player_count']
            b = dict(zip(names, args))
            b.update(kwargs)
            b.update(ins)
            b.update({k: amounts[k] for k in amounts})
            vc.probe(ctx, ['deck_and_hand_types', 'streets_as_documented', 'structure_and_forced_bets', 'parameters_are_passed_through'], b, 'at-call:pokerkit.state.State')
            return Opaque('state')
        return {'pokerkit.state.State': state_cut}

    return verify_contract(src, K, Shape(n=2, S=1, T=1, B=1, H=1), with_state=False, arg_makers=makers, cuts_factory=cuts_factory,
                           timeout_ms=task['timeout_ms'], tag=name, keep_smt=1 if name == 'FixedLimitRazz' else 0)


def codes_task(task):
    """closed dictionaries HandHistory.game_types / variants against the PHH codes of docs/notation.rst"""
    from pokerkit.notation import HandHistory
    import spec.variants as V
    got = {k: v.__name__ for k, v in HandHistory.game_types.items()}
    inv = {v.__name__: k for v, k in HandHistory.variants.items()}
    ok1 = got == V.PHH_CODES
    ok2 = inv == {v: k for k, v in V.PHH_CODES.items()}
    meta = {'function': 'pokerkit.notation.HandHistory.game_types', 'domain': len(got), 'exhaustive': True}
    return {'results': [res('C11/HandHistory.game_types/codes-map-to-the-variants-they-name/E', ok1, str(got), meta),
                        res('C11/HandHistory.variants/inverse-of-game_types/E', ok2, str(inv), meta)], 'contract': None}


def shared_task(task):
    """the behavioural half of the statement lives in contracts first written for C03 (structure-indexed amounts, raise cap), C13 (the
    opening rule of the variant) and C02 (split pots): their obligations are run here too and reported under C11"""
    import importlib
    from pyvc.runner import relabel
    mod = importlib.import_module(task['shared_module'])
    return relabel(getattr(mod, task['shared_fn'])(task), 'C11')


SHARED_C03 = ['min_amount', 'pot_amount', 'max_amount', 'verify_raising', 'verify_raise_to', 'complete_bet_or_raise_to',
              'verify_folding', 'verify_checking_or_calling', 'verify_bring_in_posting']     # the forced bring-in of the stud variants


def main(argv=None):
    chk = Check('C11', 'proof', argv)
    source(EXTRA)
    import spec.variants as V
    M = 'props.c11'
    tasks = [{'module': M, 'fn': 'vc_task', 'variant': v, 'name': f'variant/{v}', 'timeout_ms': 20000} for v in V.VARIANTS]
    tasks.append({'module': M, 'fn': 'codes_task', 'name': 'phh-codes'})
    import props.c03 as p03
    import props.c13 as p13
    import props.c02 as p02
    for name in SHARED_C03:
        for sh in p03.shapes(chk.tier):
            tasks.append({'module': M, 'fn': 'shared_task', 'shared_module': 'props.c03', 'shared_fn': 'vc_task', 'name': f'{name}/n{sh.n}',
                          'contract': name, 'shape': sh.as_dict(), 'chips': 'int', 'timeout_ms': 60000 if chk.tier == 'thorough' else 20000,
                          'weight': sh.n, 'sample': 0})
    for sh in p13.shapes(chk.tier):
        tasks.append({'module': M, 'fn': 'shared_task', 'shared_module': 'props.c13', 'shared_fn': 'vc_task', 'name': f'_begin_betting/n{sh.n}h{sh.H}',
                      'shape': sh.as_dict(), 'timeout_ms': 300000 if chk.tier == 'thorough' else 30000, 'weight': sh.n * sh.H})
    import props.c10 as p10
    for sh in p10.shapes(chk.tier):
        # the street template of the variant is followed when a street is dealt (incl. the stud fallback to a community card)
        tasks.append({'module': M, 'fn': 'shared_task', 'shared_module': 'props.c10', 'shared_fn': 'vc_task', 'name': f'begin_dealing/n{sh.n}h{sh.H}b{sh.B}',
                      'contract': 'begin_dealing', 'shape': sh.as_dict(), 'timeout_ms': 120000 if chk.tier == 'thorough' else 40000,
                      'weight': sh.n * sh.H})
    for sh in p02.shapes('quick', 'begin_chips_pushing'):
        tasks.append({'module': M, 'fn': 'shared_task', 'shared_module': 'props.c02', 'shared_fn': 'vc_task',
                      'name': f'begin_chips_pushing/n{sh.n}b{sh.B}t{sh.T}', 'contract': 'begin_chips_pushing', 'shape': sh.as_dict(),
                      'timeout_ms': 40000, 'weight': sh.n * sh.B * sh.T})
    chk.run_tasks(tasks)
    chk.assumptions += [
        'the behavioural halves of the statement ("fixed-limit games accept only the fixed bet size and at most four raises, no-limit up to '
        'the stack, pot-limit up to the pot, split games award two halves") follow from the field contracts proved here together with the '
        'structure-indexed contracts of C03 (amount bounds, raise cap, history of the round), the opening contract of C13 and the split '
        'contract of C02; those obligations are run by this check as well (relabelled C11); the composition of the two halves over a whole '
        'history is an induction on paper',
        'bet sizes > 0 (precondition); raw ante / blind / stack layouts are opaque values passed through (their meaning is C19)',
        'spec/variants.py is the reading of the names and docs/simulation.rst taken as the oracle',
    ]
    return chk.finish(checker_cmd='./check C11 --tier ' + chk.tier,
                      explanation='the real constructor chain of every predefined variant is executed symbolically (MRO, super() and class '
                                  'attributes taken from the real classes); at the call State(...) the arguments are compared with spec/variants.py')


if __name__ == '__main__':
    sys.exit(main())

"""C16 driver: PHH hand histories -- what is within reach of per-function contracts is checked exhaustively on the finite part of
its domain (label E) or structurally; the TOML leg and whole-hand replay are a bounded stand-in (label B, never counted)."""
from __future__ import annotations

import ast
import itertools
import sys
import time

from pyvc.runner import Check, source

EXTRA = []


def res(oid, ok, detail, label='E', backend='CPython-closed', meta=None, secs=0.0):
    return {'id': oid, 'kind': 'P', 'prop': 'C16', 'label': label, 'status': 'valid' if ok else 'refuted', 'backend': backend,
            'seconds': round(secs, 3), 'native': True, 'detail': detail, 'meta': meta or {}}


class Recorder:
    """stands for a State when an action line is parsed: records which operation is invoked with which arguments"""

    def __init__(self, turn):
        self.calls = []
        self.stander_pat_or_discarder_index = turn
        self.actor_index = turn

    def __getattr__(self, name):
        if name.startswith(('deal_', 'stand_', 'post_', 'fold', 'check_', 'complete_', 'show_', 'no_operate')):
            def method(*a, **k):
                self.calls.append((name, a, k))
            return method
        raise AttributeError(name)


def action_text_task(task):
    """contract of the pair (writer branch of HandHistory.from_game_state, parse_action): for every operation kind, every player position
    1..9, every card / pair of cards of the 53-card alphabet (52 + unknown), with and without commentary, and a set of amounts
    (int and Decimal), parsing the emitted line invokes the same State operation with the same player, amount and cards"""
    from decimal import Decimal
    import pokerkit as pk
    from pokerkit.notation import HandHistory, parse_action
    from pokerkit.state import (HoleDealing, BoardDealing, StandingPatOrDiscarding, BringInPosting, Folding, CheckingOrCalling,
                                CompletionBettingOrRaisingTo, HoleCardsShowingOrMucking, NoOperation)
    from pokerkit.utilities import Card, Deck
    t0 = time.time()
    game = pk.NoLimitTexasHoldem((), True, 0, (1, 2), 2)
    cards = list(Deck.STANDARD) + [Card.UNKNOWN] if hasattr(Card, 'UNKNOWN') else list(Deck.STANDARD)
    singles = [(c,) for c in cards]
    pairs = [(cards[i], cards[(i * 7 + 3) % len(cards)]) for i in range(len(cards))] + [(cards[0], cards[1], cards[2])]
    amounts = [0, 1, 2, 7, 10, 99, 100, 12345, 10 ** 12, Decimal('0.5'), Decimal('2.25'), Decimal('1000000.01')]
    comments = [None, 'a remark', 'with # hash', 'two  blanks and   three', 'a\ttab', 'quote " and \' apostrophe', 'p1 cc looks like an action']
    bad = {}
    n = 0

    class FakeState:
        starting_stacks = (100, 100)
        ante_trimming_status = True
        antes = (0, 0)
        blinds_or_straddles = (1, 2)

    def emit(op):
        st = FakeState()
        st.operations = [op]
        hh = HandHistory.from_game_state(game, st, compression_status=False)
        return hh.actions

    def expect(kind, op, want_name, want_args, turn):
        nonlocal n
        n += 1
        lines = emit(op)
        if len(lines) != 1:
            bad.setdefault(kind, []).append(('lines', op, lines))
            return
        rec = Recorder(turn)
        try:
            parse_action(rec, lines[0])
        except Exception as e:     # noqa
            bad.setdefault(kind, []).append((lines[0], repr(e)))
            return
        if len(rec.calls) != 1:
            bad.setdefault(kind, []).append((lines[0], rec.calls))
            return
        name, a, k = rec.calls[0]
        got_cards = tuple(Card.clean(a[0])) if a and isinstance(a[0], str) else (a[0] if a else None)
        norm = (name,) + tuple(tuple(Card.clean(x)) if isinstance(x, str) else x for x in a)
        if norm != (want_name,) + tuple(want_args) or k.get('commentary', None) != op.commentary and want_name != 'deal_board':
            bad.setdefault(kind, []).append((lines[0], norm, (want_name,) + tuple(want_args), k))
    for cm in comments:
        for p in range(9):
            for cs in singles + pairs:
                if cm is None:      # a remark on a dealing is written as a comment line of its own (dealings may be merged into one line)
                    expect('hole-dealing', HoleDealing(p, cs, (False,) * len(cs), commentary=cm), 'deal_hole', (cs, p), None)
                expect('discarding', StandingPatOrDiscarding(p, cs, commentary=cm), 'stand_pat_or_discard', (cs,), p)
                expect('showing', HoleCardsShowingOrMucking(p, cs, commentary=cm), 'show_or_muck_hole_cards', (cs, p), None)
            expect('standing-pat', StandingPatOrDiscarding(p, (), commentary=cm), 'stand_pat_or_discard', (), p)
            expect('mucking', HoleCardsShowingOrMucking(p, (), commentary=cm), 'show_or_muck_hole_cards', (False, p), None)
            expect('bring-in', BringInPosting(p, 1, commentary=cm), 'post_bring_in', (), p)
            expect('folding', Folding(p, commentary=cm), 'fold', (), p)
            expect('checking-or-calling', CheckingOrCalling(p, 5, commentary=cm), 'check_or_call', (), p)
            for amt in amounts:
                expect('raising', CompletionBettingOrRaisingTo(p, amt, commentary=cm), 'complete_bet_or_raise_to', (amt,), p)
        for cs in (singles + pairs if cm is None else []):
            expect('board-dealing', BoardDealing(cs, commentary=cm), 'deal_board', (cs,), None)
    # a line naming the wrong player is refused
    wrong = 0
    for p in range(3):
        rec = Recorder((p + 1) % 3)
        for line in (f'p{p + 1} f', f'p{p + 1} cc', f'p{p + 1} cbr 10', f'p{p + 1} pb', f'p{p + 1} sd'):
            n += 1
            try:
                parse_action(rec, line)
                wrong += 1
            except ValueError:
                pass
    secs = time.time() - t0
    meta = {'function': 'pokerkit.notation.HandHistory.from_game_state / pokerkit.notation.parse_action', 'domain': n, 'exhaustive': True}
    out = [res(f'C16/parse_action.from_game_state/{k}-line-means-the-same-operation/E', k not in bad, str(bad.get(k, [])[:2]), meta=meta, secs=secs / 12)
           for k in ('hole-dealing', 'board-dealing', 'discarding', 'standing-pat', 'showing', 'mucking', 'bring-in', 'folding', 'checking-or-calling', 'raising')]
    out.append(res('C16/parse_action/line-of-another-player-is-refused/E', wrong == 0, f'{wrong} accepted', meta=meta))
    return {'results': out, 'contract': None, 'cases': n}


def game_fields_task(task):
    """HandHistory.from_game_state(game, state).create_game() has the game-defining fields of `game` -- for each of the 11 PHH variants,
    with pairwise distinct sentinel values in every field (the reflection loop does not branch on values)"""
    from decimal import Decimal
    import pokerkit as pk
    from pokerkit.notation import HandHistory
    t0 = time.time()
    out = []
    A = tuple(pk.Automation)
    for code, cls in HandHistory.game_types.items():
        bad = []
        for trial, (trim, scale) in enumerate(((True, 1), (False, 3), (True, Decimal('1.5')), (False, Decimal('2E+1')))):
            n = 3
            stacks = [1000 * scale, 2000 * scale, 1500 * scale]
            antes = {0: 1 * scale, 1: 2 * scale}
            names = HandHistory.required_field_names[code]
            kw = dict(automations=A, ante_trimming_status=trim, raw_antes=antes)
            if 'blinds_or_straddles' in names:
                kw['raw_blinds_or_straddles'] = (3 * scale, 6 * scale)
            if 'bring_in' in names:
                kw['bring_in'] = 3 * scale
            if 'min_bet' in names:
                kw['min_bet'] = 6 * scale
            if 'small_bet' in names:
                kw['small_bet'] = 6 * scale
                kw['big_bet'] = 12 * scale
            try:
                game = cls(**kw)
                state = game(stacks, n)
                hh = HandHistory.from_game_state(game, state)
                g2 = hh.create_game()
                s2 = hh.create_state()
            except Exception as e:     # noqa
                bad.append((trial, repr(e)))
                continue
            for fld in ('ante_trimming_status', 'antes', 'blinds_or_straddles', 'bring_in', 'starting_stacks'):
                if getattr(s2, fld) != getattr(state, fld):
                    bad.append((trial, fld, getattr(state, fld), getattr(s2, fld)))
            # ... and they survive the text: saved and loaded again, the same state is created and the same text written
            try:
                text = hh.dumps()
                hh3 = HandHistory.loads(text)
                s3 = hh3.create_state()
                for fld in ('ante_trimming_status', 'antes', 'blinds_or_straddles', 'bring_in', 'starting_stacks'):
                    if getattr(s3, fld) != getattr(state, fld):
                        bad.append((trial, 'after save/load', fld, getattr(state, fld), getattr(s3, fld)))
                if hh3.dumps() != text:
                    bad.append((trial, 'saved again differs'))
                # the kind of number survives too (an int pot is split with an odd chip, a decimal one exactly)
                # (a Decimal whose text is a plain integer, e.g. Decimal('20'), is written as 20 and read as an int by design of the format;
                # one whose text has a point or an exponent must stay a non-integer)
                for fld in ('antes', 'blinds_or_straddles', 'starting_stacks'):
                    a, b_ = getattr(state, fld), getattr(s3, fld)
                    for x, y in zip(a, b_):
                        if not isinstance(x, int) and ('E' in str(x) or '.' in str(x)) and isinstance(y, int):
                            bad.append((trial, 'after save/load a decimal amount became an int', fld, repr(x), repr(y)))
            except Exception as e:     # noqa
                bad.append((trial, 'save/load', repr(e)))
            for fld in ('small_bet', 'big_bet', 'min_bet'):
                if fld in names and getattr(g2, fld) != getattr(game, fld):
                    bad.append((trial, fld))
            if type(g2) is not type(game) or s2.streets != state.streets or s2.betting_structure != state.betting_structure:
                bad.append((trial, 'variant'))
        out.append(res(f'C16/HandHistory.from_game_state.create_game/{code}/game-defining-fields-are-preserved/E', not bad, str(bad[:3]),
                       meta={'function': 'pokerkit.notation.HandHistory.from_game_state', 'variant': code}, secs=(time.time() - t0) / 11))
    # decimal chips whose VALUE is integral: the statement quantifies over "int and decimal chip values" -- they must come back as decimals
    # (a pot of ints is split with odd chips, a pot of decimals exactly: the replayed stacks differ otherwise)
    kind_bad = []
    try:
        game = pk.NoLimitTexasHoldem(A, True, 0, (Decimal('1'), Decimal('2')), Decimal('2'))
        state = game([Decimal('100')] * 3, 3)
        s3 = HandHistory.loads(HandHistory.from_game_state(game, state).dumps()).create_state()
        for fld in ('blinds_or_straddles', 'starting_stacks'):
            for x, y in zip(getattr(state, fld), getattr(s3, fld)):
                if isinstance(x, Decimal) and isinstance(y, int):
                    kind_bad.append((fld, repr(x), repr(y)))
    except Exception as e:     # noqa
        kind_bad.append(('raised', repr(e)))
    out.append(res('C16/HandHistory.dumps/decimal-amounts-of-integral-value-come-back-as-decimals/E', not kind_bad,
                   f'Decimal amounts read back as int: {kind_bad[:4]}', meta={'function': 'pokerkit.notation.HandHistory.dumps / loads'}))
    return {'results': out, 'contract': None}


def truncation_task(task):
    """structural (D-infinity): in HandHistory.state_actions the loop over the actions is followed by `if actions: raise ValueError`, and a
    parse failure puts the action back: a history that cannot be applied is reported, never silently truncated"""
    src = source(EXTRA)
    tree = src.trees['pokerkit.notation']
    fn = [f for f in ast.walk(tree) if isinstance(f, ast.FunctionDef) and f.name == 'state_actions'][0]
    body = fn.body
    last = body[-1]
    ok_tail = (isinstance(last, ast.If) and ast.unparse(last.test) == 'actions' and isinstance(last.body[0], ast.Raise)
               and 'ValueError' in ast.unparse(last.body[0]))
    loops = [s_ for s_ in body if isinstance(s_, ast.While)]
    ok_loop = len(loops) == 1 and 'actions' in ast.unparse(loops[0].test)
    handler = [h for h in ast.walk(loops[0]) if isinstance(h, ast.ExceptHandler)] if loops else []
    ok_back = any('actions.appendleft(action)' in ast.unparse(h) for h in handler)
    returns = [r for r in ast.walk(fn) if isinstance(r, ast.Return)]
    return {'results': [res('C16/HandHistory.state_actions/unapplied-actions-raise-ValueError/D-inf', ok_tail and ok_loop and ok_back and not returns,
                            f'tail={ok_tail} loop={ok_loop} put-back={ok_back} early-returns={len(returns)}', label='D∞', backend='AST scan',
                            meta={'function': 'pokerkit.notation.HandHistory.state_actions'})], 'contract': None}


def isolation_task(task):
    """hand histories do not share state: (scan, D-infinity) no function of pokerkit/notation.py has a mutable default argument and no
    method writes a class attribute; (E, sequence) a history with user-defined fields loaded or created BEFORE one without leaves the
    second one as it is written"""
    import ast
    import pokerkit as pk
    from pokerkit.notation import HandHistory
    src = source(EXTRA) if 'source' in globals() else None
    import inspect
    import pokerkit.notation as N
    tree = ast.parse(inspect.getsource(N))
    bad = []
    for f in [x for x in ast.walk(tree) if isinstance(x, (ast.FunctionDef, ast.AsyncFunctionDef, ast.Lambda))]:
        for d in list(f.args.defaults) + [x for x in f.args.kw_defaults if x is not None]:
            if isinstance(d, (ast.Dict, ast.List, ast.Set, ast.DictComp, ast.ListComp, ast.SetComp)) or \
                    (isinstance(d, ast.Call) and isinstance(d.func, ast.Name) and d.func.id in ('dict', 'list', 'set', 'deque', 'defaultdict')):
                bad.append((getattr(f, 'name', 'lambda'), f.lineno, ast.unparse(d)))
    out = [res('C16/notation/no-mutable-default-argument/D-inf', not bad, f'{bad[:4]}', label='D∞', backend='AST scan',
               meta={'function': 'pokerkit.notation (all functions)'})]
    # sequence check
    seq_bad = []
    with_fields = ("variant = 'NT'\nante_trimming_status = true\nantes = [0, 0]\nblinds_or_straddles = [1, 2]\nmin_bet = 2\n"
                   "starting_stacks = [100, 100]\nactions = ['d dh p1 AsKs', 'd dh p2 QdQh', 'p2 f']\n_note = 'first hand'\n_tags = ['a', 'b']\n")
    without = ("variant = 'NT'\nante_trimming_status = true\nantes = [0, 0]\nblinds_or_straddles = [1, 2]\nmin_bet = 2\n"
               "starting_stacks = [100, 100]\nactions = ['d dh p1 AsKs', 'd dh p2 QdQh', 'p2 f']\n")
    try:
        h1 = HandHistory.loads(with_fields)
        t1 = h1.dumps()
        h2 = HandHistory.loads(without)
        t2 = h2.dumps()
        if h2.user_defined_fields:
            seq_bad.append(('fields leaked into the next hand', dict(h2.user_defined_fields)))
        if HandHistory.loads(t2).dumps() != t2 or '_note' in t2:
            seq_bad.append(('second hand is not written as it was read', t2[-80:]))
        if HandHistory.loads(t1).dumps() != t1 or '_note' not in t1:
            seq_bad.append(('first hand lost its fields', t1[-80:]))
        game = pk.NoLimitTexasHoldem((), True, 0, (1, 2), 2)
        st = game((100, 100), 2)
        h3 = HandHistory.from_game_state(game, st)
        if h3.user_defined_fields:
            seq_bad.append(('fields leaked into a history made from a state', dict(h3.user_defined_fields)))
    except Exception as e:   # noqa
        seq_bad.append(('raised', repr(e)))
    out.append(res('C16/HandHistory/a-hand-keeps-its-own-user-fields-whatever-was-loaded-before/E', not seq_bad, f'{seq_bad[:3]}',
                   meta={'function': 'pokerkit.notation.HandHistory.loads / dumps / from_game_state', 'domain': 4, 'exhaustive': False}))
    return {'results': out, 'contract': None}


def roundtrip_task(task):
    """label B (bounded, never counted): random hands over the 11 PHH variants (int and Decimal chips, user-defined fields incl. nested
    tables with quoted keys, commentary): write -> read -> write gives the identical text; replaying the read history reproduces the
    operations, cards, final stacks and payoffs"""
    import random
    import warnings
    from decimal import Decimal
    import pokerkit as pk
    from pokerkit.notation import HandHistory
    from pyvc.native import legal_ops
    warnings.simplefilter('ignore')
    A = pk.Automation
    autos = (A.ANTE_POSTING, A.BET_COLLECTION, A.BLIND_OR_STRADDLE_POSTING, A.CARD_BURNING, A.HOLE_DEALING, A.BOARD_DEALING,
             A.RUNOUT_COUNT_SELECTION, A.HOLE_CARDS_SHOWING_OR_MUCKING, A.HAND_KILLING, A.CHIPS_PUSHING, A.CHIPS_PULLING)
    fails, n = [], 0
    codes = list(HandHistory.game_types)
    for h in range(task['hands']):
        rng = random.Random(task['seed'] * 613 + h)
        random.seed(h)
        code = codes[h % len(codes)]
        cls = HandHistory.game_types[code]
        names = HandHistory.required_field_names[code]
        np_ = rng.choice([2, 3, 4])
        dec = rng.random() < 0.3
        u = Decimal('0.5') if dec else 1
        stacks = [rng.choice([20, 40, 100, 250]) * u for _ in range(np_)]
        trim = rng.random() < 0.5
        kw = dict(automations=autos, ante_trimming_status=trim, raw_antes=rng.choice([0, 1 * u]))
        if 'blinds_or_straddles' in names:
            kw['raw_blinds_or_straddles'] = (1 * u, 2 * u)
        if 'bring_in' in names:
            kw['bring_in'] = 1 * u
            kw['raw_antes'] = 1 * u
        if 'min_bet' in names:
            kw['min_bet'] = 2 * u
        if 'small_bet' in names:
            kw['small_bet'] = 2 * u
            kw['big_bet'] = 4 * u
        try:
            game = cls(**kw, mode=pk.Mode.CASH_GAME)
            s = game(stacks, np_)
            steps = 0
            while s.status and steps < 300:
                ops = legal_ops(s, rng, False)
                if not ops:
                    break
                rng.choice(ops)()
                steps += 1
            if s.status:
                continue
        except Exception:      # noqa (crashes part-way: C07)
            continue
        try:
            user = {'_note': "it's a 'quoted' note", '_table': {'Phil Ivey': 1, 'plain': 2}, '_list': [1, 2, 3]}
            hh = HandHistory.from_game_state(game, s, **user)
            text = hh.dumps()
            hh2 = HandHistory.loads(text, parse_value=(lambda x: Decimal(x)) if dec else pk.utilities.parse_value)
            text2 = hh2.dumps()
            n += 1
            if text2 != text:
                fails.append(('text-differs', h, code))
                continue
            if hh2.user_defined_fields != hh.user_defined_fields:
                fails.append(('user-fields-differ', h, code))
            last = None
            for last in hh2:
                pass

            def key(o):
                return (type(o).__name__, getattr(o, 'player_index', None), getattr(o, 'amount', None),
                        tuple(getattr(o, 'cards', ()) or getattr(o, 'hole_cards', ()) or ()) if type(o).__name__ not in ('CardBurning',) else None)
            decisions = ('StandingPatOrDiscarding', 'BringInPosting', 'Folding', 'CheckingOrCalling', 'CompletionBettingOrRaisingTo',
                         'HoleCardsShowingOrMucking')
            a = [key(o) for o in s.operations if type(o).__name__ in decisions]
            b_ = [key(o) for o in last.operations if type(o).__name__ in decisions]
            cards_a = ([sorted(map(repr, x)) for x in s.hole_cards], [list(map(repr, x)) for x in s.board_cards])
            cards_b = ([sorted(map(repr, x)) for x in last.hole_cards], [list(map(repr, x)) for x in last.board_cards])
            if last.stacks != s.stacks or last.payoffs != s.payoffs or a != b_ or cards_a != cards_b:
                fails.append(('replay-differs', h, code, trim, s.stacks, last.stacks))
        except Exception as e:     # noqa
            fails.append(('raised', h, code, f'{type(e).__name__}: {e}'[:100]))
    return {'results': [], 'contract': None, 'standin': {'label': 'B', 'bound': f'{task["hands"]} random finished hands over 11 variants, int / Decimal chips, '
            'user-defined fields (quoted string, nested table with a key containing a space, list)', 'evaluations': n, 'failures': fails[:6]}}


def main(argv=None):
    chk = Check('C16', 'other', argv)
    source(EXTRA)
    M = 'props.c16'
    tasks = [{'module': M, 'fn': 'action_text_task', 'name': 'action-text', 'weight': 10},
             {'module': M, 'fn': 'game_fields_task', 'name': 'game-fields'},
             {'module': M, 'fn': 'truncation_task', 'name': 'truncation'},
             {'module': M, 'fn': 'isolation_task', 'name': 'isolation'},
             {'module': M, 'fn': 'roundtrip_task', 'name': 'roundtrip-standin', 'hands': 66 if chk.tier == 'quick' else 1100, 'seed': chk.seed, 'weight': 50}]
    chk.run_tasks(tasks)
    standin = None
    for t in chk.task_reports:
        if t.get('standin'):
            standin = t['standin']
    chk.assumptions += [
        'no deductive obligation here: the functions involved (reflection over dataclass fields, f-strings, str.split, structural pattern '
        'matching on word lists, tomllib) are outside the subset of the verifier; what a contract on them can say is checked by exhaustive closed '
        'evaluation over the finite part of the domain (operation kinds x positions 1..9 x the 53-card alphabet x commentary) -- amounts are '
        'a sample, relying on int(str(k)) == k and parse_value(str(v)) == v',
        'the reflection loop of from_game_state does not branch on field values: one run per variant with distinct sentinel values shows the '
        'wiring for all values',
        'TOML writing / reading (tomllib is an external library), user-defined fields, the repair of omitted steps and whole-hand replay are '
        'covered only by the bounded stand-in (label B), never counted',
    ]
    return chk.finish(checker_cmd='./check C16 --tier ' + chk.tier, standin=standin, exhaustive=True,
                      explanation='action-line writer/parser pair and game reconstruction by exhaustive closed evaluation; truncation by structural '
                                  'scan; text round trip and replay by a bounded stand-in')


if __name__ == '__main__':
    sys.exit(main())

"""C09 driver: premises of `automation changes who performs a step, not the hand` + bounded twin-run stand-in."""
from __future__ import annotations

import ast
import sys

from pyvc.runner import Check, source
from pyvc.shapes import Shape
from pyvc.run import verify_contract
from pyvc import cuts, cascade

EXTRA = ['spec.pots', 'contracts.engine', 'contracts.flow', 'contracts.c01', 'contracts.c02', 'contracts.c09']
Q = 'pokerkit.state.State.'
KIND_OPS = {'ANTE_POSTING': 'post_ante', 'BET_COLLECTION': 'collect_bets', 'BLIND_OR_STRADDLE_POSTING': 'post_blind_or_straddle',
            'CARD_BURNING': 'burn_card', 'HOLE_DEALING': 'deal_hole', 'BOARD_DEALING': 'deal_board',
            'RUNOUT_COUNT_SELECTION': 'select_runout_count', 'HOLE_CARDS_SHOWING_OR_MUCKING': 'show_or_muck_hole_cards',
            'HAND_KILLING': 'kill_hand', 'CHIPS_PUSHING': 'push_chips', 'CHIPS_PULLING': 'pull_chips'}


def shapes(tier):
    if tier == 'thorough':
        return [Shape(n=n, S=2, T=1, B=b, H=1, R=2) for n, b in ((2, 1), (3, 1), (2, 2))]
    return [Shape(n=2, S=2, T=1, B=1, H=1, R=2)]


def vc_task(task):
    src = source(EXTRA)
    import contracts.c09 as c09
    import contracts.c01 as c01
    import contracts.c02 as c02
    import contracts.engine as E
    import contracts.flow as F
    shape = Shape(**task['shape'])
    name = task['contract']
    inv = E.BOUNDARY + F.FLOW
    K = c09.CONTRACTS[name]

    def factory(vc):
        extra = {Q + 'can_win_now': cuts.can_win_now_cut() if name == '_begin_hand_killing' else cuts.pure_cut('bool'),
                 'pokerkit.utilities.rake': cuts.rake_cut(), 'pokerkit.lookups.Lookup.get_entry_or_none': cuts.optional_strength_cut()}
        if name == '_begin_chips_pushing':
            extra[Q + 'pots'] = cuts.pots_cut(vc, shape, c01.pots, pre=(), more=((c02.pots, 'contenders_are_live'),))
        cascade.install(vc, shape, F.TABLE09, name, inv, extra_cuts=extra, loop_inv_extra=F.LOOP_INV09.get(name))
        return {}
    res = verify_contract(src, K, shape, chips='int', timeout_ms=task['timeout_ms'], cuts_factory=factory, unwind=6,
                          keep_smt=1 if name == '_update_dealing' else 0)
    # this check owns the quiescence obligations; everything else in these runs is C07's (and discharged there)
    res['results'] = [r for r in res['results'] if r['kind'] in ('canary', 'cover') or 'quiescent' in r['id']]
    return res


def scan_task(task):
    src = source(EXTRA)
    tree = src.trees['pokerkit.state']
    out = []

    def res(oid, ok, detail):
        out.append({'id': oid, 'kind': 'P', 'prop': 'C09', 'label': 'D∞', 'status': 'valid' if ok else 'refuted', 'backend': 'AST scan',
                    'seconds': 0.0, 'native': True, 'detail': detail, 'meta': {'function': 'pokerkit.state.State (all methods)'}})
    state_cls = [c for c in ast.walk(tree) if isinstance(c, ast.ClassDef) and c.name == 'State'][0]
    readers = {}
    for f in [x for x in state_cls.body if isinstance(x, ast.FunctionDef)]:
        for node in ast.walk(f):
            if isinstance(node, ast.Attribute) and node.attr == 'automations':
                readers.setdefault(f.name, 0)
                readers[f.name] += 1
    ok1 = all(k.startswith('_update_') for k in readers) and len(readers) >= 8
    res('C09/State/only-the-phase-steps-read-automations/D-inf', ok1, f'readers of self.automations: {readers}')
    # (a2) the automated branches are nothing but argument-less calls of the kind's own operation
    bad = []
    seen_kinds = set()
    for f in [x for x in state_cls.body if isinstance(x, ast.FunctionDef) and x.name.startswith('_update_')]:
        for node in ast.walk(f):
            if isinstance(node, (ast.If, ast.While)):
                kinds = [n.attr for n in ast.walk(node.test) if isinstance(n, ast.Attribute) and isinstance(n.value, ast.Name) and n.value.id == 'Automation']
                if not kinds:
                    continue
                if len(kinds) != 1 or not any(isinstance(n, ast.Compare) and isinstance(n.ops[0], ast.In) for n in ast.walk(node.test)):
                    bad.append((f.name, node.lineno, 'unexpected test'))
                    continue
                kind = kinds[0]
                seen_kinds.add(kind)

                def only_calls(stmts, kind=kind, fname=f.name):
                    for st in stmts:
                        if isinstance(st, (ast.While, ast.If)) and not st.orelse:
                            only_calls(st.body)
                        elif isinstance(st, ast.Expr) and isinstance(st.value, ast.Call) and not st.value.args and not st.value.keywords \
                                and ast.unparse(st.value.func) == 'self.' + KIND_OPS[kind]:
                            pass
                        else:
                            bad.append((fname, getattr(st, 'lineno', 0), ast.unparse(st)[:60]))
                only_calls(node.body)
                if isinstance(node, ast.If):
                    # an `elif` chain may continue with other automation kinds; anything else in orelse is checked when walked
                    pass
    res('C09/State/automated-branches-only-call-the-kinds-own-operation-without-arguments/D-inf', not bad and seen_kinds == set(KIND_OPS),
        f'kinds seen: {sorted(seen_kinds)}; offending statements: {bad}')
    # (a6) a step hands over to the next step only as its LAST act: nothing of the state is written, and no other step called, after
    # a call of self._begin_X / _update_X / _end_X on any path.  Automated operations run INSIDE that call; whatever a step wrote after
    # it would be seen by them with automation and not without (the order of the hand would depend on the flags).
    PH = ['ante_posting', 'bet_collection', 'blind_or_straddle_posting', 'dealing', 'betting', 'showdown', 'hand_killing', 'chips_pushing',
          'chips_pulling']
    STEPS = {f'_{k}_{p}' for p in PH for k in ('begin', 'update', 'end')} | {'_begin', '_end'}
    MUT = ('append', 'extend', 'clear', 'pop', 'popleft', 'remove', 'rotate', 'add', 'insert', 'appendleft', 'discard', 'update', 'sort')

    def is_step_call(n):
        return (isinstance(n, ast.Call) and isinstance(n.func, ast.Attribute) and isinstance(n.func.value, ast.Name)
                and n.func.value.id == 'self' and n.func.attr in STEPS)

    def writes_self(st):
        for n in ast.walk(st):
            if isinstance(n, (ast.Assign, ast.AugAssign, ast.AnnAssign)):
                for t in (n.targets if isinstance(n, ast.Assign) else [n.target]):
                    if any(isinstance(m, ast.Attribute) and isinstance(m.value, ast.Name) and m.value.id == 'self' for m in ast.walk(t)):
                        return True
            if isinstance(n, ast.Call) and isinstance(n.func, ast.Attribute) and n.func.attr in MUT:
                b = n.func.value
                while isinstance(b, (ast.Subscript, ast.Attribute)):
                    if isinstance(b, ast.Attribute) and isinstance(b.value, ast.Name) and b.value.id == 'self':
                        return True
                    b = b.value
        return False
    late = []
    step_calls = 0

    def scan(fn, body, rest_after):
        nonlocal step_calls
        for k, st in enumerate(body):
            rest = body[k + 1:] + rest_after
            if not isinstance(st, (ast.If, ast.For, ast.While, ast.Try, ast.Match, ast.With)):
                if any(is_step_call(n) for n in ast.walk(st)):
                    step_calls += 1
                    for r in rest:
                        if writes_self(r) or any(is_step_call(n) for n in ast.walk(r)):
                            late.append((fn.name, st.lineno, r.lineno, ast.unparse(r)[:60]))
                            break
            elif isinstance(st, ast.If):
                scan(fn, st.body, rest)
                scan(fn, st.orelse, rest)
            elif isinstance(st, (ast.For, ast.While)):
                scan(fn, st.body, [st] + rest)
            elif isinstance(st, ast.Match):
                for c in st.cases:
                    scan(fn, c.body, rest)
            elif isinstance(st, ast.Try):
                scan(fn, st.body, st.orelse + rest)
                for h in st.handlers:
                    scan(fn, h.body, rest)
            elif isinstance(st, ast.With):
                scan(fn, st.body, rest)
    for f in [x for x in state_cls.body if isinstance(x, ast.FunctionDef)]:
        scan(f, f.body, [])
    res('C09/State/a-step-hands-over-to-the-next-step-as-its-last-act/D-inf', not late and step_calls >= 25,
        f'{step_calls} hand-overs; state written or another step called after a hand-over: {late}')
    return {'results': out, 'contract': None}


def twin_task(task):
    """label B (bounded, never counted): for a small game and every subset of the 11 automations the automated run is compared with the
    un-automated twin whose user performs every step of an automated kind with default arguments as soon as it is available, in the
    engine's priority order, before any own action: same operations, same final stacks"""
    import itertools
    import random
    import warnings
    import pokerkit as pk
    warnings.simplefilter('ignore')
    A = pk.Automation
    ALL = tuple(A)
    order = [(A.ANTE_POSTING, 'post_ante'), (A.BET_COLLECTION, 'collect_bets'), (A.BLIND_OR_STRADDLE_POSTING, 'post_blind_or_straddle'),
             (A.CARD_BURNING, 'burn_card'), (A.HOLE_DEALING, 'deal_hole'), (A.BOARD_DEALING, 'deal_board'),
             (A.RUNOUT_COUNT_SELECTION, 'select_runout_count'), (A.HOLE_CARDS_SHOWING_OR_MUCKING, 'show_or_muck_hole_cards'),
             (A.HAND_KILLING, 'kill_hand'), (A.CHIPS_PUSHING, 'push_chips'), (A.CHIPS_PULLING, 'pull_chips')]
    manual_only = ['post_ante', 'collect_bets', 'post_blind_or_straddle', 'burn_card', 'deal_hole', 'deal_board', 'select_runout_count',
                   'show_or_muck_hole_cards', 'kill_hand', 'push_chips', 'pull_chips']

    def eager(s, autos):
        go = True
        while go and s.status:
            go = False
            for kind, name in order:
                if kind in autos and getattr(s, 'can_' + name)():
                    getattr(s, name)()
                    go = True
                    break

    def decide(s, rng):
        if s.can_stand_pat_or_discard():
            return ('stand_pat_or_discard', ())
        if s.actor_index is not None:
            if s.can_post_bring_in():
                return ('post_bring_in',)
            r = rng.random()
            if r < 0.25 and s.can_complete_bet_or_raise_to():
                return ('complete_bet_or_raise_to', s.max_completion_betting_or_raising_to_amount if r < 0.12 else s.min_completion_betting_or_raising_to_amount)
            if r < 0.35 and s.can_fold() and s.bets[s.actor_index] < max(s.bets):
                return ('fold',)
            return ('check_or_call',)
        for name in manual_only:
            if getattr(s, 'can_' + name)():
                return (name,)
        return None
    fails, runs = [], 0
    subsets = list(itertools.chain.from_iterable(itertools.combinations(ALL, k) for k in range(len(ALL) + 1)))
    rng0 = random.Random(task['seed'])
    if task['subsets'] < len(subsets):
        subsets = rng0.sample(subsets, task['subsets'])
    for game in range(task['games']):
        grng = random.Random(task['seed'] * 31 + game)
        n = grng.choice([2, 3])
        stacks = [grng.choice([2, 4, 7, 20]) for _ in range(n)]
        mode = grng.choice(list(pk.Mode))
        kind = grng.choice(['NT', 'F7S', 'N2L1D'])

        def mk(autos):
            random.seed(game)
            if kind == 'NT':
                return pk.NoLimitTexasHoldem.create_state(autos, True, 0, (1, 2), 2, stacks, n, mode=mode)
            if kind == 'F7S':
                return pk.FixedLimitSevenCardStud.create_state(autos, True, 1, 1, 2, 4, stacks, n, mode=mode)
            return pk.NoLimitDeuceToSevenLowballSingleDraw.create_state(autos, True, 0, (1, 2), 2, stacks, n, mode=mode)
        for autos in subsets:
            try:
                a = mk(autos)
                m = mk(())
                eager(m, autos)
                drng = random.Random(game)
                steps = 0
                while a.status and m.status and steps < 400:
                    steps += 1
                    d = decide(a, drng)
                    if d is None:
                        break
                    getattr(a, d[0])(*d[1:])
                    getattr(m, d[0])(*d[1:])
                    eager(m, autos)
                runs += 1
                if a.operations != m.operations or a.stacks != m.stacks or a.status != m.status:
                    k = next((i for i, (x, y) in enumerate(zip(a.operations, m.operations)) if x != y), min(len(a.operations), len(m.operations)))
                    fails.append((game, kind, [x.name for x in autos], f'first difference at operation {k}'))
            except Exception as e:    # noqa
                fails.append((game, kind, [x.name for x in autos], f'{type(e).__name__}: {e}'[:100]))
            if len(fails) > 5:
                break
    return {'results': [], 'contract': None, 'standin': {'label': 'B', 'bound': f'{task["games"]} small games (2-3 players, NT / F7S / N2L1D, tiny stacks) x '
            f'{len(subsets)} automation subsets' + (' (all 2^11)' if len(subsets) == 2048 else ' (sampled)'), 'evaluations': runs, 'failures': fails[:6]}}


def shared_c10_task(task):
    """a step is available to the user exactly when the automation would perform it: burning is due only after everybody has stood pat or
    discarded (C10's burn_card contract, run here too)"""
    import props.c10 as p10
    from pyvc.runner import relabel
    res = p10.vc_task(task)
    res['results'] = [r for r in res.get('results', []) if r['kind'] != 'safety']
    return relabel(res, 'C09')


def main(argv=None):
    chk = Check('C09', 'other', argv)
    source(EXTRA)
    import contracts.c09 as c09
    args = argv if argv is not None else sys.argv[1:]
    only = [a for a in args if a in c09.CONTRACTS]
    tasks = []
    for name in (only or c09.CONTRACTS):
        for sh in shapes(chk.tier):
            tasks.append({'module': 'props.c09', 'fn': 'vc_task', 'name': f'{name}/n{sh.n}b{sh.B}', 'contract': name, 'shape': sh.as_dict(),
                          'timeout_ms': 60000 if chk.tier == 'thorough' else 20000, 'weight': sh.n})
    if not only:
        import props.c10 as p10
        for sh in p10.shapes(chk.tier)[:1]:
            tasks.append({'module': 'props.c09', 'fn': 'shared_c10_task', 'name': f'burn_card/n{sh.n}', 'contract': 'burn_card', 'shape': sh.as_dict(),
                          'timeout_ms': 40000, 'weight': 3})
        tasks.append({'module': 'props.c09', 'fn': 'scan_task', 'name': 'scans'})
        tasks.append({'module': 'props.c09', 'fn': 'twin_task', 'name': 'twin-standin', 'games': 3 if chk.tier == 'quick' else 12,
                      'subsets': 128 if chk.tier == 'quick' else 2048, 'seed': chk.seed, 'weight': 80})
    chk.run_tasks(tasks)
    standin = None
    for t in chk.task_reports:
        if t.get('standin'):
            standin = t['standin']
    chk.assumptions += [
        'the property relates two RUNS (a hyperproperty): machine-checked are the premises (a1)-(a3) here, (a4)/(a5) and the acceptance of '
        'every automated call under C07 / C08 / C10 / C12 / C14 / C15; the composition -- by (a1) automation influences a run only inside '
        '_update_X; by (a2)/(a3) each step under A equals the step without automation followed by the eager default driver; induction on the '
        'length of the cascade, well-founded by the progress lemmas of C07 -- is a paper argument',
        'quiescence is proved per function with callee contracts (C07 components as preconditions); deck large enough: "not enough cards" is '
        'not modelled',
        'the twin-run comparison is a bounded stand-in (label B), never counted',
        'results hold for the listed shapes only',
    ]
    return chk.finish(checker_cmd='./check C09 --tier ' + chk.tier, standin=standin,
                      explanation='quiescence after every function of the cascade (SMT), structural scans of the automation reads and branches, '
                                  'twin runs over automation subsets (bounded stand-in)')


if __name__ == '__main__':
    sys.exit(main())

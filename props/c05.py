"""C05 driver: from_game of every hand class against the composition rules of the statement."""
from __future__ import annotations

import itertools
import sys
import z3

from pyvc.runner import Check, source
from pyvc.shapes import Shape
from pyvc.run import verify_contract
from pyvc.values import SymObj, Opaque, Ref, Choice, PyvcUnsupported

EXTRA = ['spec.composition', 'contracts.c05', 'contracts.c05inf']


def domain(tier, name):
    """(hole count, board count) pairs of the statement's domain (0-7 hole, 0-5 board), thinned for the quick tier"""
    import contracts.c05 as c05
    kind = c05.RULE[name]
    if kind == 'omaha':
        import math
        # up to 30 candidate combinations per shape (4+4, 3+5, 5+3); beyond that the merged running maximum leaves the solvers undecided
        # at 120 s -- the loop logic for any number of candidates is the unbounded half (contracts/c05inf.py)
        full = [(h, b) for h in range(0, 6) for b in range(0, 6) if math.comb(h, 2) * math.comb(b, 3) <= 30]
        quick = [(4, 4), (4, 3), (2, 3), (4, 2), (1, 5), (3, 5)]
    elif kind == 'greek':
        # Greek hold'em is dealt two hole cards; with fewer, "both hole cards plus three board cards" is not five cards: no hand
        full = [(2, b) for b in range(0, 6)] + [(1, 3), (1, 4), (1, 5), (0, 5)]
        quick = [(2, 5), (2, 3), (2, 2), (1, 4), (0, 5)]
    elif kind == 'badugi':
        full = [(h, 0) for h in range(0, 7)]
        quick = [(4, 0), (5, 0), (2, 0), (0, 0)]
    elif kind == 'kuhn':
        full = [(1, 0), (1, 1), (2, 0), (0, 0)]
        quick = [(1, 0), (1, 1), (0, 0)]
    else:
        full = [(h, b) for h in range(0, 8) for b in range(0, 6) if h + b <= 7]
        quick = [(2, 5), (2, 3), (7, 0), (5, 0), (2, 2), (1, 5)] if name == 'StandardHighHand' else [(2, 5), (5, 0), (3, 1)]
    return full if tier == 'thorough' else quick


def vc_task(task):
    src = source(EXTRA)
    if 'functools' not in src.modules:
        src.load('functools')
    import contracts.c05 as c05
    import pokerkit.hands as H
    import pokerkit.lookups as L
    name, h, b, lazy = task['cls'], task['h'], task['b'], task['lazy']
    cls = getattr(H, name)
    K = c05.CONTRACTS[name + ('?' if task['or_none'] else '')]
    # cards are abstract but STRUCTURED: pairwise different objects (identity tags) with a symbolic known rank and suit each, no two alike.
    # The unchanged from_game never looks at rank or suit; code that does (an "optimisation" keyed on ranks) is executed all the same.
    import pokerkit.utilities as ut
    from pyvc.values import SymEnum
    ranks_known = [r for r in ut.Rank if r != ut.Rank.UNKNOWN]
    suits_known = [x for x in ut.Suit if x != ut.Suit.UNKNOWN]
    RL, SL = list(ut.Rank), list(ut.Suit)
    wf_cards = []

    def mk_card(tag):
        r, su = z3.Int(f'card{tag}.rank'), z3.Int(f'card{tag}.suit')
        wf_cards.append(z3.And(r >= 0, r < len(RL), su >= 0, su < len(SL), r != RL.index(ut.Rank.UNKNOWN), su != SL.index(ut.Suit.UNKNOWN)))
        return SymObj(ut.Card, {'rank': SymEnum(ut.Rank, r), 'suit': SymEnum(ut.Suit, su)}, ident=tag), (r, su)
    made = [mk_card(t) for t in list(range(h)) + list(range(100, 100 + b))]
    for i in range(len(made)):
        for j in range(i):
            wf_cards.append(z3.Or(made[i][1][0] != made[j][1][0], made[i][1][1] != made[j][1][1]))
    hole = tuple(c for c, _ in made[:h])
    board = tuple(c for c, _ in made[h:])
    valid, index = {}, {}

    def ids(seq):
        return frozenset(c.ident for c in seq)

    def key_of(I, ctx, cards):
        from pyvc import models
        return ids(models.to_seq(I, ctx, cards))

    def init_cut(I, ctx, fn, args, kwargs, node):
        from pyvc import models
        self_ref, cards = args[0], args[1]
        seq = (cards,) if isinstance(cards, SymObj) else tuple(models.to_seq(I, ctx, cards))      # Card.clean of a single card
        k = ids(seq)
        if k not in valid:
            # table fact of C04 (wrong sizes rejected; no entry of another card count): only a set of the type's size can be a hand
            sizes = (1, 2, 3, 4) if c05.RULE[name] == 'badugi' else ((1,) if c05.RULE[name] == 'kuhn' else (cls.card_count,))
            valid[k] = z3.Bool('valid{' + ','.join(map(str, sorted(k))) + '}') if (len(k) in sizes and len(k) == len(seq)) else z3.BoolVal(False)
            index[k] = z3.Int('index{' + ','.join(map(str, sorted(k))) + '}')
        I.raise_if(ctx, z3.Not(valid[k]), ValueError, 'invalid-hand@' + I.where(node))
        if ctx.dead:
            return None
        obj = ctx.get(self_ref)
        ctx.put(self_ref, obj.with_field('_Hand__cards', seq))
        return None

    def entry_cut(I, ctx, fn, args, kwargs, node):
        obj = ctx.get(args[0]) if isinstance(args[0], Ref) else args[0].heap[args[0].ref.cell]
        k = ids(obj.fields['_Hand__cards'])
        return SymObj(L.Entry, {'index': index[k], 'label': Opaque('label')})

    def clean_cut(I, ctx, fn, args, kwargs, node):
        from pyvc import models
        return tuple(models.to_seq(I, ctx, args[-1]))

    def mk_cls(I, ctx, wf, shape):
        return cls

    def mk_cards(cards):
        def mk(I, ctx, wf, shape):
            return ctx.alloc('iter', cards) if lazy else cards
        return mk
    cuts = {'pokerkit.hands.Hand.__init__': init_cut, 'pokerkit.hands.Hand.entry': entry_cut, 'pokerkit.utilities.Card.clean': clean_cut}

    def setup(vc, ctx, bindings):
        bindings['hole'] = hole
        bindings['board'] = board
        ctx.assume(z3.And(*wf_cards) if wf_cards else True)
    res = verify_contract(src, K, Shape(n=2, S=1, T=1, B=1, H=1), with_state=False,
                          arg_makers={'cls': mk_cls, 'hole_cards': mk_cards(hole), 'board_cards': mk_cards(board)}, cuts=cuts, setup=setup,
                          timeout_ms=task['timeout_ms'], unwind=128, tag=f'{name}-h{h}b{b}' + ('-lazy' if lazy else ''),
                          keep_smt=1 if (name, h, b, lazy) == ('OmahaHoldemHand', 2, 3, False) else 0)
    return res


def inf_task(task):
    """unbounded mode (contracts/c05inf.py): one level of the real from_game chain for one hand class, the loop cut by its
    invariant, the next level replaced by its contract; validity and strength of a candidate are uninterpreted functions"""
    src = source(EXTRA)
    if 'functools' not in src.modules:
        src.load('functools')
    import itertools
    import contracts.c05inf as cinf
    import pokerkit.hands as H
    import pokerkit.lookups as L
    from pyvc import streams, models
    from pyvc.cascade import assume_clause
    from pyvc.harness import FunctionVC
    from pyvc.vc import discharge, smt2_of
    from pyvc.run import expected
    import time
    import traceback
    t0 = time.time()
    level, name = task['level'], task['cls']
    K = cinf.LEVELS[level]
    cls = getattr(H, name)
    I_ = z3.IntSort()
    OK = z3.Function('hand.valid', I_, z3.BoolSort())
    STR = z3.Function('hand.strength', I_, I_)
    out = {'function': K.target, 'contract': f'{K.__module__}.{K.__qualname__}', 'shape': {'class': name, 'cards': 'unbounded'},
           'chips': 'int', 'results': [], 'error': None, 'notes': []}

    def init_cut(I, ctx, fn, args, kwargs, node):
        self_ref, cards = args[0], args[1]
        if not streams.is_atom(cards):
            raise PyvcUnsupported('Hand() of something that is not an abstract candidate')
        I.raise_if(ctx, z3.Not(OK(cards)), ValueError, 'invalid-hand@' + I.where(node))
        if ctx.dead:
            return None
        ctx.put(self_ref, ctx.get(self_ref).with_field('_Hand__cards', cards))
        return None

    def entry_cut(I, ctx, fn, args, kwargs, node):
        obj = ctx.get(args[0]) if isinstance(args[0], Ref) else args[0].heap[args[0].ref.cell]
        return SymObj(L.Entry, {'index': STR(obj.fields['_Hand__cards']), 'label': Opaque('label')})

    def clean_cut(I, ctx, fn, args, kwargs, node):
        v = args[-1]
        if not (streams.is_atom(v) or isinstance(v, streams.AbsSeq)):
            raise PyvcUnsupported('Card.clean of a concrete value in stream mode')
        return v
    cuts = {'pokerkit.hands.Hand.__init__': init_cut, 'pokerkit.hands.Hand.entry': entry_cut, 'pokerkit.utilities.Card.clean': clean_cut}
    try:
        vc = FunctionVC(src, K, Shape(n=2, S=1, T=1, B=1, H=1), cuts=cuts, unwind=8, with_state=False,
                        arg_makers={'cls': lambda I, ctx, wf, shape: cls, 'hole_cards': lambda I, ctx, wf, shape: z3.Int('cards.hole'),
                                    'board_cards': lambda I, ctx, wf, shape: z3.Int('cards.board')})
        vc.shape.tag = f'{name}-unbounded'
        vc.I.native_cuts = streams.native_cuts()
        vc.I.axioms.extend(streams.AXIOMS)

        def fresh_hand(I, ctx, tag):
            return ctx.alloc('obj', SymObj(cls, {'_Hand__cards': streams.fresh_int('cards.' + tag)}))

        def havoc(I, ctx, var, tag):
            if var == 'acc':
                none = z3.Bool(f'{tag}.max_hand?none!{next(streams._fresh)}')
                return Choice(((none, None), (z3.Not(none), fresh_hand(I, ctx, tag + '.max_hand'))))
            return Opaque(f'dead-{var}')
        streams.install_for_cuts(vc, K.target, K.loop_invariants, havoc)
        callee = getattr(K, 'callee', None)
        if callee:
            K2 = cinf.LEVELS[callee]

            def callee_cut(I, ctx, fn, args, kwargs, node):
                b = {'cls': args[0], 'hole_cards': args[1], 'board_cards': args[2] if len(args) > 2 else kwargs.get('board_cards', ())}
                saved = vc.ccls
                vc.ccls = K2
                try:
                    t, sub, defs = vc.eval_clause(K2.raises[ValueError], ctx, b)
                    I.raise_if(ctx, t, ValueError, f'contract-of-{callee}@' + I.where(node))
                    if ctx.dead:
                        return None
                    r = fresh_hand(I, ctx, 'result-of-' + callee)
                    b['r'] = r
                    for cname, f in K2.clauses:
                        assume_clause(vc, ctx, cname, b)
                finally:
                    vc.ccls = saved
                return r
            vc.I.cuts[K2.target] = callee_cut
        obs = vc.build()
    except PyvcUnsupported as e:
        # the loop contract speaks about one code shape (a for-loop over combinations with one running result); on code of another
        # shape the unbounded mode does not apply -- the D/shape half still decides the property for the listed card counts
        out['results'].append({'id': f'C05/{K.target.split(".", 2)[-1]}/unbounded-mode-applies/{name}-unbounded/I', 'kind': 'note', 'prop': 'C05',
                               'label': 'D∞', 'status': 'inapplicable', 'backend': 'pyvc', 'seconds': 0.0, 'ok': True,
                               'meta': {'reason': str(e), 'function': K.target}})
        out['notes'] = [f'unbounded mode not applicable to {K.target} on this tree: {e}']
        return out
    except Exception:   # noqa
        out['error'] = 'crash: ' + traceback.format_exc()
        return out
    out['build_s'] = round(time.time() - t0, 3)
    out['notes'] = vc.notes
    for ob in obs:
        ob.label = 'D∞'
        r = discharge(ob, task['timeout_ms'])
        rec = {'id': ob.id, 'kind': ob.kind, 'prop': ob.prop, 'label': ob.label, 'status': r['status'], 'backend': r['backend'],
               'seconds': r['seconds'], 'meta': ob.meta, 'ok': r['status'] == expected(ob.kind)}
        if r['status'] == 'refuted' and ob.kind != 'canary' and r['model'] is not None:
            rec['model'] = {'function': K.target, 'args': {'cls': {'$class': f'pokerkit.hands.{name}'}}, 'abstract': True,
                            'note': 'counter-model over uninterpreted streams: ' + str(r['model'])[:1500]}
        if task.get('keep_smt') and ob.kind == 'P' and not any('smt2' in x for x in out['results']):
            txt = smt2_of(ob.negation())
            rec['smt2'] = txt if len(txt) < 8000 else txt[:8000] + '\n; ... truncated'
        out['results'].append(rec)
    out['total_s'] = round(time.time() - t0, 3)
    return out


def standin_task(task):
    """bounded stand-in (label B, never counted as proved): the real from_game / from_game_or_none of one class on random real deals
    (tuples and one-shot iterators) against the statement's clauses evaluated natively.  It decides nothing on its own; its role is to
    give a FAILING INPUT when a changed from_game is of a shape the deductive tasks cannot execute (cards inspected by rank or suit,
    sorting, ...), where they end as checker errors."""
    import random
    import time
    import pokerkit.hands as H
    from pokerkit.utilities import Deck
    import contracts.c05 as c05
    t0 = time.time()
    name = task['cls']
    cls = getattr(H, name)
    kind = c05.RULE[name]
    deck = list({'ShortDeckHoldemHand': Deck.SHORT_DECK_HOLDEM, 'KuhnPokerHand': Deck.KUHN_POKER}.get(name, Deck.STANDARD))
    rng = random.Random(task['seed'] * 7919 + sum(map(ord, name)))
    base = c05.from_game_base
    fails, n = [], 0
    while n < task['deals'] and time.time() - t0 < task['budget_s'] and len(fails) < 3:
        n += 1
        if kind == 'any':
            h = rng.randint(0, 7); bd = rng.randint(0, min(5, 8 - h))
        elif kind == 'greek':
            h, bd = 2, rng.randint(0, 5)
        elif kind == 'badugi':
            h, bd = rng.randint(0, 6), 0
        elif kind == 'kuhn':
            h, bd = rng.randint(1, 2), rng.randint(0, 1)
        else:
            h, bd = rng.randint(0, 5), rng.randint(0, 5)
        if h + bd > len(deck):
            continue
        cs = rng.sample(deck, h + bd)
        if rng.random() < 0.35 and h + bd >= 4:
            # paired / suited structure makes ties and near-ties likely
            r0 = rng.choice(cs)
            cs = [c for c in deck if c.rank == r0.rank][:rng.randint(2, 3)] + [c for c in deck if c.suit == r0.suit and c.rank != r0.rank][:h + bd]
            cs = cs[:h + bd]
            rng.shuffle(cs)
        hole, board = tuple(cs[:h]), tuple(cs[h:])
        lazy = rng.random() < 0.3
        r, exc = None, None
        try:
            r = cls.from_game(iter(hole), iter(board)) if lazy else cls.from_game(hole, board)
        except ValueError as e:
            exc = e
        except Exception as e:   # noqa
            fails.append(f'{name}.from_game: hole {hole} board {board}: raised {type(e).__name__}: {e}')
            continue
        if kind == 'kuhn' and not c05.kuhn_requires(cls, hole, board):
            continue
        if exc is not None:
            bad = not base.no_legal_combination(cls, hole, board)
            what = 'raised ValueError although a legal combination exists'
        else:
            bad = base.no_legal_combination(cls, hole, board) or not base.is_an_allowed_combination(cls, hole, board, r) \
                or not base.is_the_strongest(cls, hole, board, r)
            what = f'returned {r!r}, which is not the strongest legal combination'
        if bad:
            fails.append(f'{name}.from_game: hole {hole} board {board}{" (one-shot iterators)" if lazy else ""}: {what}')
    return {'results': [], 'contract': None, 'task': f'stand-in/{name}',
            'standin': {'bound': f'{n} random real deals of {name} (seed {task["seed"]})', 'deals': n, 'failures': fails,
                        'seconds': round(time.time() - t0, 2)}}


def monotone_task(task):
    """(lemma used by C12) adding a card to the hole or to the board never weakens the evaluated hand: the real from_game is run on
    (hole, board) and on the richer pair with the SAME validity / strength symbols per card set"""
    import time
    src = source(EXTRA)
    if 'functools' not in src.modules:
        src.load('functools')
    import pokerkit.hands as H
    import pokerkit.lookups as L
    import contracts.c05 as c05
    from pyvc.interp import Interp
    from pyvc.core import Ctx
    from pyvc.values import And_, Not_, Or_
    from pyvc.vc import Obligation, discharge
    from pyvc import models
    name, h, b, extra = task['cls'], task['h'], task['b'], task['extra']
    cls = getattr(H, name)
    valid, index = {}, {}

    def init_cut(I, ctx, fn, args, kwargs, node):
        self_ref, cards = args[0], args[1]
        seq = (cards,) if isinstance(cards, int) else tuple(models.to_seq(I, ctx, cards))
        k = frozenset(seq)
        if k not in valid:
            valid[k] = z3.Bool('valid{' + ','.join(map(str, sorted(k))) + '}')
            index[k] = z3.Int('index{' + ','.join(map(str, sorted(k))) + '}')
        I.raise_if(ctx, z3.Not(valid[k]), ValueError, 'invalid-hand@' + I.where(node))
        if ctx.dead:
            return None
        ctx.put(self_ref, ctx.get(self_ref).with_field('_Hand__cards', seq))
        return None

    def entry_cut(I, ctx, fn, args, kwargs, node):
        obj = ctx.get(args[0]) if isinstance(args[0], Ref) else args[0].heap[args[0].ref.cell]
        return SymObj(L.Entry, {'index': index[frozenset(obj.fields['_Hand__cards'])], 'label': Opaque('label')})
    cuts = {'pokerkit.hands.Hand.__init__': init_cut, 'pokerkit.hands.Hand.entry': entry_cut,
            'pokerkit.utilities.Card.clean': lambda I, ctx, fn, args, kwargs, node: tuple(models.to_seq(I, ctx, args[-1]))}
    I = Interp(src, cuts=cuts, unwind=128)
    hole, board = tuple(range(h)), tuple(range(100, 100 + b))
    hole2 = hole + ((50,) if extra == 'hole' else ())
    board2 = board + ((150,) if extra == 'board' else ())
    owner = c05._owner(cls, 'from_game_or_none')
    f = src.func(f'pokerkit.hands.{owner}.from_game_or_none')
    ctx = Ctx()
    c1 = ctx.fork(); c1.exits = []
    r1 = I.call_func(c1, f, [cls, hole, board], {})
    c2 = c1.fork(); c2.exits = []
    r2 = I.call_func(c2, f, [cls, hole2, board2], {})
    lt = src.func('contracts.c05.weaker_or_missing')
    c3 = c2.fork(); c3.exits = []
    v = I.call_func(c3, lt, [r1, r2], {})
    goal = I.truth(v, c3)
    hyp = And_(*I.axioms, c3.pc)
    if name.endswith('BadugiHand'):
        # table fact of C04 used by the statement's badugi rule: a badugi of more cards beats one of fewer cards
        facts = []
        for k1 in valid:
            for k2 in valid:
                if len(k1) > len(k2):
                    facts.append(z3.Implies(z3.And(valid[k1], valid[k2]), index[k1] < index[k2] if cls.low else index[k1] > index[k2]))
        hyp = And_(hyp, *facts)
    ob = Obligation(f'C12/{owner}.from_game/m2-more-cards-never-weaker/{name}-h{h}b{b}+{extra}/I', 'P', hyp, goal, 'C12',
                    meta={'function': f'pokerkit.hands.{owner}.from_game', 'shape': f'{name} hole={h} board={b} extra {extra} card'})
    r = discharge(ob, task['timeout_ms'])
    return {'results': [{'id': ob.id, 'kind': 'P', 'prop': 'C12', 'label': 'D/shape', 'status': r['status'], 'backend': r['backend'],
                         'seconds': r['seconds'], 'meta': ob.meta}], 'contract': None}


def main(argv=None):
    chk = Check('C05', 'proof', argv)
    source(EXTRA)
    import contracts.c05 as c05
    args = argv if argv is not None else sys.argv[1:]
    only = [a for a in args if a in c05.RULE]
    tasks = []
    for name in (only or c05.RULE):
        for h, b in domain(chk.tier, name):
            for lazy in (False, True):
                for or_none in ((False, True) if (lazy is False) else (False,)):
                    tasks.append({'module': 'props.c05', 'fn': 'vc_task', 'name': f'{name}/h{h}b{b}' + ('/lazy' if lazy else '') + ('/or_none' if or_none else ''),
                                  'cls': name, 'h': h, 'b': b, 'lazy': lazy, 'or_none': or_none,
                                  'timeout_ms': 120000 if chk.tier == 'thorough' else 30000, 'weight': (h + b) ** 2})
    for name in (only or c05.RULE):
        tasks.append({'module': 'props.c05', 'fn': 'standin_task', 'name': f'stand-in/{name}', 'cls': name, 'seed': chk.seed,
                      'deals': 1500 if chk.tier == 'quick' else 30000, 'budget_s': 20 if chk.tier == 'quick' else 300, 'weight': 30})
    import contracts.c05inf as cinf
    for level, names in cinf.CLASSES.items():
        for name in names:
            if only and name not in only:
                continue
            tasks.append({'module': 'props.c05', 'fn': 'inf_task', 'name': f'{name}/unbounded', 'level': level, 'cls': name,
                          'timeout_ms': 60000, 'weight': 1, 'keep_smt': name == 'OmahaHoldemHand'})
    chk.run_tasks(tasks)
    chk.assumptions += [
        'unbounded mode (label D∞, contracts/c05inf.py): itertools.combinations / chain are uninterpreted stream constructors (equal arguments '
        'give equal streams; length an arbitrary natural number); validity and strength of a candidate are uninterpreted functions of the '
        'candidate; the three loops are cut by the invariant best_so_far and proved by induction on the candidates consumed; the callee '
        'super().from_game is replaced by its contract of the same module (proved by its own task). What the streams contain is the '
        'D/shape half',
        'cards are abstract pairwise distinct atoms; what a hand type accepts (valid) and how strong it is (entry index) are free symbols per '
        'card SET -- that the lookup key depends on the set only, and that indices order hands as the rules say, is C04',
        'itertools.combinations(xs, k) yields exactly the k-subsequences of xs by index in lexicographic order (executed by CPython on the '
        'index structure)',
        'Card.clean is replaced by "materialise the iterable once" (its text forms are C19); lazy variants pass the cards as one-shot iterators, '
        'as State.get_hand does',
        'only a card set of the type\'s size can be a valid hand (C04: wrong sizes rejected, no table entry of another card count)',
        'badugi: "largest subset first" is the statement\'s rule; that a larger badugi beats every smaller one is a table fact of C04',
        'domain: the (hole, board) counts listed in the evidence (quick: a thinned set; thorough: the whole 0-7 x 0-5 domain of the statement)',
    ]
    sis = [t['standin'] for t in chk.task_reports if t.get('standin')]
    standin = {'label': 'B (bounded, never counted as proved)', 'what': 'real from_game on random real deals against the statement\'s clauses',
               'deals': sum(x['deals'] for x in sis), 'failures': [f for x in sis for f in x['failures']][:6], 'per_class': [x['bound'] for x in sis]}
    chk.assumptions.append('the random-deal comparison is a bounded stand-in (label B), never counted; it exists to give a failing input when a '
                           'changed from_game is outside the subset the deductive tasks execute')
    return chk.finish(checker_cmd='./check C05 --tier ' + chk.tier, standin=standin,
                      explanation='from_game / from_game_or_none of the 11 hand classes executed from source on abstract cards; result compared '
                                  'with the candidate sets of spec/composition.py')


if __name__ == '__main__':
    sys.exit(main())

"""C04 driver: hand comparison agrees with the rules of poker for every hand of every type.

 E  (exhaustive closed evaluation, back end CPython):
    * every lookup table (9 nullary constructors) over its ENTIRE key space against spec/ranking.py:
      validity, density of indices, order isomorphism, labels;
    * every hand class over EVERY card subset of the 52-card deck of the admissible sizes (and all
      smaller sizes): accepted <=> the spec says it is a hand of that type; entry index order-isomorphic
      to the spec strength (so <, ==, > agree for all pairs).  quick: the small domains completely and the
      52-card five-card types through their key space; thorough: all 2 598 960 five-card subsets per type.
 D  (deductive, pyvc): the comparison wrappers Hand.__eq__/__lt__/__hash__/__init__ and the
    total_ordering derivations with the entry index symbolic.
"""
from __future__ import annotations

import itertools
import sys
import time
from collections import Counter

from pyvc.runner import Check, source

EXTRA = ['spec.ranking', 'contracts.c04']
SU = 'cdhs'


def _classes():
    import pokerkit.hands as H
    return {n: getattr(H, n) for n in ('StandardHighHand', 'StandardLowHand', 'ShortDeckHoldemHand', 'EightOrBetterLowHand',
                                       'RegularLowHand', 'GreekHoldemHand', 'OmahaHoldemHand', 'OmahaEightOrBetterLowHand',
                                       'BadugiHand', 'StandardBadugiHand', 'KuhnPokerHand')}


def res(oid, ok, detail, label='E', meta=None, secs=0.0):
    return {'id': oid, 'kind': 'P', 'prop': 'C04', 'label': label, 'status': 'valid' if ok else 'refuted',
            'backend': 'CPython-closed', 'seconds': round(secs, 3), 'native': True, 'detail': detail, 'meta': meta or {}}


# ---- lookup tables over their key space ------------------------------------------------------------------------------

def cards_for(ranks, suited, rainbow):
    """some concrete cards realising a key (rank multiset, suitedness)"""
    from pokerkit.utilities import Card
    if rainbow:
        text = ''.join(r + SU[i] for i, r in enumerate(ranks))
    elif suited:
        text = ''.join(r + 's' for r in ranks)
    else:
        c = Counter()
        parts = []
        for r in ranks:
            parts.append(r + SU[c[r]])
            c[r] += 1
        if len(parts) > 1 and len({p[1] for p in parts}) == 1:
            parts[-1] = parts[-1][0] + ('d' if parts[-1][1] != 'd' else 'h')
        text = ''.join(parts)
    return tuple(Card.parse(text))


def lookup_task(task):
    import spec.ranking as R
    import pokerkit.lookups as L
    import pokerkit.state as ST
    t0 = time.time()
    name = task['lookup']
    table = {
        'StandardLookup': (L.StandardLookup, R.STD, (5,), lambda r, s: R.high_value(r, s, R.STD), False, False),
        'ShortDeckHoldemLookup': (L.ShortDeckHoldemLookup, R.SHORT, (5,), lambda r, s: R.high_value(r, s, R.SHORT, flush_beats_full_house=True), False, True),
        'RegularLookup': (L.RegularLookup, R.REG, (5,), lambda r, s: R.high_value(r, False, R.REG, straights=False, flushes=False), False, False),
        'EightOrBetterLookup': (L.EightOrBetterLookup, R.EIGHT, (5,), lambda r, s: tuple(-x for x in R.eight_or_better_value(r)), False, False),
        'BadugiLookup': (L.BadugiLookup, R.REG, (1, 2, 3, 4), lambda r, s: tuple(-x for x in R.badugi_value(r, True, R.REG)), True, False),
        'StandardBadugiLookup': (L.StandardBadugiLookup, R.STD, (1, 2, 3, 4), lambda r, s: tuple(-x for x in R.badugi_value(r, True, R.STD)), True, False),
        'KuhnPokerLookup': (L.KuhnPokerLookup, R.KUHN, (1,), lambda r, s: (R.KUHN.index(r[0]),), False, False),
        '_HighHandOpeningLookup': (ST._HighHandOpeningLookup, R.STD, (1, 2, 3, 4), lambda r, s: R.opening_value(r, R.STD), False, False),
        '_LowHandOpeningLookup': (ST._LowHandOpeningLookup, R.REG, (1, 2, 3, 4), lambda r, s: R.opening_value(r, R.REG), False, False),
    }[name]
    cls, order, sizes, value, rainbow, fbfh = table
    lk = cls()
    opening = name.endswith('OpeningLookup')
    keys = 0
    bad_valid, vals = [], {}
    labels_bad = []
    accepted = 0
    seen_keys = set()
    iter_bad = []
    for k in sizes:
        for ranks in itertools.combinations_with_replacement(order, k):
            if max(Counter(ranks).values()) > 4:
                continue
            for suited in (False, True):
                if suited and (max(Counter(ranks).values()) > 1) and not rainbow:
                    continue
                if rainbow and suited:
                    continue
                if k == 1 and not suited and not rainbow:
                    continue          # a single card is always "suited"
                try:
                    cs = cards_for(ranks, suited, rainbow)
                except Exception:
                    continue
                keys += 1
                try:
                    v = value(ranks, suited)
                except ValueError:
                    v = None
                has = lk.has_entry(cs)
                if (v is not None) != has:
                    bad_valid.append((ranks, suited, v, has))
                    continue
                if has and (keys % 7 == 0):
                    # CardsLike: the same question asked with a one-shot iterable (State asks about `get_up_cards(i)`, a generator)
                    try:
                        e_it = lk.get_entry_or_none(c for c in cs) if hasattr(lk, 'get_entry_or_none') else lk.get_entry(iter(cs))
                        if e_it is None or e_it.index != lk.get_entry(cs).index or not lk.has_entry(iter(cs)):
                            iter_bad.append((ranks, suited))
                    except Exception as e:   # noqa
                        iter_bad.append((ranks, suited, repr(e)))
                if has:
                    accepted += 1
                    seen_keys.add(lk._get_key(cs))
                    e = lk.get_entry(cs)
                    grp = k if opening else 0       # opening hands are only compared between equal card counts
                    vals.setdefault(grp, []).append((v, e.index, e.label.value, ranks, suited))
                    if name in ('StandardLookup', 'ShortDeckHoldemLookup') and R.category(v, fbfh) != e.label.value:
                        labels_bad.append((ranks, suited, e.label.value, R.category(v, fbfh)))
    out = []
    meta = {'function': f'{cls.__module__}.{cls.__qualname__}.__post_init__', 'domain': keys, 'exhaustive': True}
    out.append(res(f'C04/{name}/domain-all-valid-accepted-nothing-else/E', not bad_valid, f'{len(bad_valid)} mismatches {bad_valid[:3]}', meta=meta))
    iso_bad, one_bad, all_idx = [], [], set()
    for grp, items in vals.items():
        byidx = {}
        for v, i, lab, ranks, suited in items:
            byidx.setdefault(i, set()).add(v)
            all_idx.add(i)
        one_bad += [i for i, vs in byidx.items() if len(vs) > 1]
        idxs = sorted(byidx)
        for a, b in zip(idxs, idxs[1:]):
            if not max(byidx[a]) < min(byidx[b]):
                iso_bad.append((a, sorted(byidx[a])[:2], b, sorted(byidx[b])[:2]))
        # equal spec value => equal index
        byval = {}
        for v, i, *_ in items:
            byval.setdefault(v, set()).add(i)
        one_bad += [v for v, is_ in byval.items() if len(is_) > 1]
    out.append(res(f'C04/{name}/order-isomorphic-to-the-rules/E', not iso_bad and not one_bad,
                   f'order breaks {iso_bad[:3]} ties {one_bad[:3]}', meta=meta))
    # density over the whole table (private dict of the real object)
    entries = [v for k, v in vars(lk).items() if k.endswith('__entries')][0]
    indices = sorted({e.index for e in entries.values()})
    dense = indices == list(range(len(indices)))
    out.append(res(f'C04/{name}/indices-dense/E', dense, f'{len(indices)} distinct indices', meta=meta))
    out.append(res(f'C04/{name}/a-one-shot-iterable-of-cards-gets-the-same-answer/E', not iter_bad, f'{iter_bad[:4]}', meta=meta))
    # the real table holds no key beyond those enumerated above (sizes of the type, multiplicities <= 4): every key is a product of rank
    # primes, so its number of prime factors is the number of cards it stands for
    primes = (2, 3, 5, 7, 11, 13, 17, 19, 23, 29, 31, 37, 41)

    def card_count(h):
        k = 0
        for pr in primes:
            while h % pr == 0:
                h //= pr
                k += 1
        return k if h == 1 else -1
    odd = [key for key in entries if card_count(key[0]) not in sizes]
    # (a one-card key marked "not suited" can never be asked for -- a single card is always suited -- and is ignored)
    extra = [key for key in entries if key not in seen_keys and not (card_count(key[0]) == 1 and not key[1])]
    out.append(res(f'C04/{name}/no-entry-of-another-size-and-none-beyond-the-rules/E', not odd and not extra,
                   f'{len(entries)} keys in the table, {accepted} combinations the rules accept; keys of a wrong card count: {odd[:4]}; '
                   f'keys no accepted combination maps to: {extra[:4]}', meta=meta))
    if name in ('StandardLookup', 'ShortDeckHoldemLookup'):
        out.append(res(f'C04/{name}/labels-name-the-category/E', not labels_bad, f'{labels_bad[:3]}', meta=meta))
    for r in out:
        r['seconds'] = round((time.time() - t0) / len(out), 3)
    return {'results': out, 'contract': None, 'keys': keys}


# ---- hand classes over all card subsets ----------------------------------------------------------------------------------

def hands_task(task):
    """one chunk: all subsets of the given size whose smallest card is deck[first]"""
    import spec.ranking as R
    from pokerkit.utilities import Deck
    cls = _classes()[task['cls']]
    name = task['cls']
    deck = list(Deck.STANDARD)
    size = task['size']
    first = task['first']
    t0 = time.time()
    idxval = {}
    bad = []
    n = 0
    rest = deck[first + 1:]
    head = deck[first]
    for tail in itertools.combinations(rest, size - 1):
        cards = (head,) + tail
        n += 1
        v = R.hand_value(name, [(c.rank.value, c.suit.value) for c in cards])
        try:
            h = cls(cards)
        except ValueError:
            h = None
        if (v is None) != (h is None):
            if len(bad) < 5:
                bad.append((repr(cards), v, None if h is None else h.entry.index))
            continue
        if h is not None:
            s = idxval.setdefault(h.entry.index, v)
            if s != v and len(bad) < 5:
                bad.append((repr(cards), 'index shared by two strengths', s, v))
    return {'results': [], 'contract': None, '_idxval': idxval, '_bad': bad, '_n': n, '_cls': name, '_size': size,
            'secs': round(time.time() - t0, 2)}


def small_sizes_task(task):
    """wrong sizes (0..4 cards for five-card types, 5 for badugi, 0/2 for Kuhn) are rejected; cards with an unknown rank
    or suit are rejected (any exception: the docstring promises ValueError, the code raises KeyError -- recorded)"""
    from pokerkit.utilities import Deck, Card, Rank, Suit
    import spec.ranking as R
    name = task['cls']
    cls = _classes()[name]
    deck = list(Deck.STANDARD)
    bad, n, kinds = [], 0, Counter()
    sizes = R.CARD_COUNTS.get(name, (5,))
    wrong = [k for k in range(0, 5) if k not in sizes] + ([5] if 5 not in sizes and max(sizes) < 5 else [])
    for k in wrong:
        pool = deck if k <= 3 else deck[:task.get('pool', 20)]
        for cards in itertools.combinations(pool, k):
            n += 1
            try:
                cls(cards)
                if len(bad) < 5:
                    bad.append(repr(cards))
            except ValueError:
                pass
    unknown_bad = []
    size = max(sizes)
    unk = [Card(Rank.UNKNOWN, Suit.UNKNOWN), Card(Rank.ACE, Suit.UNKNOWN), Card(Rank.UNKNOWN, Suit.SPADE)]
    for u in unk:
        for cards in itertools.combinations(deck[:task.get('pool', 20)], size - 1):
            n += 1
            try:
                cls(cards + (u,))
                if len(unknown_bad) < 5:
                    unknown_bad.append(repr(cards + (u,)))
            except Exception as e:      # noqa
                kinds[type(e).__name__] += 1
    meta = {'function': f'pokerkit.hands.{name}.__init__', 'domain': n}
    out = [res(f'C04/{name}/wrong-sizes-rejected/E', not bad, f'accepted: {bad}', meta=meta),
           res(f'C04/{name}/unknown-cards-rejected/E', not unknown_bad,
               f'accepted: {unknown_bad}; exception kinds raised: {dict(kinds)} (KeyError where ValueError is documented = observation F9)', meta=meta)]
    return {'results': out, 'contract': None}


EXPECTED_LOOKUP = {
    'StandardHighHand': ('StandardLookup', False), 'StandardLowHand': ('StandardLookup', True),
    'ShortDeckHoldemHand': ('ShortDeckHoldemLookup', False), 'EightOrBetterLowHand': ('EightOrBetterLookup', True),
    'RegularLowHand': ('RegularLookup', True), 'GreekHoldemHand': ('StandardLookup', False), 'OmahaHoldemHand': ('StandardLookup', False),
    'OmahaEightOrBetterLowHand': ('EightOrBetterLookup', True), 'BadugiHand': ('BadugiLookup', True),
    'StandardBadugiHand': ('StandardBadugiLookup', True), 'KuhnPokerHand': ('KuhnPokerLookup', False),
}


def wiring_task(task):
    """E: every hand class is wired to the table and the direction (high / low) its documentation names -- whatever classes were used
    before it in the process (two fresh interpreters: classes touched base-first and subclass-first)"""
    import json
    import os
    import subprocess
    from pyvc.runner import NATIVE_PY, REPO, ROOT
    script = (
        'import json, sys\n'
        'import pokerkit.hands as H\n'
        'names = json.loads(sys.argv[1])\n'
        'out = {}\n'
        'for n in names:\n'
        '    c = getattr(H, n)\n'
        '    lk = c.lookup\n'
        '    lk.has_entry(())\n'          # use it
        'for n in names:\n'
        '    c = getattr(H, n)\n'
        '    out[n] = [type(c.lookup).__name__, bool(c.low)]\n'
        'print(json.dumps(out))\n')
    names = list(EXPECTED_LOOKUP)
    import pokerkit.hands as H
    base_first = sorted(names, key=lambda n: len(getattr(H, n).__mro__))
    bad = []
    for order in (base_first, list(reversed(base_first))):
        p = subprocess.run([NATIVE_PY, '-c', script, json.dumps(order)], capture_output=True, text=True,
                           env=dict(os.environ, PYTHONPATH=f'{REPO}:{ROOT}'), timeout=300)
        try:
            got = json.loads(p.stdout.strip().splitlines()[-1])
        except Exception:   # noqa
            bad.append(('no output', p.stderr[-300:]))
            continue
        for n, (lk, low) in EXPECTED_LOOKUP.items():
            if got.get(n) != [lk, low]:
                bad.append((n, got.get(n), [lk, low], 'order: ' + ' '.join(order[:3]) + ' ...'))
    return {'results': [res('C04/hands/each-class-uses-its-own-table-and-direction-whatever-was-used-before/E', not bad, f'{bad[:4]}',
                            meta={'function': 'pokerkit.hands (class attributes lookup / low)', 'domain': 2 * len(names), 'exhaustive': True})],
            'contract': None}


def operators_task(task):
    """label B (bounded stand-in, never counted): the comparison operators of real hand objects agree with the order of their table entries
    on a structured pool (for each of a sample of rank multisets one single-suited and one mixed-suit realisation -- the pairs where only
    the suits differ are where a shortcut on ranks goes wrong).  The deductive wrapper tasks assume the operators depend on the entry only;
    this supplies a failing input where changed operators look at the cards themselves."""
    import random
    from pokerkit.utilities import Deck, Card
    name = task['cls']
    cls = _classes()[name]
    rng = random.Random(7)
    deck = list(Deck.STANDARD)
    by_rank = {}
    for c in deck:
        by_rank.setdefault(c.rank, []).append(c)
    sizes = {'BadugiHand': (4, 3), 'StandardBadugiHand': (4, 3), 'KuhnPokerHand': (1,)}.get(name, (5,))
    pool = []
    ranks = list(by_rank)
    tries = 0
    while len(pool) < task['pool'] and tries < 4000:
        tries += 1
        k = rng.choice(sizes)
        rs = rng.sample(ranks, k) if rng.random() < 0.75 else [rng.choice(ranks) for _ in range(k)]
        for suited in (True, False):
            cards, used = [], set()
            ok = True
            for i, r in enumerate(rs):
                cand = [c for c in by_rank[r] if c not in used and (not suited or c.suit == by_rank[rs[0]][0].suit or i == 0)]
                if suited:
                    cand = [c for c in by_rank[r] if c not in used and c.suit == by_rank[rs[0]][1].suit]
                else:
                    cand = [c for c in by_rank[r] if c not in used]
                    cand = cand[i % len(cand):] + cand[:i % len(cand)] if cand else cand
                if not cand:
                    ok = False
                    break
                cards.append(cand[0]); used.add(cand[0])
            if not ok:
                continue
            try:
                pool.append(cls(tuple(cards)))
            except ValueError:
                pass
    bad, n = [], 0
    for a in pool:
        for b_ in pool:
            n += 1
            ia, ib = a.entry.index, b_.entry.index
            stronger = (ia < ib) if cls.low else (ia > ib)
            weaker = (ia > ib) if cls.low else (ia < ib)
            got = (a == b_, a != b_, a < b_, a > b_, a <= b_, a >= b_, hash(a) == hash(b_) or ia != ib)
            want = (ia == ib, ia != ib, weaker, stronger, not stronger, not weaker, True)
            if got != want and len(bad) < 4:
                bad.append((repr(a), repr(b_), got, want))
    return {'results': [], 'contract': None, 'task': f'operators/{name}',
            'standin': {'label': 'B', 'bound': f'{len(pool)} real {name} objects (suited / mixed realisations of sampled rank multisets), all ordered pairs',
                        'evaluations': n, 'failures': bad}}


def vc_task(task):
    from pyvc.run import verify_contract
    from pyvc.shapes import Shape
    src = source(EXTRA)
    import contracts.c04 as c
    return c.run(src, task, verify_contract, Shape)


def main(argv=None):
    chk = Check('C04', 'proof', argv)
    source(EXTRA)
    import spec.ranking as R
    thorough = chk.tier == 'thorough'
    M = 'props.c04'
    tasks = []
    for lk in ('StandardLookup', 'ShortDeckHoldemLookup', 'RegularLookup', 'EightOrBetterLookup', 'BadugiLookup',
               'StandardBadugiLookup', 'KuhnPokerLookup', '_HighHandOpeningLookup', '_LowHandOpeningLookup'):
        tasks.append({'module': M, 'fn': 'lookup_task', 'lookup': lk, 'name': f'table/{lk}', 'weight': 5})
    full = {}
    for name in _classes():
        sizes = R.CARD_COUNTS.get(name, (5,))
        heavy = sizes == (5,)
        if heavy and not thorough and name not in ('ShortDeckHoldemHand',):
            continue        # quick: the 52-card five-card types are covered through their key space
        full[name] = sizes
        for size in sizes:
            for first in range(52 - size + 1):
                tasks.append({'module': M, 'fn': 'hands_task', 'cls': name, 'size': size, 'first': first,
                              'name': f'hands/{name}/{size}/{first}', 'weight': 3 if size == 5 and first < 20 else 1})
    for name in _classes():
        tasks.append({'module': M, 'fn': 'small_sizes_task', 'cls': name, 'name': f'sizes/{name}', 'pool': 30 if thorough else 16, 'weight': 2})
    tasks.append({'module': M, 'fn': 'wiring_task', 'name': 'wiring', 'weight': 4})
    for name in _classes():
        tasks.append({'module': M, 'fn': 'operators_task', 'cls': name, 'pool': 60 if not thorough else 160, 'name': f'operators/{name}', 'weight': 3})
    import contracts.c04 as c
    for t in c.tasks(chk.tier):
        t.update({'module': M, 'fn': 'vc_task'})
        tasks.append(t)
    outs = chk.run_tasks(tasks)
    # merge the per-chunk maps of the full enumerations
    merged, bads, counts = {}, {}, Counter()
    for o in outs:
        if '_idxval' in o:
            nm = o['_cls']
            m = merged.setdefault(nm, {})
            for i, v in o['_idxval'].items():
                if m.setdefault(i, v) != v:
                    bads.setdefault(nm, []).append(('index shared by two strengths', i, m[i], v))
            bads.setdefault(nm, []).extend(o['_bad'])
            counts[nm] += o['_n']
    for nm, m in merged.items():
        low = nm in R.LOW
        idxs = sorted(m)
        mono = all((m[a] > m[b]) if low else (m[a] < m[b]) for a, b in zip(idxs, idxs[1:]))
        meta = {'function': f'pokerkit.hands.{nm}.__init__ / entry', 'domain': counts[nm], 'exhaustive': True,
                'sizes': list(full[nm])}
        chk.results.append(res(f'C04/{nm}/all-card-subsets/accepted-iff-a-hand-of-the-type/E', not bads.get(nm),
                               f'{counts[nm]} subsets; problems: {bads.get(nm, [])[:3]}', meta=meta))
        chk.results.append(res(f'C04/{nm}/all-card-subsets/entry-order-is-the-order-of-the-rules/E', mono,
                               f'{len(idxs)} strength classes; low={low}', meta=meta))
    chk.extra_cov['exhaustive_hand_domains'] = {nm: counts[nm] for nm in merged}
    chk.assumptions += [
        'quick tier: the 52-card five-card hand types are decided through the key space of their lookup tables (7 462 keys) plus the '
        'contract of Lookup._get_key; that step assumes unique factorisation (a product of the rank primes identifies the rank multiset). '
        'The thorough tier enumerates all 2 598 960 five-card subsets per type and needs no such assumption',
        'card subsets of 6 or more cards are not enumerated: rejected because a product of 6 primes differs from every product of <= 5 (same assumption)',
        '"rejected" is read as "an exception is raised and no hand object exists": unknown cards raise KeyError where ValueError is documented (observation F9, not a violation)',
        'E results are complete for the stated domain but the back end is CPython executing the real code, not an SMT solver',
    ]
    sis = [t['standin'] for t in chk.task_reports if t.get('standin')]
    chk.assumptions.append('the operator comparison over a pool of real hands is a bounded stand-in (label B), never counted')
    return chk.finish(checker_cmd='./check C04 --tier ' + chk.tier, exhaustive=True,
                      standin={'label': 'B', 'what': 'operators of real hand objects vs entry order', 'evaluations': sum(x['evaluations'] for x in sis), 'failures': [f for x in sis for f in x['failures']][:6]},
                      explanation='E: real tables / real constructors evaluated on their entire domain against spec/ranking.py; '
                                  'D: comparison wrappers with symbolic entry indices (pyvc + z3)')


if __name__ == '__main__':
    sys.exit(main())

"""C14 driver: run-outs and boards."""
from __future__ import annotations

import sys

from pyvc.runner import Check, source
from pyvc.shapes import Shape
from pyvc.run import verify_contract
from pyvc import cuts

EXTRA = ['spec.runouts', 'contracts.engine', 'contracts.c14']
Q = 'pokerkit.state.State.'
NAMES = ['begin_showdown', 'verify_selection', 'select_runout_count', 'end_showdown', 'end_bet_collection', 'board_count',
         'get_board_cards', 'deal_board']
HAVOC = {'begin_showdown': ['_update_showdown'], 'select_runout_count': ['_update_showdown'],
         'end_showdown': ['_begin_dealing', '_begin_hand_killing', '_begin_chips_pushing'],
         'end_bet_collection': ['_begin_chips_pushing', '_begin_blind_or_straddle_posting', '_begin_showdown', '_begin_dealing'],
         'deal_board': ['_update_dealing']}


def shapes(tier, name):
    ns = (2, 3, 4) if tier == 'thorough' else (2, 3)
    if name in ('get_board_cards', 'deal_board'):
        return [Shape(n=2, S=s, T=1, B=b, H=1, R=r, board_cap=bc) for s, b, r, bc in
                (((2, 1, 2, 2), (2, 2, 2, 2)) if tier == 'quick' else ((2, 1, 2, 2), (2, 2, 2, 2), (3, 1, 2, 3), (3, 2, 2, 3)))]
    return [Shape(n=n, S=2 if tier == 'quick' else 3, T=1, B=1, H=1, R=3) for n in ns]


def vc_task(task):
    src = source(EXTRA)
    import contracts.c14 as c14
    K = getattr(c14, task['contract'])
    shape = Shape(**task['shape'])
    c = {Q + k: cuts.havoc_cut(shape) for k in HAVOC.get(task['contract'], [])}
    res = verify_contract(src, K, shape, chips='int', cuts=c, timeout_ms=task['timeout_ms'],
                          keep_smt=1 if task['contract'] == 'select_runout_count' else 0,
                          tag=f'n{shape.n}s{shape.S}b{shape.B}r{shape.R}')
    for r in res['results']:
        if r['kind'] == 'safety':
            r['prop'] = 'C07'
    return res


def shared_c02_task(task):
    import props.c02 as p02
    from pyvc.runner import relabel
    return relabel(p02.vc_task(task), 'C14')


def purity_task(task):
    """D-infinity, structural: no read-only member of State writes to the object (a board remembered by get_board_cards would stay
    incomplete while the later run-outs are dealt)"""
    import props.scans as SC
    src = source(EXTRA)
    return {'results': [SC.purity_result(src.trees['pokerkit.state'], 'C14')], 'contract': None}


def main(argv=None):
    chk = Check('C14', 'proof', argv)
    source(EXTRA)
    args = argv if argv is not None else sys.argv[1:]
    only = [a for a in args if a in NAMES]
    tasks = []
    for name in (only or NAMES):
        for sh in shapes(chk.tier, name):
            tasks.append({'module': 'props.c14', 'fn': 'vc_task', 'name': f'{name}/n{sh.n}s{sh.S}b{sh.B}r{sh.R}', 'contract': name,
                          'shape': sh.as_dict(), 'weight': sh.n * sh.B,
                          # the row clause of deal_board needs ~25 s on an idle core: budget with head-room
                          'timeout_ms': 300000 if chk.tier == 'thorough' else (150000 if name == 'deal_board' else 30000)})
    if not only:
        tasks.append({'module': 'props.c14', 'fn': 'purity_task', 'name': 'queries-are-pure'})
        import props.c02 as p02
        for sh in p02.shapes(chk.tier, 'begin_chips_pushing'):
            tasks.append({'module': 'props.c14', 'fn': 'shared_c02_task', 'name': f'_begin_chips_pushing/n{sh.n}b{sh.B}t{sh.T}', 'contract': 'begin_chips_pushing',
                          'shape': sh.as_dict(), 'timeout_ms': 120000 if chk.tier == 'thorough' else 40000, 'weight': sh.n * sh.T})
    chk.run_tasks(tasks)
    chk.assumptions += [
        'runout_count is "what the players who have spoken so far agree on" by induction over the selections (fresh hand: None)',
        'each pot is divided evenly between the b*r boards: the C02 contract of _begin_chips_pushing, discharged here too (shared obligations); no card appears twice: C06',
        '"each board complete at the end": every dealing pass of a street appends exactly b cards per position (deal_board clause) and the '
        'streets after the all-in are dealt r times (_end_showdown / _end_bet_collection clauses); the sum over the passes is an induction '
        'over the log that is not machine-checked here',
        'asserts are C07 obligations; shapes as listed (boards b, run-outs <= R, streets S, players n)',
    ]
    return chk.finish(checker_cmd='./check C14 --tier ' + chk.tier,
                      explanation='offer, selection, agreement, scheduling, board count, board composition and the landing of board cards, each as '
                                  'clauses on the real function compared with spec/runouts.py')


if __name__ == '__main__':
    sys.exit(main())

"""C17 driver: ACPC / Pluribus protocol output.  Lemmas (p1)-(p3) by data-flow scans of the real source combined with the
C01 invariant; the text layer and the inverse parser by a bounded round-trip stand-in against an independent renderer (label B)."""
from __future__ import annotations

import ast
import sys
import time

from pyvc.runner import Check, source

EXTRA = []


def res(oid, ok, detail, label='D∞', backend='AST data-flow scan', meta=None):
    return {'id': oid, 'kind': 'P', 'prop': 'C17', 'label': label, 'status': 'valid' if ok else 'refuted', 'backend': backend,
            'seconds': 0.0, 'native': True, 'detail': detail, 'meta': meta or {}}


def scan_task(task):
    src = source(EXTRA)
    tree = src.trees['pokerkit.notation']
    fns = {f.name: f for f in ast.walk(tree) if isinstance(f, ast.FunctionDef)}
    out = []
    for name in ('to_acpc_protocol', 'to_pluribus_protocol'):
        f = fns[name]
        text = ast.unparse(f)
        # (p1) the no-limit raise token is `r` + (-state.payoffs[raiser]) read from the state as it is after the operation: by C01
        #      (payoff = stack - starting stack at every point) that is the total the player has committed in the hand
        amount_defs = [a for a in ast.walk(f) if isinstance(a, ast.Assign) and ast.unparse(a.targets[0]) == 'amount']
        ok_amount = len(amount_defs) == 1 and ast.unparse(amount_defs[0].value) == '-state.payoffs[operation.player_index]'
        tokens = [j for j in ast.walk(f) if isinstance(j, ast.JoinedStr) and ast.unparse(j) == "f'r{amount}'"]
        ok_token = len(tokens) == 1
        loop = [l for l in ast.walk(f) if isinstance(l, ast.For) and ast.unparse(l.iter) == 'self' and ast.unparse(l.target) == 'state']
        ok_state = len(loop) == 1
        out.append(res(f'C17/HandHistory.{name}/p1-raise-token-is-total-committed/D-inf', ok_amount and ok_token and ok_state,
                       f'amount := {[ast.unparse(a.value) for a in amount_defs]}; tokens: {len(tokens)}; state iterates the replay: {ok_state}',
                       meta={'function': f'pokerkit.notation.HandHistory.{name}', 'uses': 'C01: payoff_is_stack_change'}))
        # (p3) seat visibility: which operations may write which seat's cards
        writes = []
        for node in ast.walk(f):
            if isinstance(node, ast.Assign) and ast.unparse(node.targets[0]).startswith('raw_hole_cards['):
                # find the enclosing isinstance tests
                guards = []
                for parent in ast.walk(f):
                    if isinstance(parent, ast.If) and any(node is x for x in ast.walk(parent)) and 'isinstance(operation' in ast.unparse(parent.test):
                        guards.append(ast.unparse(parent.test))
                    if isinstance(parent, ast.If) and any(node is x for x in ast.walk(parent)) and 'operation.player_index == position' in ast.unparse(parent.test):
                        guards.append(ast.unparse(parent.test))
                writes.append((ast.unparse(node.targets[0]), sorted(set(guards))))
        if name == 'to_acpc_protocol':
            ok = (len(writes) == 2
                  and any(w[0].startswith('raw_hole_cards[position]') and any('HoleDealing' in g for g in w[1])
                          and any('operation.player_index == position' in g for g in w[1]) for w in writes)
                  and any(w[0].startswith('raw_hole_cards[operation.player_index]') and any('HoleCardsShowingOrMucking' in g for g in w[1]) for w in writes))
            what = 'the viewer\'s seat from his own HoleDealing only, any seat from what it showed'
        else:
            ok = (len(writes) == 2 and all(w[0].startswith('raw_hole_cards[operation.player_index]') for w in writes)
                  and any(any('HoleDealing' in g for g in w[1]) for w in writes)
                  and any(any('HoleCardsShowingOrMucking' in g for g in w[1]) for w in writes))
            what = 'every seat from its own dealings and shows'
        out.append(res(f'C17/HandHistory.{name}/p3-seat-visibility/D-inf', ok, f'{what}; writes: {writes}',
                       meta={'function': f'pokerkit.notation.HandHistory.{name}'}))
    # (p2) the Pluribus result field is finishing stack - starting stack per seat: by C01 the payoffs of the terminal state
    f = fns['to_pluribus_protocol']
    appends = [c for c in ast.walk(f) if isinstance(c, ast.Call) and ast.unparse(c.func) == 'raw_payoffs.append']
    ok2 = (len(appends) == 1 and ast.unparse(appends[0].args[0]) == 'finishing_stack - starting_stack'
           and 'zip(self.starting_stacks, finishing_stacks)' in ast.unparse(f) and 'finishing_stacks = tuple(self)[-1].stacks' in ast.unparse(f))
    out.append(res('C17/HandHistory.to_pluribus_protocol/p2-result-field-is-the-payoffs/D-inf', ok2,
                   f'appended: {[ast.unparse(a.args[0]) for a in appends]}', meta={'function': 'pokerkit.notation.HandHistory.to_pluribus_protocol',
                                                                                  'uses': 'C01: payoff_is_stack_change at the end of the hand'}))
    return {'results': out, 'contract': None}


def reference_lines(state, ops, n, viewer, hand_number):
    """independent rendering of a finished hand from its operation log (written from the protocol description in the statement):
    betting actions in order, `/` at each board dealing, raise sizes as total committed in no-limit"""
    actions, boards = '', ''
    committed = [0] * n
    front = [0] * n
    holes = [['', ''] for _ in range(n)]
    shown = [['', ''] for _ in range(n)]
    for o in ops:
        t = type(o).__name__
        if t in ('AntePosting', 'BlindOrStraddlePosting'):
            committed[o.player_index] += o.amount
        elif t == 'Folding':
            actions += 'f'
        elif t == 'CheckingOrCalling':
            committed[o.player_index] += o.amount
            actions += 'c'
        elif t == 'CompletionBettingOrRaisingTo':
            pass
        elif t == 'HoleDealing':
            for i, c in enumerate(o.cards):
                if c:
                    holes[o.player_index][i] = repr(c)
        elif t == 'HoleCardsShowingOrMucking':
            for i, c in enumerate(o.hole_cards):
                if c:
                    shown[o.player_index][i] = repr(c)
        elif t == 'BoardDealing':
            actions += '/'
            boards += '/' + ''.join(map(repr, o.cards))
    return actions, boards, holes, shown


def roundtrip_task(task):
    """label B (bounded, never counted): no-limit and fixed-limit hold'em hands (2-4 players, equal stacks as the protocol assumes),
    random decision sequences: the Pluribus line and the ACPC match states are compared with an independent reference rendering of the
    operation log; the line is parsed back (same game, same starting stack) and must replay to the same actions, stacks and line"""
    import random
    import warnings
    import pokerkit as pk
    from pokerkit.notation import HandHistory
    warnings.simplefilter('ignore')
    A = pk.Automation
    autos = (A.ANTE_POSTING, A.BET_COLLECTION, A.BLIND_OR_STRADDLE_POSTING, A.CARD_BURNING, A.HOLE_DEALING, A.BOARD_DEALING,
             A.RUNOUT_COUNT_SELECTION, A.HOLE_CARDS_SHOWING_OR_MUCKING, A.HAND_KILLING, A.CHIPS_PUSHING, A.CHIPS_PULLING)
    fails, n_ok = [], 0
    for h in range(task['hands']):
        rng = random.Random(task['seed'] * 1009 + h)
        random.seed(h)
        n = rng.choice([2, 2, 3, 4])
        stack = rng.choice([200, 1000, 20000])
        nl = rng.random() < 0.8
        # some hands turn the board over one card at a time (several BoardDealing operations per street): a street is still one group
        piecemeal = rng.random() < 0.3
        au = tuple(a for a in autos if not (piecemeal and a == A.BOARD_DEALING))
        # cash-game hands may contain a fold that faces no bet, and a winner who tables his cards after everybody folded
        cash = rng.random() < 0.4
        kw = {'mode': pk.Mode.CASH_GAME} if cash else {}
        game = (pk.NoLimitTexasHoldem(au, True, 0, (50, 100), 100, **kw) if nl else pk.FixedLimitTexasHoldem(au, True, 0, (50, 100), 100, 200, **kw))
        s = game(stack, n)
        committed = [0] * n
        for i in range(n):
            committed[i] = s.starting_stacks[i] - s.stacks[i]
        ref_actions = ''
        raise_tokens = []
        try:
            steps = 0
            while s.status and (s.actor_index is not None or s.can_deal_board()) and steps < 80:
                steps += 1
                if s.actor_index is None:
                    while s.can_deal_board():
                        s.deal_board(1)
                    continue
                a = s.actor_index
                r = rng.random()
                before_board = len(s.board_cards)
                if r < 0.3 and s.can_complete_bet_or_raise_to():
                    lo, hi = s.min_completion_betting_or_raising_to_amount, s.max_completion_betting_or_raising_to_amount
                    amt = rng.choice([lo, hi, rng.randint(lo, hi)])
                    s.complete_bet_or_raise_to(amt)
                    total = s.starting_stacks[a] - s.stacks[a]
                    raise_tokens.append(('r%d' % total) if nl else 'r')
                elif r < 0.45 and s.can_fold() and (s.bets[a] < max(s.bets) or (cash and rng.random() < 0.5)):
                    s.fold()
                    ref_actions += 'f'
                else:
                    s.check_or_call()
                    ref_actions += 'c'
            if s.status:
                continue
            if cash and sum(s.statuses) == 1 and rng.random() < 0.6:
                w = s.statuses.index(True)
                if s.can_show_or_muck_hole_cards(True, w):
                    s.show_or_muck_hole_cards(True, w)       # the winner of a fold-out tables his cards
        except Exception:     # noqa
            continue
        # separators: one per board dealing, placed where the dealing happened in the log
        ref = ''
        last_was_deal = False
        for o in s.operations:
            t = type(o).__name__
            same_street = last_was_deal and t == 'BoardDealing'       # consecutive dealings (no burn in between) are one street
            last_was_deal = t == 'BoardDealing'
            if t == 'Folding':
                ref += 'f'
            elif t == 'CheckingOrCalling':
                ref += 'c'
            elif t == 'CompletionBettingOrRaisingTo':
                ref += 'R'
            elif t == 'BoardDealing':
                if not same_street:
                    ref += '/'
        it = iter(raise_tokens)
        want_actions = ''.join(next(it) if ch == 'R' else ch for ch in ref)
        try:
            hh = HandHistory.from_game_state(game, s, hand=h)
            n_ok += 1
            if nl:
                line = hh.to_pluribus_protocol()
                parts = line.split(':')
                payoffs = '|'.join(str(x) for x in s.payoffs)
                boards, prev_deal = '', False
                for o in s.operations:
                    if type(o).__name__ == 'BoardDealing':
                        boards += ('' if prev_deal else '/') + ''.join(map(repr, o.cards))
                        prev_deal = True
                    else:
                        prev_deal = False
                holes = '|'.join(''.join(repr(c) for c in hc) if hc else '' for hc in
                                 [[c for o in s.operations if type(o).__name__ in ('HoleDealing',) and o.player_index == i for c in o.cards] for i in range(n)])
                if parts[0] != 'STATE' or parts[1] != str(h) or parts[2] != want_actions or parts[4] != payoffs:
                    fails.append(('pluribus-line', h, parts[2], want_actions, parts[4], payoffs))
                    continue
                if not parts[3].endswith(boards) or parts[3].split('/')[0] != holes:
                    fails.append(('pluribus-cards', h, parts[3], holes + boards))
                    continue
                back = list(HandHistory.from_acpc_protocol(game, stack, line))
                if len(back) != 1:
                    fails.append(('parse-back', h, len(back)))
                    continue
                last = None
                for last in back[0]:
                    pass
                if last.stacks != s.stacks or back[0].to_pluribus_protocol(h) != line:
                    fails.append(('replay-of-parsed-line', h, last.stacks, s.stacks))
                    continue
            for viewer in range(n):
                msgs = list(hh.to_acpc_protocol(viewer))
                final = msgs[-1][1].strip().split(':')
                if final[0] != 'MATCHSTATE' or final[1] != str(viewer) or final[3] != want_actions:
                    fails.append(('acpc-final-state', h, viewer, final[3], want_actions))
                    break
                seats = final[4].split('/')[0].split('|')
                own = ''.join(repr(c) for o in s.operations if type(o).__name__ == 'HoleDealing' and o.player_index == viewer for c in o.cards)
                if seats[viewer] != own:
                    fails.append(('acpc-own-cards', h, viewer, seats, own))
                    break
                for j in range(n):
                    if j != viewer and seats[j]:
                        shows = [o for o in s.operations if type(o).__name__ == 'HoleCardsShowingOrMucking' and o.player_index == j and o.hole_cards]
                        showed = ''.join(repr(c) for c in shows[-1].hole_cards if c) if shows else ''       # what he tabled last
                        if seats[j] != showed:
                            fails.append(('acpc-other-seat-visible', h, viewer, j, seats[j], showed))
        except Exception as e:      # noqa
            fails.append(('raised', h, f'{type(e).__name__}: {e}'[:120]))
    return {'results': [], 'contract': None, 'standin': {'label': 'B', 'bound': f'{task["hands"]} random NT / FT hands, 2-4 players, equal stacks, every viewer seat',
            'evaluations': n_ok, 'failures': fails[:6]}}


def main(argv=None):
    chk = Check('C17', 'other', argv)
    source(EXTRA)
    M = 'props.c17'
    tasks = [{'module': M, 'fn': 'scan_task', 'name': 'lemmas'},
             {'module': M, 'fn': 'roundtrip_task', 'name': 'roundtrip-standin', 'hands': 150 if chk.tier == 'quick' else 3000, 'seed': chk.seed, 'weight': 50}]
    chk.run_tasks(tasks)
    standin = None
    for t in chk.task_reports:
        if t.get('standin'):
            standin = t['standin']
    chk.assumptions += [
        'the emitters build text with f-strings and the inverse parser is regex-driven: both outside the subset of the VC generator; the '
        'three lemmas are decided by data-flow scans of the real source (they fail if the code is changed so that the token, the result '
        'field or the seat a card is written to is computed differently) together with the C01 invariant payoff = stack - starting stack',
        'order and separators of the emitted text, and the parser inverse, are covered only by the bounded stand-in (label B), never counted',
    ]
    return chk.finish(checker_cmd='./check C17 --tier ' + chk.tier, standin=standin,
                      explanation='(p1) raise token = total committed, (p2) Pluribus result = payoffs, (p3) seat visibility: data-flow scans + C01; '
                                  'text order, separators and parser inverse: bounded round trip against an independent reference rendering')


if __name__ == '__main__':
    sys.exit(main())

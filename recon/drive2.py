import random, warnings, traceback, collections, functools, sys
warnings.simplefilter('ignore')
from pokerkit import *
from pokerkit.state import State
import inv, inv2
MFAIL=collections.Counter(); MEX={}
A=Automation; ALL=tuple(A)
ERRS=collections.Counter()
OPS=['post_ante','collect_bets','post_blind_or_straddle','burn_card','deal_hole','deal_board','stand_pat_or_discard','fold','check_or_call','post_bring_in','complete_bet_or_raise_to','select_runout_count','show_or_muck_hole_cards','kill_hand','push_chips','pull_chips']
DEPTH=[0]
def wrap(name):
    f=getattr(State,name)
    @functools.wraps(f)
    def g(self,*a,**k):
        inv.check(self,('pre',name,DEPTH[0]>0),ERRS)
        m0=inv2.measure(self); n0=len(self.operations); snap=(list(self.stacks),list(self.bets))
        DEPTH[0]+=1
        try: r=f(self,*a,**k)
        finally: DEPTH[0]-=1
        inv.check(self,('post',name,DEPTH[0]>0),ERRS)
        m1=inv2.measure(self)
        if not (m1<m0):
            MFAIL[(name,DEPTH[0]>0)]+=1; MEX.setdefault((name,DEPTH[0]>0),(m0,m1))
        # record exactness: the record is the first one appended
        if self.operations[n0] is not r: MFAIL[('record-first',name)]+=1
        if name=='check_or_call' or name=='post_ante' or name=='post_blind_or_straddle' or name=='post_bring_in':
            pass
        return r
    setattr(State,name,g)
for o in OPS: wrap(o)
_bb=State._begin_betting
def bb(self):
    # fallback (stud deck exhaustion) excluded when board cards exist in stud
    ok=inv2.ledger_ok(self)
    if ok is not True and not any(self.board_cards) : MFAIL[('ledger',)]+=1; MEX.setdefault(('ledger',),ok)
    return _bb(self)
State._begin_betting=bb

def mk(rng):
    autos=tuple(a for a in ALL if rng.random()<0.6)
    # avoid the known F5 defect: if hole/board dealing automated, automate burning too
    if (A.HOLE_DEALING in autos or A.BOARD_DEALING in autos) and A.CARD_BURNING not in autos: autos+=(A.CARD_BURNING,)
    n=rng.choice([2,2,3,4,5])
    stacks=[rng.choice([1,2,3,5,8,20,50]) for _ in range(n)]
    mode=rng.choice(list(Mode)); trim=rng.random()<.5; ante=rng.choice([0,0,1,3]); b=rng.choice([1,1,2])
    kind=rng.choice(['NT','NS','F7S','F7S8','FR','FB','PO','FO8','N2L1D','F2L3D','FT'])
    kw=dict(mode=mode,starting_board_count=b)
    if kind=='NT': f=lambda: NoLimitTexasHoldem.create_state(autos,trim,ante,(1,2),2,stacks,n,**kw)
    if kind=='NS': f=lambda: NoLimitShortDeckHoldem.create_state(autos,trim,max(ante,1),{-1:2},2,stacks,n,**kw)
    if kind=='FT': f=lambda: FixedLimitTexasHoldem.create_state(autos,trim,ante,(1,2),2,4,stacks,n,**kw)
    if kind=='PO': f=lambda: PotLimitOmahaHoldem.create_state(autos,trim,ante,(1,2),2,stacks,n,**kw)
    if kind=='FO8': f=lambda: FixedLimitOmahaHoldemHighLowSplitEightOrBetter.create_state(autos,trim,ante,(1,2),2,4,stacks,n,**kw)
    if kind=='F7S': f=lambda: FixedLimitSevenCardStud.create_state(autos,trim,max(ante,1),1,2,4,stacks,n,mode=mode)
    if kind=='F7S8': f=lambda: FixedLimitSevenCardStudHighLowSplitEightOrBetter.create_state(autos,trim,max(ante,1),1,2,4,stacks,n,mode=mode)
    if kind=='FR': f=lambda: FixedLimitRazz.create_state(autos,trim,max(ante,1),1,2,4,stacks,n,mode=mode)
    if kind=='FB': f=lambda: FixedLimitBadugi.create_state(autos,trim,ante,(1,2),2,4,stacks,n,mode=mode)
    if kind=='N2L1D': f=lambda: NoLimitDeuceToSevenLowballSingleDraw.create_state(autos,trim,ante,(1,2),2,stacks,n,mode=mode)
    if kind=='F2L3D': f=lambda: FixedLimitDeuceToSevenLowballTripleDraw.create_state(autos,trim,ante,(1,2),2,4,stacks,n,mode=mode)
    return kind,autos,mode,f
def step(s,rng,mode):
    ops=[]
    if s.can_post_ante(): ops.append(lambda: s.post_ante(rng.choice(list(s.ante_poster_indices))))
    if s.can_collect_bets(): ops.append(s.collect_bets)
    if s.can_post_blind_or_straddle(): ops.append(lambda: s.post_blind_or_straddle(rng.choice(list(s.blind_or_straddle_poster_indices))))
    if s.can_burn_card(): ops.append(s.burn_card)
    if s.can_deal_hole(): ops.append(s.deal_hole)
    if s.can_deal_board(): ops.append(s.deal_board)
    if s.can_stand_pat_or_discard():
        hc=s.hole_cards[s.stander_pat_or_discarder_index]
        ops.append(lambda: s.stand_pat_or_discard(rng.sample(hc,rng.randint(0,len(hc)))))
    # only tournament-legal folds (avoid known F6 orphan-pot path), keep rare
    if s.can_fold() and s.bets[s.actor_index]<max(s.bets): ops.append(s.fold)
    if s.can_check_or_call(): ops+= [s.check_or_call]*2
    if s.can_post_bring_in(): ops.append(s.post_bring_in)
    if s.can_complete_bet_or_raise_to():
        lo,hi=s.min_completion_betting_or_raising_to_amount,s.max_completion_betting_or_raising_to_amount
        ops.append(lambda: s.complete_bet_or_raise_to(rng.choice([lo,hi,rng.randint(lo,hi)])))
    if any(s.runout_count_selector_statuses):
        ops.append(lambda: s.select_runout_count(rng.choice([None,1,2,2,3])))
    if s.can_show_or_muck_hole_cards(): ops.append(s.show_or_muck_hole_cards)   # default decision only (avoid F6 via mucking)
    if s.can_kill_hand(): ops.append(lambda: s.kill_hand(rng.choice(list(s.hand_killing_indices))))
    if s.can_push_chips(): ops.append(s.push_chips)
    if s.can_pull_chips(): ops.append(lambda: s.pull_chips(rng.choice(list(s.chips_pulling_indices))))
    return ops
N=int(sys.argv[1]); exc=collections.Counter(); exex={}; lens=[]
for seed in range(N):
    rng=random.Random(seed); kind,autos,mode,f=mk(rng)
    try: s=f()
    except Exception as e:
        k=(kind,'ctor',type(e).__name__,traceback.extract_tb(e.__traceback__)[-1].lineno); exc[k]+=1; exex.setdefault(k,(seed,str(e)[:60])); continue
    inv.check(s,('post','ctor',False),ERRS)
    steps=0
    while s.status and steps<400:
        ops=step(s,rng,mode)
        if not ops: exc[(kind,'stuck')]+=1; exex.setdefault((kind,'stuck'),(seed,inv.pending_phases(s))); break
        try: rng.choice(ops)()
        except Exception as e:
            k=(kind,'op',type(e).__name__,traceback.extract_tb(e.__traceback__)[-1].lineno); exc[k]+=1; exex.setdefault(k,(seed,str(e)[:60])); break
        steps+=1
    lens.append(len(s.operations))
for k,v in MFAIL.items(): print('MEASURE/REC',k,v,MEX.get(k))
print('hands',N,'max ops',max(lens),'mean',sum(lens)/len(lens))
for k,v in sorted(exc.items(),key=str): print('EXC',k,v,exex[k])
seen=set()
for k,v in sorted(((k,v) for k,v in ERRS.items() if k[0]!='EX'),key=str):
    print('INV-FAIL',k,v,ERRS.get(('EX',k[0],k[1])))

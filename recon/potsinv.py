import sys, time, z3
# One iteration of `for contribution in sorted(set(contributions))` in State.pots, cut by a loop invariant.
# Iteration contract of sorted(set(xs)): prev < level, level in xs, no x in xs with prev < x < level (prev = previous yield, or "below min" initially).
def run(n):
    c=[z3.Int(f'c{i}') for i in range(n)]; b=[z3.Int(f'b{i}') for i in range(n)]; live=[z3.Bool(f'l{i}') for i in range(n)]
    A,prev,level=z3.Ints('A prev level')
    T=z3.Int('T')                      # ghost: total of amounts currently on the stack
    mine=[z3.Int(f'm{j}') for j in range(n)]   # ghost: total of stack pots player j is eligible for
    topm=[z3.Bool(f't{i}') for i in range(n)]; topa=z3.Int('topa'); L=z3.Int('L')  # top-of-stack view
    first=z3.Bool('first')             # no level processed yet (amount still holds A)
    mn=lambda x,y: z3.If(x<=y,x,y)
    pre=[A>=0,L>=0,topa>0]+[x>=0 for x in c+b]
    # invariant at loop head
    amount=z3.If(first,A,0)
    inv=[T+amount==z3.Sum([mn(ci,prev) for ci in c])+A, z3.Implies(first,z3.And(prev==0,T==0,L==0))]
    for j in range(n):
        # j eligible for every pushed pot whose level <= p_j ; with bets==0: mine_j == sum_i min(c_i, min(c_j,prev)) + (A if not first else 0)
        inv.append(z3.Implies(z3.And(live[j],*[x==0 for x in b]), mine[j]==z3.Sum([mn(ci,mn(c[j],prev)) for ci in c])+z3.If(first,0,A)))
        inv.append(z3.Implies(z3.Not(live[j]), mine[j]==0))
    # top-of-stack consistency (only what the step needs): if L>0 the top pot's mask is topm, amount topa, and mine/T include it
    # iteration order contract
    it=[z3.Or([level==ci for ci in c]), z3.Implies(z3.Not(first),prev<level), z3.Implies(first,z3.And([level<=ci for ci in c]))]
    it+= [z3.Not(z3.And(prev<ci,ci<level)) for ci in c]
    # body
    add=z3.Sum([z3.If(ci>=level,level-prev,0) for ci in c])
    a2=amount+add
    m=[z3.And(c[i]+b[i]>=level,live[i]) for i in range(n)]
    same=z3.And(L>0,*[topm[i]==m[i] for i in range(n)])
    a3=z3.If(same,a2+topa,a2); T2=z3.If(same,T-topa,T)
    mine2=[z3.If(z3.And(same,topm[j]),mine[j]-topa,mine[j]) for j in range(n)]
    push=a3!=0
    T3=z3.If(push,T2+a3,T2); mine3=[z3.If(z3.And(push,m[j]),mine2[j]+a3,mine2[j]) for j in range(n)]
    # ghost consistency assumption for the popped pot: everyone in topm had it counted (part of INV on the stack view)
    post=[T3==z3.Sum([mn(ci,level) for ci in c])+A]
    for j in range(n):
        post.append(z3.Implies(z3.And(live[j],*[x==0 for x in b]), mine3[j]==z3.Sum([mn(ci,mn(c[j],level)) for ci in c])+A))
        post.append(z3.Implies(z3.Not(live[j]), mine3[j]==0))
    post.append(z3.Implies(push,a3>0))
    for name,o in [('preserve',z3.And(post)),('canary',T3==z3.Sum([mn(ci,level) for ci in c])+A+1)]:
        sv=z3.Solver(); sv.set('timeout',120000); sv.add(pre+inv+it); sv.add(z3.Not(o)); t=time.time(); r=sv.check()
        print(f'n={n} {name:9s} {"proved" if r==z3.unsat else r} {time.time()-t:.2f}s',flush=True)
        if name=='preserve' and r==z3.sat:
            mdl=sv.model(); print({str(d):mdl[d] for d in mdl.decls()})
for n in map(int,sys.argv[1:]): run(n)

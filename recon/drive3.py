import random, warnings, collections, sys
warnings.simplefilter('ignore')
from pokerkit import *
from pokerkit.state import *
import inv3
A=Automation; ALL=tuple(A)
FAIL=collections.Counter(); EX={}
_bb=State._begin_betting
INIT={}
def bb(self):
    r=_bb(self)
    return r
# capture bets/stacks at round start: wrap _begin_betting entry
def bb(self):
    INIT[id(self)]=(list(self.bets),list(self.stacks))
    first=self.street is self.streets[0]
    r=_bb(self)
    if self.street is not None and self.street.opening==Opening.POSITION and self.street_index==0 and self.actor_indices:
        exp=inv3.first_actor_from(self,inv3.spec_opener_position_first(self))
        if self.actor_index!=exp:
            FAIL['opener-first']+=1; EX.setdefault('opener-first',(self.blinds_or_straddles,self.starting_stacks,self.bets,self.actor_index,exp))
    elif self.street is not None and self.street.opening==Opening.POSITION and self.actor_indices:
        exp=inv3.first_actor_from(self,0)
        if self.actor_index!=exp: FAIL['opener-later']+=1; EX.setdefault('opener-later',(self.statuses,self.stacks,self.actor_index,exp))
    return r
State._begin_betting=bb
def check_raise(s):
    if s.actor_index is None: return
    a=s.actor_index
    ib,ist=INIT[id(s)]
    acted,tail,largest=inv3.replay_rule(s,ib,ist)
    st=s.street; n=s.player_count
    raises=[o for o in inv3.street_ops(s) if isinstance(o,CompletionBettingOrRaisingTo)]
    mx=max(s.bets)
    ok=True
    if st.max_completion_betting_or_raising_count is not None and len(raises)>=st.max_completion_betting_or_raising_count: ok=False
    elif tail and sum(tail)<largest and a in acted: ok=False
    elif s.stacks[a] <= mx-s.bets[a]: ok=False
    elif not any(i!=a and s.statuses[i] and s.stacks[i]+s.bets[i]>mx for i in range(n)): ok=False
    got=s.can_complete_bet_or_raise_to()
    if got!=ok:
        FAIL['raise-adm']+=1; EX.setdefault('raise-adm',(got,ok,acted,tail,largest,a,[type(o).__name__[:4]+str(o.player_index) for o in inv3.street_ops(s)]))
    if got:
        exp_min=min(max(largest,st.min_completion_betting_or_raising_amount)+(0 if s.completion_status else mx), s.get_effective_stack(a)+s.bets[a])
        if s.min_completion_betting_or_raising_to_amount!=exp_min: FAIL['min-raise-hist']+=1; EX.setdefault('min-raise-hist',(s.min_completion_betting_or_raising_to_amount,exp_min,largest))
def mk(rng):
    autos=ALL
    n=rng.choice([2,3,3,4,4,5,6])
    stacks=[rng.choice([1,2,3,4,5,7,9,12,20,35,60]) for _ in range(n)]
    mode=rng.choice(list(Mode))
    kind=rng.choice(['NT','PO','FT','F7S','N2L1D'])
    bl=rng.choice([(1,2),(1,2),(1,2,4),(2,4),(0,2),(1,2,0,-2),(1,2,4,8),{0:1,1:2,-1:-2}])
    if isinstance(bl,tuple) and len(bl)>n: bl=(1,2)
    if kind=='NT': f=lambda: NoLimitTexasHoldem.create_state(autos,True,rng.choice([0,1]),bl,2 if max(bl.values() if isinstance(bl,dict) else bl)<4 else 2,stacks,n,mode=mode)
    if kind=='PO': f=lambda: PotLimitOmahaHoldem.create_state(autos,True,0,bl,2,stacks,n,mode=mode)
    if kind=='FT': f=lambda: FixedLimitTexasHoldem.create_state(autos,True,0,bl,2,4,stacks,n,mode=mode)
    if kind=='F7S': f=lambda: FixedLimitSevenCardStud.create_state(autos,True,1,1,2,4,stacks,n,mode=mode)
    if kind=='N2L1D': f=lambda: NoLimitDeuceToSevenLowballSingleDraw.create_state(autos,True,0,bl,2,stacks,n,mode=mode)
    return f
N=int(sys.argv[1]); decisions=0
for seed in range(N):
    rng=random.Random(seed); f=mk(rng)
    try: s=f()
    except ValueError as e: continue
    steps=0
    while s.status and steps<300:
        steps+=1
        if s.can_stand_pat_or_discard(): s.stand_pat_or_discard(); continue
        if s.actor_index is None: break
        check_raise(s); decisions+=1
        ops=[]
        if s.can_fold() and s.bets[s.actor_index]<max(s.bets): ops.append(s.fold)
        if s.can_check_or_call(): ops+=[s.check_or_call]*2
        if s.can_post_bring_in(): ops.append(s.post_bring_in)
        if s.can_complete_bet_or_raise_to():
            lo,hi=s.min_completion_betting_or_raising_to_amount,s.max_completion_betting_or_raising_to_amount
            ops+=[lambda: s.complete_bet_or_raise_to(rng.choice([lo,lo,hi,rng.randint(lo,hi)]))]*3
        rng.choice(ops)()
print('hands',N,'decisions',decisions)
for k,v in FAIL.items(): print('FAIL',k,v,EX[k])

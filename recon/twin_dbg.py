import sys
sys.argv=['x','0']
exec(open('twin.py').read().split("res=collections.Counter()")[0])
seed=int(53)
rng=random.Random(seed); kind,make=maker(rng)
autos=tuple(a for a in ALL if rng.random()<.5)
if (A.HOLE_DEALING in autos or A.BOARD_DEALING in autos) and A.CARD_BURNING not in autos: autos+=(A.CARD_BURNING,)
s0=play(make,(),seed,emulate=autos); s1=play(make,autos,seed,emulate=autos)
print(kind,[a.name for a in autos]); print(len(s0.operations),len(s1.operations))
for i,(a,b) in enumerate(zip(s0.operations,s1.operations)):
    if a!=b: print(i,'\n  manual',a,'\n  auto  ',b); break
for j in range(max(0,i-4),i): print(j,s0.operations[j])

"""Native evaluation of the candidate invariants of DESIGN.md section 4 (recon only)."""
from collections import Counter
from itertools import chain
from pokerkit import *
from pokerkit.state import State

def pending_phases(s):
    ph=[]
    if any(s.ante_posting_statuses): ph.append('ANTE')
    if s.bet_collection_status: ph.append('COLLECT')
    if any(s.blind_or_straddle_posting_statuses): ph.append('BLIND')
    if s.card_burning_status or any(s.hole_dealing_statuses) or any(s.board_dealing_counts) or any(s.standing_pat_or_discarding_statuses): ph.append('DEAL')
    if s.actor_indices: ph.append('BET')
    if any(s.runout_count_selector_statuses) or s.showdown_indices: ph.append('SHOWDOWN')
    if any(s.hand_killing_statuses): ph.append('KILL')
    if s._sub_pots: ph.append('PUSH')
    if any(s.chips_pulling_statuses): ph.append('PULL')
    return ph

def spec_layers(contrib, live, ante_total=0):
    """side-pot layers from the statement. contrib = chips beyond the (untrimmed) ante.
    Untrimmed antes belong to the lowest layer. Adjacent layers with equal eligibility merge;
    empty layers vanish."""
    levels=sorted(set(contrib)); out=[]; lo=0; first=True
    for hi in levels:
        amt=sum(min(c,hi)-min(c,lo) for c in contrib)
        if first: amt+=ante_total; first=False
        elig=tuple(i for i,c in enumerate(contrib) if c>=hi and live[i])
        while out and out[-1][1]==elig: amt+=out.pop()[0]
        if amt: out.append((amt,elig))
        lo=hi
    return out

def check(s, where, errs):
    n=s.player_count
    def bad(tag,msg=''): errs[(tag,where)]+=1; errs.setdefault(('EX',tag,where),(msg,))
    # CHIPS
    if min(s.stacks)<0 or min(s.bets)<0: bad('c1')
    if any(s.payoffs[i]!=s.stacks[i]-s.starting_stacks[i] for i in range(n)): bad('c2')
    if s._pots is None:
        if any(-s.payoffs[i]-s.bets[i]<0 for i in range(n)): bad('c3')
        tot=sum(s.stacks)+s.total_pot_amount
        if tot!=sum(s.starting_stacks): bad('conserve-pre', f'{tot} {sum(s.starting_stacks)}')
    else:
        tot=sum(s.stacks)+sum(s.bets)+sum(p.raked_amount+p.unraked_amount for p in s._pots)
        if tot!=sum(s.starting_stacks): bad('c4a',f'{tot}')
        if sum(a for a,*_ in s._sub_pots)!=sum(p.unraked_amount for p in s._pots): bad('c4b', f'{s._sub_pots} {s._pots}')
    if not s.status:
        if any(s.bets) or s._sub_pots: bad('c5a')
        if sum(s.payoffs)!=-sum(p.raked_amount for p in (s._pots or [])): bad('c5b')
    # CARDS
    places=Counter(c for c in chain(s.deck_cards,chain.from_iterable(s.board_cards),chain.from_iterable(s.hole_cards),s.burn_cards,s.mucked_cards,chain.from_iterable(s.discarded_cards)) if c)
    if places!=Counter(s.deck): bad('cards', str((places-Counter(s.deck), Counter(s.deck)-places)))
    # PHASE
    ph=pending_phases(s)
    if s.status and len(ph)!=1: bad('phase1', str(ph))
    if not s.status and ph: bad('phase0', str(ph))
    cans=[s.can_post_ante(),s.can_collect_bets(),s.can_post_blind_or_straddle(),s.can_burn_card(),s.can_deal_hole(),s.can_deal_board(),s.can_stand_pat_or_discard(),s.can_fold(),s.can_check_or_call(),s.can_post_bring_in(),s.can_complete_bet_or_raise_to(),s.can_select_runout_count(),s.can_show_or_muck_hole_cards(),s.can_kill_hand(),s.can_push_chips(),s.can_pull_chips()]
    if s.status and not any(cans): bad('avail', str(ph))
    if not s.status and any(cans[:12]+cans[13:]): bad('avail-over', str(cans))
    # pots layering (before freeze)
    if s._pots is None and s.status:
        pots=list(s.pots)
        if pots:
            contrib=[-s.payoffs[i]-s.bets[i] for i in range(n)]
            ante_amt=0
            if not s.ante_trimming_status:
                for i in range(n):
                    a=s.get_effective_ante(i); contrib[i]-=a; ante_amt+=a
            spec=spec_layers(contrib,s.statuses,ante_amt)
            got=[(p.amount,p.player_indices) for p in pots]
            if got!=spec: bad('layers', f'{got} vs {spec} contrib={contrib} st={s.statuses}')
    # betting queue sanity + amounts
    if s.actor_indices:
        a=s.actor_index
        q=list(s.actor_indices)
        if len(set(q))!=len(q) or any(not s.statuses[i] or s.stacks[i]<=0 for i in q): bad('queue-live')
        # clockwise: strictly increasing modulo rotation
        rot=[(i-q[0])%n for i in q]
        if rot!=sorted(rot): bad('queue-clockwise', str(q))
        if s.can_check_or_call():
            if s.checking_or_calling_amount!=min(s.stacks[a],max(s.bets)-s.bets[a]): bad('call-amt')
        if s.can_complete_bet_or_raise_to():
            mn=max(s.completion_betting_or_raising_amount,s.street.min_completion_betting_or_raising_amount)+(0 if s.completion_status else max(s.bets))
            mn=min(mn,s.get_effective_stack(a)+s.bets[a])
            if s.min_completion_betting_or_raising_to_amount!=mn: bad('min-raise')
            mx=s.max_completion_betting_or_raising_to_amount
            if s.betting_structure==BettingStructure.NO_LIMIT and mx!=s.stacks[a]+s.bets[a]: bad('max-nl')
            if s.betting_structure==BettingStructure.FIXED_LIMIT and mx!=s.min_completion_betting_or_raising_to_amount: bad('max-fl')
            if not (s.min_completion_betting_or_raising_to_amount<=mx): bad('min<=max')
    # statuses/hands
    for i in range(n):
        if not s.statuses[i] and (s.hole_cards[i] or s.hole_dealing_statuses[i]): bad('dead-has-cards')
        if len(s.hole_cards[i])!=len(s.hole_card_statuses[i]): bad('hole-len')

def measure(s):
    """candidate ranking function (lexicographic tuple -> compare as tuple)."""
    order=['ANTE','COLLECT','BLIND','DEAL','BET','COLLECT2','SHOWDOWN','KILL','PUSH','PULL']
    return None

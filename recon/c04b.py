from collections import Counter
from itertools import combinations_with_replacement
from pokerkit.state import _LowHandOpeningLookup,_HighHandOpeningLookup
from rank_spec import *
SU='cdhs'
def cards(ranks):
    c=Counter(); out=''
    for r in ranks: out+=r+SU[c[r]]; c[r]+=1
    return out
for name,lk,order in [('High',_HighHandOpeningLookup(),STD),('Low',_LowHandOpeningLookup(),REG)]:
    for k in (1,2,3,4):
        rows=[]
        for ranks in combinations_with_replacement(order,k):
            mult,rk=shape(ranks,order)
            cat={(1,):0,(1,1):0,(1,1,1):0,(1,1,1,1):0,(2,):1,(2,1):1,(2,1,1):1,(2,2):2,(3,):3,(3,1):3,(4,):4}[mult]
            e=lk.get_entry(cards(ranks))
            rows.append(((cat,)+rk,e.index,e.label.value))
        rows.sort(key=lambda t:t[1])
        ok=all(a[0]<b[0] for a,b in zip(rows,rows[1:])) and len({r[1] for r in rows})==len(rows)
        labs={ {0:'High card',1:'One pair',2:'Two pair',3:'Three of a kind',4:'Four of a kind'}[r[0][0]]==r[2] for r in rows}
        print(name,k,'cards: entries',len(rows),'order-iso',ok,'labels ok',labs=={True})

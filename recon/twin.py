import random, warnings, collections, sys, copy
warnings.simplefilter('ignore')
import pokerkit.state as S
from pokerkit import *
from pokerkit.state import *
S.shuffle=lambda x: None          # deterministic deck for twin runs
S.shuffled=lambda x: list(x)
A=Automation; ALL=tuple(A)
MECH={ 'ANTE':A.ANTE_POSTING,'COLLECT':A.BET_COLLECTION,'BLIND':A.BLIND_OR_STRADDLE_POSTING,'KILL':A.HAND_KILLING,'PUSH':A.CHIPS_PUSHING,'PULL':A.CHIPS_PULLING}
KIND=[(A.ANTE_POSTING,'can_post_ante','post_ante'),(A.BET_COLLECTION,'can_collect_bets','collect_bets'),(A.BLIND_OR_STRADDLE_POSTING,'can_post_blind_or_straddle','post_blind_or_straddle'),
      (A.CARD_BURNING,'can_burn_card','burn_card'),(A.HOLE_DEALING,'can_deal_hole','deal_hole'),(A.BOARD_DEALING,'can_deal_board','deal_board'),
      (A.RUNOUT_COUNT_SELECTION,'can_select_runout_count','select_runout_count'),(A.HOLE_CARDS_SHOWING_OR_MUCKING,'can_show_or_muck_hole_cards','show_or_muck_hole_cards'),
      (A.HAND_KILLING,'can_kill_hand','kill_hand'),(A.CHIPS_PUSHING,'can_push_chips','push_chips'),(A.CHIPS_PULLING,'can_pull_chips','pull_chips')]
def eager(s, emulate):
    """one default step of an automated kind, engine priority order; False if none available"""
    for k,can,op in KIND:
        if k in emulate and getattr(s,can)(): getattr(s,op)(); return True
    return False
def mech_step(s, showall=False):
    for k,can,op in KIND:
        if k in (A.RUNOUT_COUNT_SELECTION,A.HOLE_CARDS_SHOWING_OR_MUCKING): continue
        if getattr(s,can)(): getattr(s,op)(); return True
    return False
def play(make, autos, decide_seed, showall=False, emulate=()):
    rng=random.Random(decide_seed)
    s=make(autos)
    guard=0
    while s.status and guard<2000:
        guard+=1
        if eager(s,emulate): continue
        if mech_step(s): continue
        if any(s.runout_count_selector_statuses):
            s.select_runout_count() if A.RUNOUT_COUNT_SELECTION in emulate else s.select_runout_count(rng.choice([None,1,2,2])); continue
        if s.showdown_indices:
            if showall: s.show_or_muck_hole_cards(True)
            else: s.show_or_muck_hole_cards()
            continue
        if s.can_stand_pat_or_discard():
            hc=list(s.hole_cards[s.stander_pat_or_discarder_index]); k=rng.randint(0,len(hc))
            s.stand_pat_or_discard(hc[:k]); continue
        # betting decision
        ops=[]
        if s.can_fold() and s.bets[s.actor_index]<max(s.bets): ops.append(('f',))
        if s.can_check_or_call(): ops+= [('c',)]*2
        if s.can_post_bring_in(): ops.append(('b',))
        if s.can_complete_bet_or_raise_to():
            lo,hi=s.min_completion_betting_or_raising_to_amount,s.max_completion_betting_or_raising_to_amount
            ops+= [('r',lo),('r',hi),('r',(lo+hi)//2)]
        o=rng.choice(ops)
        if o[0]=='f': s.fold()
        elif o[0]=='c': s.check_or_call()
        elif o[0]=='b': s.post_bring_in()
        else: s.complete_bet_or_raise_to(o[1])
    return s
def maker(rng):
    n=rng.choice([2,3,3,4]); stacks=[rng.choice([2,3,5,8,13,30]) for _ in range(n)]
    mode=rng.choice(list(Mode)); kind=rng.choice(['NT','PO','FO8','F7S','F7S8','FR','FB','N2L1D','FT']); ante=rng.choice([0,1]); trim=rng.random()<.5
    b=rng.choice([1,1,2])
    def make(autos):
        kw=dict(mode=mode)
        if kind=='NT': return NoLimitTexasHoldem.create_state(autos,trim,ante,(1,2),2,stacks,n,starting_board_count=b,**kw)
        if kind=='FT': return FixedLimitTexasHoldem.create_state(autos,trim,ante,(1,2),2,4,stacks,n,**kw)
        if kind=='PO': return PotLimitOmahaHoldem.create_state(autos,trim,ante,(1,2),2,stacks,n,starting_board_count=b,**kw)
        if kind=='FO8': return FixedLimitOmahaHoldemHighLowSplitEightOrBetter.create_state(autos,trim,ante,(1,2),2,4,stacks,n,**kw)
        if kind=='F7S': return FixedLimitSevenCardStud.create_state(autos,trim,1,1,2,4,stacks,n,**kw)
        if kind=='F7S8': return FixedLimitSevenCardStudHighLowSplitEightOrBetter.create_state(autos,trim,1,1,2,4,stacks,n,**kw)
        if kind=='FR': return FixedLimitRazz.create_state(autos,trim,1,1,2,4,stacks,n,**kw)
        if kind=='FB': return FixedLimitBadugi.create_state(autos,trim,ante,(1,2),2,4,stacks,n,**kw)
        if kind=='N2L1D': return NoLimitDeuceToSevenLowballSingleDraw.create_state(autos,trim,ante,(1,2),2,stacks,n,**kw)
    return kind,make
def replay_log(make, s):
    t=make(())
    for o in s.operations:
        if isinstance(o,AntePosting): r=t.post_ante(o.player_index)
        elif isinstance(o,BetCollection): r=t.collect_bets()
        elif isinstance(o,BlindOrStraddlePosting): r=t.post_blind_or_straddle(o.player_index)
        elif isinstance(o,CardBurning): r=t.burn_card(o.card)
        elif isinstance(o,HoleDealing): r=t.deal_hole(o.cards,o.player_index)
        elif isinstance(o,BoardDealing): r=t.deal_board(o.cards)
        elif isinstance(o,StandingPatOrDiscarding): r=t.stand_pat_or_discard(o.cards)
        elif isinstance(o,Folding): r=t.fold()
        elif isinstance(o,CheckingOrCalling): r=t.check_or_call()
        elif isinstance(o,BringInPosting): r=t.post_bring_in()
        elif isinstance(o,CompletionBettingOrRaisingTo): r=t.complete_bet_or_raise_to(o.amount)
        elif isinstance(o,RunoutCountSelection): r=t.select_runout_count(o.runout_count)   # F1: cannot pass the player
        elif isinstance(o,HoleCardsShowingOrMucking): r=t.show_or_muck_hole_cards(o.hole_cards if o.hole_cards else False,o.player_index)
        elif isinstance(o,HandKilling): r=t.kill_hand(o.player_index)
        elif isinstance(o,ChipsPushing): r=t.push_chips()
        elif isinstance(o,ChipsPulling): r=t.pull_chips(o.player_index)
        if r!=o: return ('record-differs',o,r)
    return t
PUB=['stacks','bets','payoffs','statuses','board_cards','hole_cards','hole_card_statuses','mucked_cards','burn_cards','status','street_index']
res=collections.Counter(); ex={}
N=int(sys.argv[1])
for seed in range(N):
    rng=random.Random(seed); kind,make=maker(rng)
    autos=tuple(a for a in ALL if rng.random()<.5)
    if (A.HOLE_DEALING in autos or A.BOARD_DEALING in autos) and A.CARD_BURNING not in autos: autos+=(A.CARD_BURNING,)   # avoid F5
    try:
        s0=play(make,(),seed,emulate=autos); s1=play(make,autos,seed,emulate=autos)
    except Exception as e:
        res[('exc',type(e).__name__)]+=1; ex.setdefault(('exc',type(e).__name__),(seed,kind,str(e)[:60])); continue
    # C09
    if s0.operations!=s1.operations or any(getattr(s0,f)!=getattr(s1,f) for f in PUB):
        res['C09-diff']+=1; ex.setdefault('C09-diff',(seed,kind,[a.name for a in autos]))
    else: res['C09-same']+=1
    # C12: everyone tables
    try:
        s2=play(make,(),seed,showall=True,emulate=autos)
        if s2.stacks!=s0.stacks: res['C12-diff']+=1; ex.setdefault('C12-diff',(seed,kind,s0.stacks,s2.stacks))
        else: res['C12-same']+=1
    except Exception as e:
        res[('C12-exc',type(e).__name__)]+=1; ex.setdefault(('C12-exc',type(e).__name__),(seed,kind,str(e)[:70]))
    # C15 replay + copy
    try:
        t=replay_log(make,s1)
        if isinstance(t,tuple): res['C15-record']+=1; ex.setdefault('C15-record',(seed,kind,t))
        elif t.operations!=s1.operations or any(getattr(t,f)!=getattr(s1,f) for f in PUB): res['C15-replay-diff']+=1; ex.setdefault('C15-replay-diff',(seed,kind))
        else: res['C15-replay-same']+=1
    except Exception as e:
        res[('C15-exc',type(e).__name__)]+=1; ex.setdefault(('C15-exc',type(e).__name__),(seed,kind,str(e)[:70]))
for k,v in sorted(res.items(),key=str): print(k,v,ex.get(k,''))

import sys
from collections import Counter
from itertools import combinations, combinations_with_replacement
from pokerkit import *
from pokerkit.lookups import *
from pokerkit.state import _LowHandOpeningLookup,_HighHandOpeningLookup
from rank_spec import *
SU='cdhs'
def cards_for(ranks,suited,rainbow=False):
    """some concrete card string realising (ranks, suited); None if impossible"""
    if rainbow:
        if len(ranks)>4: return None
        return ''.join(r+SU[i] for i,r in enumerate(ranks))
    if suited: return ''.join(r+'s' for r in ranks)
    c=Counter(); out=''
    for i,r in enumerate(ranks):
        out+=r+SU[c[r]] ; c[r]+=1
    if len(ranks)>1 and len(set(out[1::2]))==1:   # force unsuited: change last card's suit
        out=out[:-1]+('d' if out[-1]!='d' else 'h')
        # avoid duplicating a card
    return out
def check(name,lookup,order,value,valid_extra=lambda r,s:True,sizes=(5,),suited_ok=True,rainbow=False,low=False):
    keys=[]
    for k in sizes:
        for ranks in combinations_with_replacement(order,k):
            if max(Counter(ranks).values())>4: continue
            for suited in ((False,True) if suited_ok else (False,)):
                if suited and max(Counter(ranks).values())>1: continue
                if k==1 and not suited: continue   # one card is always 'suited'
                keys.append((ranks,suited))
    bad=0; vals={}
    for ranks,suited in keys:
        cs=cards_for(ranks,suited,rainbow)
        if cs is None: continue
        try: v=value(ranks,suited)
        except ValueError: v=None
        has=lookup.has_entry(cs)
        if (v is not None)!=has:
            bad+=1
            if bad<4: print(' ',name,'validity mismatch',ranks,suited,cs,'spec',v,'lookup',has)
            continue
        if has: vals[(ranks,suited)]=(v,lookup.get_entry(cs).index,lookup.get_entry(cs).label)
    items=sorted(vals.values(),key=lambda t:t[1])
    # order isomorphism
    byidx={}
    for v,i,l in items: byidx.setdefault(i,set()).add(v)
    multi=[i for i,vs in byidx.items() if len(vs)>1]
    idxs=sorted(byidx)
    dense=idxs==list(range(len(idxs)))
    mono=all(max(byidx[a])<min(byidx[b]) for a,b in zip(idxs,idxs[1:]))
    print(f'{name:24s} keys={len(vals):5d} distinct_idx={len(idxs):5d} validity_bad={bad} one-value-per-index={not multi} dense={dense} order-iso={mono}')
    if not mono:
        for a,b in zip(idxs,idxs[1:]):
            if not max(byidx[a])<min(byidx[b]): print('   first order break at index',a,byidx[a],b,byidx[b]); break
H=lambda order,**kw: (lambda r,s: high_value(r,s,order,**kw))
check('Standard',StandardLookup(),STD,H(STD))
check('ShortDeck',ShortDeckHoldemLookup(),SHORT,H(SHORT,flush_beats_full_house=True))
# ace-to-five: no straights, no flushes, ace low; table index order = strength as a HIGH evaluation in REG order (low hands reverse it in Hand)
check('Regular(A-5)',RegularLookup(),REG,H(REG,straights=False,flushes=False))
def eight(r,s):
    if len(set(r))!=5: raise ValueError
    return high_value(r,s,EIGHT,straights=False,flushes=False)
check('EightOrBetter',EightOrBetterLookup(),EIGHT,eight)
def badugi(order):
    def f(r,s):
        if len(set(r))!=len(r): raise ValueError
        # fewer cards = "higher" index? table: 4-card first (lowest index), ... compare as high eval in given order with more cards LOWER
        return (-len(r),)+tuple(sorted((order.index(x) for x in r),reverse=True))
    return f
check('Badugi',BadugiLookup(),REG,badugi(REG),sizes=(1,2,3,4),suited_ok=True,rainbow=True)
check('StandardBadugi',StandardBadugiLookup(),STD,badugi(STD),sizes=(1,2,3,4),suited_ok=True,rainbow=True)
check('Kuhn',KuhnPokerLookup(),KUHN,lambda r,s:(KUHN.index(r[0]),),sizes=(1,),suited_ok=True)
def opening(order):
    def f(r,s):
        mult,rk=shape(r,order)
        cat={ (1,):0,(1,1):0,(1,1,1):0,(1,1,1,1):0,(2,):1,(2,1):1,(2,1,1):1,(2,2):2,(3,):3,(3,1):3,(4,):4}.get(mult)
        if cat is None: raise ValueError
        return (cat,len(r) if cat==0 else 0)+rk if False else (cat,)+((len(r),) if False else ())+rk
    return f
check('HighHandOpening',_HighHandOpeningLookup(),STD,opening(STD),sizes=(1,2,3,4))
check('LowHandOpening',_LowHandOpeningLookup(),REG,opening(REG),sizes=(1,2,3,4))

"""History-based (independent) statements of C03 raise admissibility and C13 position opener; compared natively."""
from pokerkit import *
from pokerkit.state import *

def street_ops(s):
    """operations of the current betting round (after the last dealing/collection record)"""
    ops=[]
    for o in s.operations:
        if isinstance(o,(HoleDealing,BoardDealing,CardBurning,StandingPatOrDiscarding,BetCollection,BlindOrStraddlePosting,AntePosting)): 
            if isinstance(o,(BlindOrStraddlePosting,)): continue
            ops=[]
        elif isinstance(o,(Folding,CheckingOrCalling,BringInPosting,CompletionBettingOrRaisingTo)): ops.append(o)
    return ops

def spec_can_raise(s, stacks_before):
    """rules: cap; covered; nobody left to call more; short all-in does not reopen for players who already acted."""
    a=s.actor_index; n=s.player_count
    if a is None: return False
    st=s.street
    ops=street_ops(s)
    raises=[o for o in ops if isinstance(o,CompletionBettingOrRaisingTo)]
    if st.max_completion_betting_or_raising_count is not None and len(raises)>=st.max_completion_betting_or_raising_count: return False
    mx=max(s.bets)
    if s.stacks[a] <= mx-s.bets[a]: return False
    if not any(i!=a and s.statuses[i] and s.stacks[i]+s.bets[i]>mx for i in range(n)): return False
    # replay the round: running max bet, largest raise increment, who acted since last full raise, tail of all-in raises
    # initial max bet = blinds/bring-in posted: reconstruct from first raise amounts relative to bets history
    return None  # filled by replay below

def replay_rule(s, init_bets, init_stacks):
    """recompute from the round's operation log; returns (acted_since_full_raise, tail_short_sum, largest_raise)"""
    bets=list(init_bets); stacks=list(init_stacks)
    largest=0; acted=set(); tail=[]
    for o in street_ops(s):
        p=o.player_index
        if isinstance(o,Folding): acted.add(p)
        elif isinstance(o,(CheckingOrCalling,BringInPosting)):
            bets[p]+=o.amount; stacks[p]-=o.amount; acted.add(p)
        else:
            inc=o.amount-max(bets); delta=o.amount-bets[p]; bets[p]=o.amount; stacks[p]-=delta
            if inc>=largest: acted=set()
            acted.add(p)
            largest=max(largest,inc)
            if stacks[p]==0: tail.append(inc)
            else: tail=[]
    return acted,tail,largest

def spec_opener_position_first(s):
    n=s.player_count
    best=None
    for k,v in enumerate(s.blinds_or_straddles):
        if v>0:
            poster=k if n>2 else 1-k
            key=(v,poster)
            if best is None or key>best: best=key
    if best is None: return 0   # no blinds: first after the button
    return (best[1]+1)%n

def first_actor_from(s,opener):
    n=s.player_count
    for d in range(n):
        i=(opener+d)%n
        if s.statuses[i] and s.stacks[i] and s.get_effective_stack(i): return i
    return None

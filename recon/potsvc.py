import sys, time, z3
def run(n):
    c=[z3.Int(f'c{i}') for i in range(n)]      # contributions beyond untrimmed ante (collected)
    b=[z3.Int(f'b{i}') for i in range(n)]      # bets in front
    live=[z3.Bool(f'l{i}') for i in range(n)]
    A=z3.Int('A')
    pre=[A>=0]+[x>=0 for x in c]+[x>=0 for x in b]
    p=[c[i]+b[i] for i in range(n)]           # pending_contributions
    # sorted(set(c)) : bubble network, then skip duplicates
    s=list(c)
    for i in range(n):
        for j in range(n-1-i):
            lo=z3.If(s[j]<=s[j+1],s[j],s[j+1]); hi=z3.If(s[j]<=s[j+1],s[j+1],s[j]); s[j],s[j+1]=lo,hi
    # stack of pots: amounts, masks, length
    amt=[z3.IntVal(0)]*n; msk=[[z3.BoolVal(False)]*n for _ in range(n)]; L=z3.IntVal(0)
    amount=A; prev=z3.IntVal(0); unwind=[]
    def top(arr): # value at index L-1
        e=arr[0]
        for k in range(1,n): e=z3.If(L-1==k,arr[k],e)
        return e
    for k in range(n):
        act = z3.BoolVal(True) if k==0 else s[k]!=s[k-1]
        level=s[k]
        add=z3.Sum([z3.If(c[i]>=level,level-prev,0) for i in range(n)])
        a2=amount+add
        m=[z3.And(p[i]>=level,live[i]) for i in range(n)]
        # while pots and pots[-1].mask==m: amount+=pop  (unroll 2, assert no third)
        L2=L; a3=a2
        for _ in range(2):
            topm=[ (lambda i: (lambda e: e)( z3.Or([z3.And(L2-1==kk, msk[kk][i]) for kk in range(n)]) ))(i) for i in range(n)]
            same=z3.And(L2>0,*[topm[i]==m[i] for i in range(n)])
            topa=z3.Sum([z3.If(L2-1==kk,amt[kk],0) for kk in range(n)])
            a3=z3.If(same,a3+topa,a3); L2=z3.If(same,L2-1,L2)
        topm=[z3.Or([z3.And(L2-1==kk, msk[kk][i]) for kk in range(n)]) for i in range(n)]
        unwind.append(z3.Implies(act, z3.Not(z3.And(L2>0,*[topm[i]==m[i] for i in range(n)]))))
        push=z3.And(act,a3!=0)
        newamt=[z3.If(z3.And(push,L2==kk),a3,amt[kk]) for kk in range(n)]
        newmsk=[[z3.If(z3.And(push,L2==kk),m[i],msk[kk][i]) for i in range(n)] for kk in range(n)]
        L3=z3.If(push,L2+1,z3.If(act,L2,L))
        amt=[z3.If(act,newamt[kk],amt[kk]) for kk in range(n)]; msk=[[z3.If(act,newmsk[kk][i],msk[kk][i]) for i in range(n)] for kk in range(n)]
        L=L3; amount=z3.If(act,0,amount); prev=z3.If(act,level,prev)
    inpot=lambda kk: kk<L
    total=z3.Sum([z3.If(inpot(kk),amt[kk],0) for kk in range(n)])
    obls={}
    obls['unwind']=z3.And(unwind)
    obls['L1-sum']= total==z3.Sum(c)+A
    obls['pos']=z3.And([z3.Implies(inpot(kk),amt[kk]>0) for kk in range(n)])
    obls['elig-live']=z3.And([z3.Implies(z3.And(inpot(kk),msk[kk][i]),live[i]) for kk in range(n) for i in range(n)])
    # precondition of the fairness clause: bets of folded players do not exceed... (bets arbitrary here) -> use b=0 case for exactness
    fair=[]
    for j in range(n):
        mine=z3.Sum([z3.If(z3.And(inpot(kk),msk[kk][j]),amt[kk],0) for kk in range(n)])
        fair.append(z3.Implies(z3.And(live[j],*[x==0 for x in b]), mine==z3.Sum([z3.If(c[i]<=c[j],c[i],c[j]) for i in range(n)])+A))
    obls['L3-fair']=z3.And(fair)
    obls['canary']=total==z3.Sum(c)+A+1
    for name,o in obls.items():
        sv=z3.Solver(); sv.set('timeout',120000); sv.add(pre); sv.add(z3.Not(o)); t=time.time(); r=sv.check()
        print(f'n={n} {name:10s} {"proved" if r==z3.unsat else r} {time.time()-t:.2f}s', flush=True)
for n in map(int,sys.argv[1:]): run(n)

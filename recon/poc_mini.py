"""Throw-away PoC: fork-based symbolic execution of real pokerkit method bodies (AST read from /repo) -> z3."""
import ast, z3, itertools
SRC={m:ast.parse(open(f'/repo/pokerkit/{m}.py').read()) for m in ('state','utilities')}
def find_class(mod,name): return next(n for n in SRC[mod].body if isinstance(n,ast.ClassDef) and n.name==name)
def find_func(mod,name,cls=None):
    body=find_class(mod,cls).body if cls else SRC[mod].body
    return next(n for n in body if isinstance(n,ast.FunctionDef) and n.name==name)
def is_property(fd): return any(isinstance(d,ast.Name) and d.id=='property' for d in fd.decorator_list)
def has_yield(fd): return any(isinstance(n,(ast.Yield,ast.YieldFrom)) for n in ast.walk(fd))

class Opt:            # optional int: (is_none, value)
    def __init__(s,none,val): s.none,s.val=none,val
NONE=Opt(z3.BoolVal(True),z3.IntVal(0))
class Obj:            # symbolic self: dict of fields
    def __init__(s,cls,fields): s.cls,s.f=cls,fields
def tobool(v):
    if isinstance(v,bool): return z3.BoolVal(v)
    if z3.is_bool(v): return v
    if z3.is_int(v) or z3.is_real(v): return v!=0
    if isinstance(v,(list,tuple,range)): return z3.BoolVal(len(v)>0)
    raise NotImplementedError(type(v))
def ite_index(lst,idx):
    e=lst[-1]
    for k in range(len(lst)-2,-1,-1): e=z3.If(idx==k,lst[k],e)
    return e
class Engine:
    def __init__(s,integral=True): s.obl=[]; s.integral=integral; s.fresh=0
    def call(s,fd,args,pc):                       # yields ('ret',v,pc) | ('raise',kind,pc)
        env=dict(args)
        gen=has_yield(fd)
        if gen: env['__y']=[]
        for out in s.block(fd.body,env,pc):
            kind,v,e,p=out
            if kind=='raise': yield ('raise',v,p)
            elif gen: yield ('ret',list(e['__y']),p)
            else: yield ('ret',v if kind=='return' else None,p)
    def block(s,stmts,env,pc):                    # yields (kind,val,env,pc), kind in normal/return/raise
        if not stmts: yield ('normal',None,env,pc); return
        first,rest=stmts[0],stmts[1:]
        for kind,v,e,p in s.stmt(first,env,pc):
            if kind=='normal': yield from s.block(rest,e,p)
            else: yield (kind,v,e,p)
    def stmt(s,st,env,pc):
        if isinstance(st,ast.Expr):
            if isinstance(st.value,ast.Constant): yield ('normal',None,env,pc); return
            if isinstance(st.value,ast.Yield):
                for k,v,p in s.expr(st.value.value,env,pc):
                    if k=='raise': yield ('raise',v,env,p)
                    else:
                        e=dict(env); e['__y']=env['__y']+[v]; yield ('normal',None,e,p)
                return
            for k,v,p in s.expr(st.value,env,pc):
                yield (('raise',v,env,p) if k=='raise' else ('normal',None,env,p))
        elif isinstance(st,ast.Return):
            if st.value is None: yield ('return',None,env,pc); return
            for k,v,p in s.expr(st.value,env,pc): yield (('raise',v,env,p) if k=='raise' else ('return',v,env,p))
        elif isinstance(st,ast.Raise):
            exc=st.exc; name=exc.func.id if isinstance(exc,ast.Call) else exc.id
            yield ('raise',name,env,pc)
        elif isinstance(st,ast.Assign):
            (t,)=st.targets
            for k,v,p in s.expr(st.value,env,pc):
                if k=='raise': yield ('raise',v,env,p); continue
                e=dict(env)
                if isinstance(t,ast.Name): e[t.id]=v
                elif isinstance(t,ast.Tuple):
                    for tt,vv in zip(t.elts,v): e[tt.id]=vv
                else: raise NotImplementedError(ast.dump(t))
                yield ('normal',None,e,p)
        elif isinstance(st,ast.AnnAssign):
            yield ('normal',None,env,pc)
        elif isinstance(st,ast.If):
            for k,c,p in s.expr(st.test,env,pc):
                if k=='raise': yield ('raise',c,env,p); continue
                c=tobool(c)
                for cond,body in ((c,st.body),(z3.Not(c),st.orelse)):
                    p2=z3.simplify(z3.And(p,cond))
                    if s.sat(p2): yield from s.block(body,env,p2)
        elif isinstance(st,ast.For):
            for k,it,p in s.expr(st.iter,env,pc):
                if k=='raise': yield ('raise',it,env,p); continue
                yield from s.loop(st,list(it),env,p)
        elif isinstance(st,ast.Try):
            kinds=[]
            for h in st.handlers:
                kinds+= [h.type.id] if isinstance(h.type,ast.Name) else [x.id for x in h.type.elts]
            for kind,v,e,p in s.block(st.body,env,pc):
                if kind=='raise' and v in kinds:
                    h=next(h for h in st.handlers if v in ([h.type.id] if isinstance(h.type,ast.Name) else [x.id for x in h.type.elts]))
                    yield from s.block(h.body,e,p)
                elif kind=='normal' and st.orelse: yield from s.block(st.orelse,e,p)
                else: yield (kind,v,e,p)
        elif isinstance(st,ast.Assert):
            for k,c,p in s.expr(st.test,env,pc):
                s.obl.append(('assert@%d'%st.lineno,z3.Implies(p,tobool(c)))); yield ('normal',None,env,p)
        elif isinstance(st,ast.Pass): yield ('normal',None,env,pc)
        else: raise NotImplementedError(ast.dump(st)[:80])
    def loop(s,st,items,env,pc):
        if not items: yield ('normal',None,env,pc); return
        e=dict(env); e[st.target.id]=items[0]
        for kind,v,e2,p in s.block(st.body,e,pc):
            if kind=='normal': yield from s.loop(st,items[1:],e2,p)
            else: yield (kind,v,e2,p)
    def sat(s,f):
        sv=z3.Solver(); sv.add(f); return sv.check()!=z3.unsat
    def exprs(s,nodes,env,pc):                    # evaluate a list of expressions left to right
        if not nodes: yield ('val',[],pc); return
        for k,v,p in s.expr(nodes[0],env,pc):
            if k=='raise': yield (k,v,p); continue
            for k2,vs,p2 in s.exprs(nodes[1:],env,p):
                yield (k2,vs,p2) if k2=='raise' else ('val',[v]+vs,p2)
    def expr(s,n,env,pc):                         # yields ('val',v,pc) | ('raise',kind,pc)
        if isinstance(n,ast.Constant):
            v=n.value
            yield ('val',NONE if v is None else (z3.BoolVal(v) if isinstance(v,bool) else (z3.IntVal(v) if isinstance(v,int) else v)),pc)
        elif isinstance(n,ast.Name):
            if n.id in env: yield ('val',env[n.id],pc)
            else: yield ('val',('global',n.id),pc)
        elif isinstance(n,ast.Attribute):
            for k,o,p in s.expr(n.value,env,pc):
                if k=='raise': yield (k,o,p); continue
                if isinstance(o,Obj):
                    if n.attr in o.f: yield ('val',o.f[n.attr],p); continue
                    fd=find_func('state',n.attr,o.cls)
                    if is_property(fd):
                        for kk,v,pp in s.call(fd,{'self':o},p): yield (('raise',v,pp) if kk=='raise' else ('val',v,pp))
                    else: yield ('val',('method',o,fd),p)
                elif isinstance(o,tuple) and o[0]=='global': yield ('val',('global',o[1]+'.'+n.attr),p)
                else: raise NotImplementedError(n.attr)
        elif isinstance(n,ast.Subscript):
            for k,(o,i),p in s.exprs([n.value,n.slice],env,pc):
                if k=='raise': yield (k,(o,i),p); continue
                if isinstance(i,Opt):
                    s.obl.append(('index-not-None@%d'%n.lineno,z3.Implies(p,z3.Not(i.none)))); i=i.val
                if isinstance(i,int) or z3.is_int_value(i): yield ('val',o[i if isinstance(i,int) else i.as_long()],p)
                else:
                    s.obl.append(('index@%d'%n.lineno,z3.Implies(p,z3.And(i>=-len(o),i<len(o)))))
                    i2=z3.If(i<0,i+len(o),i); yield ('val',ite_index(list(o),i2),p)
        elif isinstance(n,ast.UnaryOp):
            for k,v,p in s.expr(n.operand,env,pc):
                if k=='raise': yield (k,v,p); continue
                yield ('val',z3.Not(tobool(v)) if isinstance(n.op,ast.Not) else -v,p)
        elif isinstance(n,ast.BoolOp):
            def go(vals,env,pc):
                k0=list(s.expr(vals[0],env,pc))
                for k,v,p in k0:
                    if k=='raise' or len(vals)==1: yield (k,v if k=='raise' else tobool(v),p); continue
                    b=tobool(v)
                    short=z3.Not(b) if isinstance(n.op,ast.And) else b
                    p1=z3.simplify(z3.And(p,short))
                    if s.sat(p1): yield ('val',z3.BoolVal(isinstance(n.op,ast.Or)),p1)
                    p2=z3.simplify(z3.And(p,z3.Not(short)))
                    if s.sat(p2): yield from go(vals[1:],env,p2)
            yield from go(n.values,env,pc)
        elif isinstance(n,ast.Compare):
            assert len(n.ops)<=2
            for k,vs,p in s.exprs([n.left]+n.comparators,env,pc):
                if k=='raise': yield (k,vs,p); continue
                res=[]
                for op,a,b in zip(n.ops,vs,vs[1:]):
                    if isinstance(op,(ast.Is,ast.IsNot)):
                        assert b is NONE
                        r=a.none if isinstance(a,Opt) else z3.BoolVal(False)
                        res.append(r if isinstance(op,ast.Is) else z3.Not(r))
                    else:
                        a=a.val if isinstance(a,Opt) else a; b=b.val if isinstance(b,Opt) else b
                        res.append({ast.Lt:lambda:a<b,ast.LtE:lambda:a<=b,ast.Gt:lambda:a>b,ast.GtE:lambda:a>=b,ast.Eq:lambda:a==b,ast.NotEq:lambda:a!=b}[type(op)]())
                yield ('val',z3.And(res) if len(res)>1 else res[0],p)
        elif isinstance(n,ast.BinOp):
            for k,(a,b),p in s.exprs([n.left,n.right],env,pc):
                if k=='raise': yield (k,(a,b),p); continue
                a=a.val if isinstance(a,Opt) else a; b=b.val if isinstance(b,Opt) else b
                yield ('val',{ast.Add:lambda:a+b,ast.Sub:lambda:a-b,ast.Mult:lambda:a*b,ast.Div:lambda:a/b}[type(n.op)](),p)
        elif isinstance(n,ast.Tuple):
            for k,vs,p in s.exprs(n.elts,env,pc): yield (k,tuple(vs) if k=='val' else vs,p)
        elif isinstance(n,ast.Call):
            for k,f,p in s.expr(n.func,env,pc):
                argnodes=n.args[1:] if f==('global','cast') else n.args      # cast(T, x): the type expression is dropped
                for k2,args,p2 in s.exprs(argnodes,env,p):
                    if k2=='raise': yield (k2,args,p2); continue
                    yield from s.apply(f,args,n,env,p2)
        else: raise NotImplementedError(ast.dump(n)[:80])
    def apply(s,f,args,n,env,pc):
        if isinstance(f,tuple) and f[0]=='method':
            _,o,fd=f; names=[a.arg for a in fd.args.args][1:]
            defaults=[None]*(len(names)-len(fd.args.defaults))+list(fd.args.defaults)
            a={'self':o}
            for i,nm in enumerate(names):
                if i<len(args): a[nm]=args[i]
                else:
                    (_,dv,_),=list(s.expr(defaults[i],env,pc)); a[nm]=dv
            for kk,v,pp in s.call(fd,a,pc): yield (('raise',v,pp) if kk=='raise' else ('val',v,pp))
            return
        name=f[1]
        if name=='any': yield ('val',z3.Or([tobool(x) for x in args[0]]) if len(args[0]) else z3.BoolVal(False),pc)
        elif name=='range': yield ('val',range(*[a if isinstance(a,int) else a.as_long() for a in args]),pc)
        elif name=='next':
            if len(args[0])==0: s.obl.append(('next-nonempty@%d'%n.lineno,z3.Not(pc))); return
            yield ('val',args[0][0],pc)
        elif name=='isinstance':
            assert args[1]==('global','Integral'); yield ('val',z3.BoolVal(s.integral),pc)
        elif name=='builtins.divmod':
            a,d=args; q=z3.Int(f'q{s.fresh}'); r=z3.Int(f'r{s.fresh}'); s.fresh+=1
            s.obl.append(('div-nonzero@%d'%n.lineno,z3.Implies(pc,d!=0)))
            # Python floor division, positive divisor
            yield ('val',(q,r),z3.And(pc,a==q*d+r,r>=0,r<d))
        elif name=='cast': yield ('val',args[0],pc)
        else: raise NotImplementedError(name)

import random
from itertools import combinations
from collections import Counter
from pokerkit import *
from rank_spec import *
def hv(cards,order,**kw):
    ranks=tuple(c.rank.value for c in cards); suited=len({c.suit for c in cards})==1
    return high_value(ranks,suited,order,**kw)
def val(cls,cards):
    """spec strength, bigger = better for that class; None if not a hand"""
    try:
        if cls in (StandardHighHand,GreekHoldemHand,OmahaHoldemHand): return hv(cards,STD)
        if cls is StandardLowHand: return tuple(-x for x in hv(cards,STD))
        if cls is ShortDeckHoldemHand:
            if any(c.rank.value not in SHORT for c in cards): return None
            return hv(cards,SHORT,flush_beats_full_house=True)
        if cls is RegularLowHand: return tuple(-x for x in hv(cards,REG,straights=False,flushes=False))
        if cls in (EightOrBetterLowHand,OmahaEightOrBetterLowHand):
            if any(c.rank.value not in EIGHT for c in cards) or len({c.rank for c in cards})!=5: return None
            return tuple(-x for x in hv(cards,EIGHT,straights=False,flushes=False))
    except ValueError: return None
def cand(cls,hole,board):
    if cls in (OmahaHoldemHand,OmahaEightOrBetterLowHand): return [h+b for h in combinations(hole,2) for b in combinations(board,3)]
    if cls is GreekHoldemHand: return [tuple(hole)+b for b in combinations(board,3)] if len(hole)==2 else [c for b in combinations(board,3) for c in combinations(tuple(hole)+b,5)]
    return list(combinations(tuple(hole)+tuple(board),5))
def badugi_spec(cards,order):
    best=None
    for k in (4,3,2,1):
        for sub in combinations(cards,k):
            if len({c.rank for c in sub})==k and len({c.suit for c in sub})==k:
                v=(k,)+tuple(-x for x in sorted((order.index(c.rank.value) for c in sub),reverse=True))
                if best is None or v>best: best=v
        if best is not None: return best
    return None
rng=random.Random(1); bad=0; tot=0; nones=0
deck=list(Deck.STANDARD)
for cls in (StandardHighHand,StandardLowHand,ShortDeckHoldemHand,RegularLowHand,EightOrBetterLowHand,GreekHoldemHand,OmahaHoldemHand,OmahaEightOrBetterLowHand):
    d=[c for c in deck if cls is not ShortDeckHoldemHand or c.rank.value in SHORT]
    for _ in range(1500):
        nh=2 if cls is GreekHoldemHand else (rng.choice([2,3,4,5]) if 'Omaha' in cls.__name__ else rng.randint(0,7))
        nb=rng.randint(0,5); cs=rng.sample(d,nh+nb); hole,board=cs[:nh],cs[nh:]
        h=cls.from_game_or_none(hole,board)
        vs=[v for v in (val(cls,c) for c in cand(cls,hole,board)) if v is not None]
        exp=max(vs) if vs else None
        got=val(cls,h.cards) if h is not None else None
        tot+=1; nones+= exp is None
        if got!=exp: bad+=1; print('MISMATCH',cls.__name__,hole,board,h,got,exp) if bad<5 else None
for cls,order in ((BadugiHand,REG),(StandardBadugiHand,STD)):
    for _ in range(3000):
        cs=rng.sample(deck,rng.randint(0,6)); h=cls.from_game_or_none(cs)
        exp=badugi_spec(cs,order)
        got=None if h is None else (len(h.cards),)+tuple(-x for x in sorted((order.index(c.rank.value) for c in h.cards),reverse=True))
        tot+=1; nones+= exp is None
        if got!=exp: bad+=1; print('MISMATCH',cls.__name__,cs,h,got,exp) if bad<8 else None
print('cases',tot,'of which no-hand',nones,'mismatches',bad)

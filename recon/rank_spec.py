"""Independent hand-ranking spec written from the rules (recon for DESIGN C04). Strength tuples: bigger = better *high* hand.
A hand is given as (ranks: tuple of rank chars, suited: bool)."""
from collections import Counter
from itertools import combinations, combinations_with_replacement
STD='23456789TJQKA'; SHORT='6789TJQKA'; REG='A23456789TJQK'; EIGHT='A2345678'; KUHN='JQK'; ROYAL='TJQKA'

def shape(ranks, order):
    c=Counter(ranks)
    groups=sorted(((cnt,order.index(r)) for r,cnt in c.items()),reverse=True)   # by multiplicity then rank
    return tuple(g[0] for g in groups), tuple(g[1] for g in groups)

def straight_high(ranks, order, wheel_low):
    """returns index of the high card of a 5-straight in `order`, or None. wheel_low: the rank that may play low (ace)"""
    idx=sorted(order.index(r) for r in ranks)
    if len(set(idx))!=5: return None
    if idx[-1]-idx[0]==4: return idx[-1]
    # ace-low straight: ace + the 4 lowest ranks of the order
    if wheel_low is not None:
        ai=order.index(wheel_low)
        low4=[i for i in range(len(order)) if i!=ai][:4]
        if sorted(idx)==sorted(low4+[ai]): return low4[-1]   # high card is the 4th lowest (5 in standard, 9 in short deck)
    return None

def high_value(ranks, suited, order, flush_beats_full_house=False, straights=True, flushes=True):
    mult,rk=shape(ranks,order)
    sh=straight_high(ranks,order,'A') if straights and len(ranks)==5 else None
    fl=suited and flushes
    if sh is not None and fl: return (8,sh)
    if mult==(4,1): return (7,)+rk
    FH,FLU=(6,5) if not flush_beats_full_house else (5,6)
    if mult==(3,2): return (FH,)+rk
    if fl and mult==(1,1,1,1,1): return (FLU,)+rk
    if sh is not None: return (4,sh)
    if mult==(3,1,1): return (3,)+rk
    if mult==(2,2,1): return (2,)+rk
    if mult==(2,1,1,1): return (1,)+rk
    if mult==(1,1,1,1,1): return (0,)+rk
    raise ValueError
LABEL={8:'Straight flush',7:'Four of a kind',3:'Three of a kind',2:'Two pair',1:'One pair',0:'High card',4:'Straight'}

def all_keys5(order, suited_possible=True):
    for ranks in combinations_with_replacement(order,5):
        c=Counter(ranks)
        if max(c.values())>4: continue
        yield ranks,False
        if suited_possible and max(c.values())==1: yield ranks,True

"""More candidate specs, evaluated natively (recon)."""
from pokerkit import *
from pokerkit.state import *
import inv

def measure(s):
    if not s.status: return (0,)
    ph=inv.pending_phases(s); assert len(ph)==1, ph; ph=ph[0]
    n=s.player_count
    sel = 0 if (s.runout_count_selection_flag) else 1
    if s._pots is not None: stage=1
    elif s.street_index is None: stage=3
    else: stage=2
    if stage==2:
        left=(s.street_count-1-s.street_index)
        if s.street_return_index is not None: left+= s.street_return_count*(s.street_count-s.street_return_index)
    elif stage==3: left=s.street_count
    else: left=0
    rank={'ANTE':9,'COLLECT':8 if stage==3 else 3,'BLIND':7,'DEAL':5,'BET':4,'SHOWDOWN':2,'KILL':1,'PUSH':2,'PULL':1}[ph]
    draw=sum(s.standing_pat_or_discarding_statuses)
    pot=sum(s.stacks) if ph=='BET' else 0
    cnt={'ANTE':sum(s.ante_posting_statuses),'COLLECT':1,'BLIND':sum(s.blind_or_straddle_posting_statuses),
         'DEAL':int(s.card_burning_status)+sum(map(len,s.hole_dealing_statuses))+sum(s.board_dealing_counts),
         'BET':len(s.actor_indices)+ (1 if s.bring_in_status else 0),'SHOWDOWN':sum(s.runout_count_selector_statuses)+len(s.showdown_indices),
         'KILL':sum(s.hand_killing_statuses),'PUSH':len(s._sub_pots),'PULL':sum(s.chips_pulling_statuses)}[ph]
    return (stage,sel,left,rank,draw,pot,cnt)

def spec_opener_position(s):
    """first street: player after the last positive blind/straddle actually posted (heads-up: reversed seats)"""
    n=s.player_count
    return None

def ledger_ok(s):
    """dealing ledger at the start of a betting round: every live player holds exactly the facings prescribed so far"""
    if s.street_index is None: return True
    due=[]
    for st in s.streets[:s.street_index+1]: due+=list(st.hole_dealing_statuses)
    for i in range(s.player_count):
        if s.statuses[i]:
            have=list(s.hole_card_statuses[i])+list(s.hole_dealing_statuses[i])
            shown=any(isinstance(o,HoleCardsShowingOrMucking) and o.player_index==i for o in s.operations)
            if len(have)!=len(due): return ('ledger-len',i,have,due)
            if not shown and sorted(have)!=sorted(due): return ('ledger-facing',i,have,due)
            if not shown and not any(s.draw_statuses) and have!=due: return ('ledger-seq',i,have,due)
    return True

"""C14 -- multiple run-outs and multiple boards are offered and dealt as documented.

Clause texts come from the statement through spec/runouts.py.  `runout_count` plays the role of "what
the players who have spoken so far agree on" (None: nobody has expressed a preference) by induction over
the selections: `_begin_showdown` offers the choice with the field as it is (None in a fresh hand),
every `select_runout_count` combines it with one more preference.
"""
from pyvc.contract import contract, P, A, OptIndex, OptInt, Int, ArgSpec
from pyvc.ghost import implies, iff
import spec.runouts as R
import contracts.engine as E
from pokerkit.state import Mode

Q = 'pokerkit.state.State.'
REFUSAL = (ValueError, UserWarning)


def basic(s):
    return E.config_ok(s) and E.runouts_ok(s)


def later_board_counts(s):
    return tuple(s.streets[k].board_dealing_count for k in range(len(s.streets)) if k > s.street_index)


@contract(Q + '_begin_showdown', 'C14')
class begin_showdown:
    raises = {}

    def requires(s):
        return basic(s) and s.street_index is not None and not any(s.runout_count_selector_statuses) and len(s.showdown_indices) == 0

    @P('C14', 'a choice of the number of run-outs is offered only in cash-game mode, only once, only when community cards are still '
              'to come, and then to each player still in the hand')
    def at_update_offered_to_the_live_players(old, s):
        off = R.offered(old.mode != Mode.TOURNAMENT, old.runout_count_selection_flag, later_board_counts(old))
        return all(s.runout_count_selector_statuses[i] == (off and old.statuses[i]) for i in range(s.player_count))

    @P('C14', 'offering the choice decides nothing yet')
    def at_update_nothing_decided(old, s):
        return (s.runout_count == old.runout_count and s.street_return_index == old.street_return_index
                and s.street_return_count == old.street_return_count and s.runout_count_selection_flag == old.runout_count_selection_flag)

    at_call = {Q + '_update_showdown': ['at_update_offered_to_the_live_players', 'at_update_nothing_decided']}


@contract(Q + 'verify_runout_count_selection', 'C14')
class verify_selection:
    args = {'runout_count': OptInt(), 'player_index': OptIndex()}
    argnames = ('runout_count', 'player_index')
    raises = {ValueError: 'refused'}

    def requires(s):
        return basic(s)

    def refused(s, runout_count, player_index):
        return (not any(s.runout_count_selector_statuses)
                or (player_index is not None and not s.runout_count_selector_statuses[player_index])
                or (runout_count is not None and runout_count < 1))

    @P('C14', 'each offered player may choose, in any order: a named player is taken as named, otherwise the first who has not chosen')
    def chooser_is_the_named_or_first_pending(s, player_index, r):
        first = min(i for i in range(s.player_count) if s.runout_count_selector_statuses[i])
        return r == (player_index if player_index is not None else first)


@contract(Q + 'select_runout_count', 'C14')
class select_runout_count:
    args = {'runout_count': OptInt(), 'player_index': OptIndex()}
    argnames = ('runout_count', 'player_index')
    raises = {REFUSAL: None}

    def requires(s):
        return basic(s)

    @P('C14', 'each offered player chooses once: his flag, and only his, is cleared; showing hands is not affected')
    def at_update_chooser_has_chosen(old, s, op):
        return (old.runout_count_selector_statuses[op.player_index] and not s.runout_count_selector_statuses[op.player_index]
                and all(s.runout_count_selector_statuses[i] == old.runout_count_selector_statuses[i]
                        for i in range(s.player_count) if i != op.player_index)
                and tuple(s.showdown_indices) == tuple(old.showdown_indices) and op.runout_count == old_arg(op))

    @P('C14', 'the hand is run k times only if all who expressed a preference said k, otherwise once')
    def at_update_agreement_combined(old, s, runout_count):
        return s.runout_count == R.combine(old.runout_count, runout_count)

    at_call = {Q + '_update_showdown': ['at_update_chooser_has_chosen', 'at_update_agreement_combined']}


def old_arg(op):
    return op.runout_count


@contract(Q + '_end_showdown', 'C14')
class end_showdown:
    raises = {}

    def requires(s):
        return basic(s) and s.street_index is not None and not any(s.runout_count_selector_statuses) and len(s.showdown_indices) == 0

    @P('C14', 'when the choice has just been made and a number was agreed, the streets after the all-in are scheduled to be dealt that '
              'many times (once now, k-1 further times); a choice is acted upon once')
    def at_next_runouts_scheduled(old, s):
        first = not old.runout_count_selection_flag
        sched = first and old.runout_count is not None
        return (s.runout_count_selection_flag and s.runout_count == old.runout_count
                and s.street_return_index == (old.street_index + 1 if sched else old.street_return_index)
                and s.street_return_count == (old.runout_count - 1 if sched else old.street_return_count))

    at_call = {Q + '_begin_dealing': ['at_next_runouts_scheduled'], Q + '_begin_hand_killing': ['at_next_runouts_scheduled'],
               Q + '_begin_chips_pushing': ['at_next_runouts_scheduled']}


@contract(Q + '_end_bet_collection', 'C14')
class end_bet_collection:
    raises = {}

    def requires(s):
        return (basic(s) and not s.bet_collection_status and (s.street_index is None or 0 <= s.street_index < len(s.streets))
                and (s.street_return_index is None or (0 < s.street_return_index <= len(s.streets) and s.street_return_count >= 0)))

    def again(old):
        return (old.street_index is not None and old.street_index == len(old.streets) - 1 and old.street_return_count > 0)

    @P('C14', 'after the last street, while further run-outs are due, dealing resumes at the street after the all-in, one run-out fewer to go')
    def at_next_run_out_again(old, s):
        again = end_bet_collection.again(old)
        return (s.street_index == (old.street_return_index - 1 if again else old.street_index)
                and s.street_return_count == (old.street_return_count - 1 if again else old.street_return_count)
                and s.street_return_index == old.street_return_index and s.runout_count == old.runout_count)

    nexts = ['_begin_chips_pushing', '_begin_blind_or_straddle_posting', '_begin_showdown', '_begin_dealing']
    at_call = {Q + k: ['at_next_run_out_again'] for k in nexts}


@contract(Q + 'board_count', 'C14')
class board_count:
    raises = {}

    def requires(s):
        return basic(s)

    @P('C14', 'with b starting boards and r run-outs there are b*r boards')
    def is_b_times_r(s, r):
        return r == R.board_count(s.starting_board_count, s.runout_count if s.street_return_index is not None else 1,
                                  s.street_return_index is not None)


@contract(Q + 'get_board_cards', 'C14')
class get_board_cards:
    args = {'board_index': Int()}
    argnames = ('board_index',)
    raises = {ValueError: 'refused'}

    def requires(s):
        return basic(s) and (s.street_return_index is None or 0 < s.street_return_index <= len(s.streets))

    def nboards(s):
        return s.starting_board_count * (s.runout_count if s.street_return_index is not None else 1)

    def refused(s, board_index):
        return not (0 <= board_index < get_board_cards.nboards(s))

    @P('C14', 'the run-outs of a starting board share the cards dealt to it before the all-in, each has its own later cards')
    def is_the_spec_board(s, board_index, r):
        sched = s.street_return_index is not None
        mid = sum(s.streets[k].board_dealing_count for k in range(len(s.streets)) if sched and k < s.street_return_index)
        rows = tuple(tuple(row) for row in s.board_cards)
        return tuple(r) == R.board(rows, board_index, s.runout_count if sched else 1, mid, sched)


@contract(Q + 'deal_board', 'C14')
class deal_board:
    args = {'cards': ArgSpec(kind='opt_cards_or_int', cap=2)}
    argnames = ('cards',)
    raises = {REFUSAL: None}

    def requires(s):
        # (shape bound: a board is owed at most three cards at a time)
        return (basic(s) and s.street_index is not None and 0 <= s.street_index < len(s.streets)
                and all(0 <= c <= 3 for c in s.board_dealing_counts))

    def target_board(old):
        pending = [c for c in old.board_dealing_counts if c != 0]
        return min(k for k in range(len(old.board_dealing_counts)) if old.board_dealing_counts[k] == pending[0])

    def base_row(old):
        pending = [c for c in old.board_dealing_counts if c != 0]
        done = old.streets[old.street_index].board_dealing_count - pending[0]
        return sum(old.streets[k].board_dealing_count for k in range(len(old.streets)) if k < old.street_index) + (done if done > 0 else 0)

    @P('C14', 'board cards are dealt to one board at a time, the first that is still owed cards: its count goes down by the number dealt')
    def at_update_first_owed_board_is_served(old, s, op):
        b = deal_board.target_board(old)
        m = len(op.cards)
        return all(s.board_dealing_counts[k] == old.board_dealing_counts[k] - (m if k == b else 0) for k in range(len(old.board_dealing_counts)))

    @P('C14', 'each card is appended to the row of its position on the board: the positions of the earlier streets come first, then '
              'those already dealt on this street; no other row changes')
    def at_update_cards_land_on_their_rows(old, s, op):
        base = deal_board.base_row(old)
        m = len(op.cards)
        # (stated per possible value of the first position, so that every index is a constant for the solver)
        return any(base == b0 and all(
            tuple(s.board_cards[p]) == (tuple(old.board_cards[p]) if p < len(old.board_cards) else ())
            + ((op.cards[p - b0],) if b0 <= p < b0 + m else ()) for p in range(len(s.board_cards))) for b0 in range(8))

    @P('C14', 'rows exist exactly up to the last position dealt so far')
    def at_update_row_count(old, s, op):
        base = deal_board.base_row(old)
        m = len(op.cards)
        return len(s.board_cards) == (len(old.board_cards) if len(old.board_cards) > base + m else base + m)

    at_call = {Q + '_update_dealing': ['at_update_first_owed_board_is_served', 'at_update_cards_land_on_their_rows', 'at_update_row_count']}

"""C01 -- chips are conserved: none created, none destroyed, payoffs are zero-sum (up to rake).

The components CHIPS of contracts/engine.py are the property statement written over the public fields:
no stack or bet negative; payoff = stack - starting stack at every point; what a player has in the
pot is not negative; once the pots are frozen stacks + bets + pots + rake = starting stacks and the
sub-pots still to be pushed are exactly what is left in the pots; when the hand is over nothing is
left on the table and the payoffs sum to minus the rake.

Every function of the cascade gets the contract of contracts/engine.py:TABLE (requires / ensures the
listed components) and is verified against the CONTRACTS of the cascade functions it calls (their
bodies are never entered).  `State.pots` and `State.total_pot_amount` get their own contracts.
"""
from pyvc.contract import contract, P, A, OptIndex, OptChips, OptInt, Cards, OptCardsOrInt, ArgSpec
from pyvc.ghost import implies
import contracts.engine as E
from contracts.engine import collected

Q = 'pokerkit.state.State.'
REFUSAL = (ValueError, UserWarning)


class StatusOrCards(ArgSpec):
    kind = 'status_or_cards'
    cap = 2


class OptCards(ArgSpec):
    kind = 'opt_cards'
    cap = 1


class Comps:
    """all components, addressable as clauses by name"""


for _name, _f in list(vars(E).items()):
    if callable(_f) and getattr(_f, '__module__', None) == E.__name__ and _name not in ('step',):
        setattr(Comps, _name, staticmethod(_f))


class CascadeBase(Comps):
    # refusals of public operations are not the subject here (C08); any other exception leaving a function
    # (assertion, index, division by zero) is an obligation of C07 (`a legal operation never fails part-way`)
    raises = {REFUSAL: None}

    def requires(s, K):
        return all(f(s) for f in K.pre_funcs)


PI = ('player_index', OptIndex())
ARGS = {
    'post_ante': [PI], 'post_blind_or_straddle': [PI], 'burn_card': [('card', OptCards())],
    'deal_hole': [('cards', OptCardsOrInt()), PI], 'deal_board': [('cards', OptCardsOrInt())],
    'stand_pat_or_discard': [('cards', Cards())], 'complete_bet_or_raise_to': [('amount', OptChips())],
    'select_runout_count': [('runout_count', OptInt()), PI],
    'show_or_muck_hole_cards': [('status_or_hole_cards', StatusOrCards()), PI], 'kill_hand': [PI], 'pull_chips': [PI],
}

CONTRACTS = {}
for _fn, (_pre, _post) in E.TABLE.items():
    CONTRACTS[_fn] = contract(Q + _fn, 'C01')(type('K_' + _fn, (CascadeBase,), {
        'args': dict(ARGS.get(_fn, [])), 'argnames': tuple(n for n, _ in ARGS.get(_fn, [])),
        'pre': _pre, 'post': _post, 'pre_funcs': tuple(getattr(E, c) for c in _pre)}))
for _k in CONTRACTS.values():
    globals()[_k.__name__] = _k


# ---- State.pots / total_pot_amount ----------------------------------------------------------------------------
@contract(Q + 'pots', 'C01')
class pots(Comps):
    raises = {}
    pre = E.BOUNDARY

    def requires(s):
        return (E.config_ok(s) and E.nonneg(s) and E.payoff_is_stack_change(s) and E.open_pot_ok(s) and E.frozen_pots_ok(s)
                and E.antes_in_pot(s))

    @P('C01', 'the pots hold exactly the chips that left the stacks and are not in front of a player; none is empty or negative')
    def pots_hold_the_collected_chips(s, r):
        ps = tuple(r)
        return (implies(s._pots is None, sum(p.raked_amount + p.unraked_amount for p in ps) == sum(collected(s, i) for i in range(s.player_count)))
                and all(p.raked_amount >= 0 and p.unraked_amount >= 0 and E.increasing(p.player_indices) for p in ps)
                and implies(s._pots is None, all(p.raked_amount + p.unraked_amount > 0 for p in ps)))


@contract(Q + 'total_pot_amount', 'C01')
class total_pot_amount(Comps):
    raises = {}

    def requires(s):
        return (E.config_ok(s) and E.nonneg(s) and E.payoff_is_stack_change(s) and E.open_pot_ok(s) and E.frozen_pots_ok(s)
                and E.antes_in_pot(s))

    @P('C01', 'stacks + (bets + pots, rake included) = the chips the players sat down with')
    def stacks_plus_pot_is_the_starting_total(s, r):
        return sum(s.stacks) + r == sum(s.starting_stacks)


# ---- State.__post_init__ establishes the invariant ------------------------------------------------------------
@contract(Q + '__post_init__', 'C01')
class post_init(Comps):
    """a freshly constructed state satisfies every boundary component (rejections are C19's subject)"""
    raises = {ValueError: None}
    argnames = ('raw_antes', 'raw_blinds_or_straddles', 'raw_starting_stacks')
    pre = ()
    post = E.BOUNDARY
    pre_funcs = ()

    def requires(s):
        # every street is a valid `Street` (validated by Street.__post_init__ when it was built: C10)
        return all(st.min_completion_betting_or_raising_amount > 0 and st.board_dealing_count >= 0 for st in s.streets)

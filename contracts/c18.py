"""C18 -- equities are shares of one pot (deductive part; ranges and ICM are in props/c18.py).

`pokerkit.analysis.__calculate_equities_0` with every card given (nothing left to sample): the
result is independent of sampling (sample() is asked for zero cards), every share is >= 0, the
shares sum to one, and they equal the split the engine itself pays at showdown (spec/pots.py) --
including split-pot games where a hand type nobody qualifies for gets no part.
"""
from pyvc.contract import contract, P, A
from pyvc.ghost import close
from spec.pots import showdown_split


@contract('pokerkit.analysis.__calculate_equities_0', 'C18')
class equities0:
    raises = {}
    argnames = ('hole_cards', 'board_cards', 'hole_dealing_count', 'board_dealing_count', 'deck_cards', 'hand_types')

    def hands_of(hole_cards, board_cards, hand_types):
        return [[ht.from_game_or_none(h, board_cards) for h in hole_cards] for ht in hand_types]

    def requires(hole_cards, board_cards, hand_types):
        # some hand type is in play (otherwise there is nothing to award)
        return any(any(ht.from_game_or_none(h, board_cards) is not None for h in hole_cards) for ht in hand_types)

    @P('C18', 'every share is non-negative')
    def shares_nonnegative(r):
        return all(x >= 0 for x in r)

    @P('C18', 'the shares sum to one')
    def shares_sum_to_one(r):
        return close(sum(r), 1)

    @P('C18', 'the shares are the split the engine pays at showdown, split-pot games included')
    def shares_are_the_showdown_split(hole_cards, board_cards, hand_types, r):
        hands = [[ht.from_game_or_none(h, board_cards) for h in hole_cards] for ht in hand_types]
        want = showdown_split(hands, len(hole_cards))
        return all(close(r[i], want[i]) for i in range(len(hole_cards)))


def _native_case(model, ob):
    """the model speaks about abstract hand strengths; look for a real deal showing the same failure
    (bounded native search over hi/lo hand-type pairs and random deals)"""
    import random
    import pokerkit.analysis as an
    from pokerkit.hands import StandardHighHand, EightOrBetterLowHand, OmahaHoldemHand, OmahaEightOrBetterLowHand
    from pokerkit.utilities import Deck
    fn = getattr(an, '__calculate_equities_0')
    m = len(model['args']['hole_cards']['$tuple'])
    rng = random.Random(0)
    deck = list(Deck.STANDARD)
    import importlib
    clause = getattr(equities0, ob['meta']['clause'].rsplit('.', 1)[1])
    for types in ((StandardHighHand, EightOrBetterLowHand), (OmahaHoldemHand, OmahaEightOrBetterLowHand), (StandardHighHand,)):
        hole_n = 4 if types[0] is OmahaHoldemHand else 2
        for _ in range(300):
            cs = rng.sample(deck, hole_n * m + 5)
            hole = tuple(cs[i * hole_n:(i + 1) * hole_n] for i in range(m))
            board = cs[hole_n * m:]
            b = {'hole_cards': hole, 'board_cards': board, 'hand_types': types}
            if not equities0.requires(hole, board, types):
                continue
            r = fn(tuple(map(list, hole)), list(board), hole_n, 5, [], types)
            b['r'] = r
            import inspect
            params = list(inspect.signature(clause).parameters)
            if not clause(*[b[p] for p in params]):
                return {'call': (lambda r=r: r), 'bindings': b,
                        'desc': f'hand types {[t.__name__ for t in types]} hole {hole} board {board} -> {r}'}
    return None


equities0.native_case = staticmethod(_native_case)

"""C11 -- each predefined variant plays the game its name and documentation say.

Target: `<Variant>.create_state(...)` (a classmethod that instantiates the game and calls it).  The
real constructor chain -- create_state -> Variant.__init__ -> super().__init__ ... -> Poker.__init__
-> Poker.__call__ -> State(...) -- is executed with every amount symbolic; at the call of `State(...)`
the arguments must be exactly the game of spec/variants.py (deck, hand types, per-street burn / hole
facings / board cards / draw / opening / bet size / raise cap, betting structure, forced-bet kind).
"""
from pyvc.contract import contract, P, A
from spec.variants import VARIANTS, DECK_SIZES, street_matches


class VariantBase:
    raises = {}
    probe_only = ('deck_and_hand_types', 'streets_as_documented', 'structure_and_forced_bets', 'parameters_are_passed_through')

    @P('C11', 'deck and hand type(s) are those of the name / documentation')
    def deck_and_hand_types(K, deck, hand_types):
        name, types, spec_streets, structure, forced = VARIANTS[K.variant]
        return (deck.name == name and len(deck) == DECK_SIZES[name]
                and tuple(t.__name__ for t in hand_types) == types)

    @P('C11', 'per street: burn, hole cards and their facing, board cards, draw, opening rule, bet size, raise cap')
    def streets_as_documented(K, streets, small_bet, big_bet, min_bet):
        name, types, spec_streets, structure, forced = VARIANTS[K.variant]
        return (len(streets) == len(spec_streets)
                and all(street_matches(streets[i], spec_streets[i], small_bet, big_bet, min_bet) for i in range(len(spec_streets))))

    @P('C11', 'betting structure; button games take blinds/straddles and no bring-in, stud games a bring-in and no blinds')
    def structure_and_forced_bets(K, betting_structure, bring_in, raw_blinds_or_straddles, in_bring_in, in_blinds):
        name, types, spec_streets, structure, forced = VARIANTS[K.variant]
        return (betting_structure.value == structure
                and ((bring_in == in_bring_in and raw_blinds_or_straddles == 0) if forced == 'bring-in'
                     else (bring_in == 0 and raw_blinds_or_straddles is in_blinds)))

    @P('C11', 'all other parameter choices reach the state unchanged')
    def parameters_are_passed_through(automations, ante_trimming_status, raw_antes, raw_starting_stacks, player_count,
                                      mode, starting_board_count, in_automations, in_trimming, in_antes, in_stacks,
                                      in_player_count, in_mode, in_board_count):
        return (automations is in_automations and ante_trimming_status == in_trimming and raw_antes is in_antes
                and raw_starting_stacks is in_stacks and player_count == in_player_count and mode == in_mode
                and starting_board_count == in_board_count)


CONTRACTS = {}
for _name in VARIANTS:
    # NoLimitRoyalHoldem inherits create_state from NoLimitTexasHoldem
    _owner = 'NoLimitTexasHoldem' if _name == 'NoLimitRoyalHoldem' else _name
    CONTRACTS[_name] = contract(f'pokerkit.games.{_owner}.create_state', 'C11')(
        type('V_' + _name, (VariantBase,), {'variant': _name}))
    globals()['V_' + _name] = CONTRACTS[_name]


def _native_case(variant):
    def native_case(model, ob):
        """run the real create_state with concrete parameters taken from the model; `State` is replaced
        by a recorder so that the arguments it would be constructed with can be inspected"""
        import inspect
        import pokerkit.games as G
        from pokerkit.state import Mode
        cls = getattr(G, variant)
        a = model.get('args', {})

        def num(k, default):
            v = a.get(k)
            return v if isinstance(v, int) and not isinstance(v, bool) else default
        ins = {'in_automations': (), 'in_antes': 1, 'in_blinds': (1, 2), 'in_stacks': 200,
               'in_trimming': bool(a.get('ante_trimming_status', False)), 'in_player_count': max(2, num('player_count', 3)),
               'in_bring_in': num('bring_in', 1), 'in_board_count': num('starting_board_count', 1), 'in_mode': Mode.TOURNAMENT}
        amounts = {'small_bet': num('small_bet', 2), 'big_bet': num('big_bet', 4), 'min_bet': num('min_bet', 2)}
        params = inspect.signature(cls.create_state).parameters
        values = {'automations': ins['in_automations'], 'ante_trimming_status': ins['in_trimming'], 'raw_antes': ins['in_antes'],
                  'raw_blinds_or_straddles': ins['in_blinds'], 'raw_starting_stacks': ins['in_stacks'],
                  'player_count': ins['in_player_count'], 'bring_in': ins['in_bring_in'], 'mode': ins['in_mode'],
                  'starting_board_count': ins['in_board_count']}
        values.update(amounts)
        kwargs = {p: values[p] for p in params if p in values}
        captured = {}

        def recorder(*args, **kw):
            names = ['automations', 'deck', 'hand_types', 'streets', 'betting_structure', 'ante_trimming_status', 'raw_antes',
                     'raw_blinds_or_straddles', 'bring_in', 'raw_starting_stacks', 'player_count']
            captured.update(dict(zip(names, args)))
            captured.update(kw)
            return 'state'
        orig = G.State
        G.State = recorder
        try:
            cls.create_state(**kwargs)
        finally:
            G.State = orig
        b = dict(captured)
        b.update(ins)
        b.update(amounts)
        b['K'] = CONTRACTS[variant]
        return {'call': (lambda: 'state'), 'bindings': b, 'desc': f'{variant}.create_state({kwargs})'}
    return staticmethod(native_case)


for _name, _k in CONTRACTS.items():
    _k.native_case = _native_case(_name)

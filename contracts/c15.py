"""C15 -- the operation log is a faithful record; states are deterministic and copyable.

Record exactness, per operation, checked where the operation hands its record to the phase step
(`_update_X(operation)`): the record carries the player, amount and cards of what the operation did to
the state -- no more, no less -- so that applying the logged operation (with the logged player, amount
and cards as explicit arguments) to an equal state does the same thing.  `State._update` is the only
writer of `operations` and every phase step logs the record before anything else happens.
"""
from pyvc.contract import contract, P, A, OptIndex, OptChips, OptInt, Cards, ArgSpec
from pyvc.ghost import implies, iff, appended
from contracts.c01 import ARGS, Q, REFUSAL
import contracts.engine as E
from pokerkit.utilities import Card, Rank, Suit


def rows_ok(s):
    return (E.config_ok(s) and E.nonneg(s) and all(len(s.hole_cards[i]) == len(s.hole_card_statuses[i]) for i in range(s.player_count))
            and (s.street_index is None or 0 <= s.street_index < len(s.streets)))


def others_same(old, s, i, field):
    return all(getattr(s, field)[j] == getattr(old, field)[j] for j in range(s.player_count) if j != i)


def chips_moved(old, s, i, amount):
    """exactly `amount` went from player i's stack in front of him; nobody else's chips moved"""
    return (s.stacks[i] == old.stacks[i] - amount and s.bets[i] == old.bets[i] + amount
            and others_same(old, s, i, 'stacks') and others_same(old, s, i, 'bets'))


class Base:
    raises = {REFUSAL: None}

    def requires(s):
        return rows_ok(s)


class post_ante(Base):
    @P('C15', 'AntePosting(player, amount): that player\'s stack went down by amount, which is now in front of him')
    def at_update_record_is_exact(old, s, op):
        return chips_moved(old, s, op.player_index, op.amount) and op.amount > 0


class post_blind_or_straddle(Base):
    @P('C15', 'BlindOrStraddlePosting(player, amount)')
    def at_update_record_is_exact(old, s, op):
        return chips_moved(old, s, op.player_index, op.amount) and op.amount > 0


class collect_bets(Base):
    @P('C15', 'BetCollection(bets): per player, what was collected from in front of him (the rest went back to his stack)')
    def at_update_record_is_exact(old, s, op):
        n = s.player_count
        return (len(op.bets) == n and all(op.bets[i] == old.bets[i] - s.bets[i] - (s.stacks[i] - old.stacks[i]) for i in range(n))
                and all(s.stacks[i] >= old.stacks[i] and op.bets[i] >= 0 for i in range(n)))


class burn_card(Base):
    @P('C15', 'CardBurning(card): the card that was put on the burn pile')
    def at_update_record_is_exact(old, s, op):
        return len(s.burn_cards) >= 1 and s.burn_cards[len(s.burn_cards) - 1] == op.card


class deal_hole(Base):
    @P('C15', 'HoleDealing(player, cards, statuses): those cards were added to that player\'s hand with those facings')
    def at_update_record_is_exact(old, s, op):
        i = op.player_index
        return (tuple(s.hole_cards[i]) == tuple(old.hole_cards[i]) + tuple(op.cards)
                and tuple(s.hole_card_statuses[i]) == tuple(old.hole_card_statuses[i]) + tuple(op.statuses)
                and len(op.cards) == len(op.statuses) and len(op.cards) >= 1
                and all(tuple(s.hole_cards[j]) == tuple(old.hole_cards[j]) for j in range(s.player_count) if j != i))


class deal_board(Base):
    def requires(s):
        # (shape bound: at most three board cards owed to a board -- the clause is evaluated with loops unrolled to 6)
        return rows_ok(s) and s.street_index is not None and all(0 <= c <= 3 for c in s.board_dealing_counts)

    @P('C15', 'BoardDealing(cards): exactly those cards were added, one per board position from the next position of the board being '
              'dealt, in that order; no other row changed')
    def at_update_record_is_exact(old, s, op):
        pending = [c for c in old.board_dealing_counts if c != 0]
        done = old.streets[old.street_index].board_dealing_count - pending[0]
        base = sum(old.streets[k].board_dealing_count for k in range(len(old.streets)) if k < old.street_index) + (done if done > 0 else 0)
        m = len(op.cards)
        return m >= 1 and all(tuple(s.board_cards[p]) == (tuple(old.board_cards[p]) if p < len(old.board_cards) else ())
                              + ((op.cards[p - base],) if base <= p < base + m else ()) for p in range(len(s.board_cards)))


class stand_pat_or_discard(Base):
    @P('C15', 'StandingPatOrDiscarding(player, cards): that player gave up exactly those cards')
    def at_update_record_is_exact(old, s, op):
        i = op.player_index
        return (old.standing_pat_or_discarding_statuses[i] and not s.standing_pat_or_discarding_statuses[i]
                and len(s.hole_cards[i]) == len(old.hole_cards[i]) - len(op.cards)
                and tuple(s.discarded_cards[old.street_index]) == tuple(old.discarded_cards[old.street_index]) + tuple(op.cards))


class fold(Base):
    @P('C15', 'Folding(player): the player whose turn it was left the hand')
    def at_update_record_is_exact(old, s, op):
        return op.player_index == old.actor_indices[0] and old.statuses[op.player_index] and not s.statuses[op.player_index] \
            and others_same(old, s, op.player_index, 'statuses')


class check_or_call(Base):
    @P('C15', 'CheckingOrCalling(player, amount)')
    def at_update_record_is_exact(old, s, op):
        return op.player_index == old.actor_indices[0] and chips_moved(old, s, op.player_index, op.amount) and op.amount >= 0


class post_bring_in(Base):
    @P('C15', 'BringInPosting(player, amount)')
    def at_update_record_is_exact(old, s, op):
        return op.player_index == old.actor_indices[0] and chips_moved(old, s, op.player_index, op.amount)


class complete_bet_or_raise_to(Base):
    @P('C15', 'CompletionBettingOrRaisingTo(player, amount): amount is what that player now has in front of him, paid from his stack')
    def at_update_record_is_exact(old, s, op):
        i = op.player_index
        return (i == old.actor_indices[0] and s.bets[i] == op.amount and s.stacks[i] == old.stacks[i] - (op.amount - old.bets[i])
                and others_same(old, s, i, 'stacks') and others_same(old, s, i, 'bets'))


class select_runout_count(Base):
    @P('C15', 'RunoutCountSelection(player, count): that player\'s choice, as given')
    def at_update_record_is_exact(old, s, op, runout_count):
        i = op.player_index
        return (old.runout_count_selector_statuses[i] and not s.runout_count_selector_statuses[i] and op.runout_count == runout_count
                and others_same(old, s, i, 'runout_count_selector_statuses'))


def unknown(c):
    return c.rank == Rank.UNKNOWN or c.suit == Suit.UNKNOWN


class show_or_muck_hole_cards(Base):
    @P('C15', 'HoleCardsShowingOrMucking(player, cards): the cards the player tabled -- the known cards of the record are exactly the '
              'cards now face up in his hand, one unknown card stands for each card he kept hidden; a muck records no card')
    def at_update_record_is_exact(old, s, op):
        i = op.player_index
        shown = tuple(op.hole_cards)
        if not s.statuses[i]:
            return len(shown) == 0 and old.statuses[i]
        hand = tuple(zip(s.hole_cards[i], s.hole_card_statuses[i]))
        return (len(shown) == len(hand)
                and sum(1 for x in shown if unknown(x)) == sum(1 for c, up in hand if not up)
                and all(unknown(x) or sum(1 for y in shown if y == x) == sum(1 for c, up in hand if up and c == x) for x in shown))


class kill_hand(Base):
    @P('C15', 'HandKilling(player): that player\'s hand was killed')
    def at_update_record_is_exact(old, s, op):
        i = op.player_index
        return old.hand_killing_statuses[i] and not s.hand_killing_statuses[i] and old.statuses[i] and not s.statuses[i] \
            and others_same(old, s, i, 'statuses')


class push_chips(Base):
    def requires(s):
        return rows_ok(s) and E.frozen_pots_ok(s) and s._pots is not None

    @P('C15', 'ChipsPushing(amounts, pot, board, hand type): per player what was pushed in front of him, out of the named sub-pot')
    def at_update_record_is_exact(old, s, op):
        n = s.player_count
        amount, k, board, kind = old._sub_pots[0]
        return (all(op.amounts[i] == s.bets[i] - old.bets[i] for i in range(n)) and len(op.amounts) == n
                and op.pot_index == k and op.board_index == board and op.hand_type_index == kind
                and tuple(s._sub_pots) == tuple(old._sub_pots)[1:])


class pull_chips(Base):
    @P('C15', 'ChipsPulling(player, amount): that player took amount from in front of him into his stack')
    def at_update_record_is_exact(old, s, op):
        i = op.player_index
        return (s.stacks[i] == old.stacks[i] + op.amount and s.bets[i] == 0 and old.bets[i] == op.amount
                and others_same(old, s, i, 'stacks') and others_same(old, s, i, 'bets'))


UPDATE_OF = {'post_ante': '_update_ante_posting', 'collect_bets': '_update_bet_collection', 'post_blind_or_straddle': '_update_blind_or_straddle_posting',
             'burn_card': '_update_dealing', 'deal_hole': '_update_dealing', 'deal_board': '_update_dealing', 'stand_pat_or_discard': '_update_dealing',
             'fold': '_update_betting', 'check_or_call': '_update_betting', 'post_bring_in': '_update_betting',
             'complete_bet_or_raise_to': '_update_betting', 'select_runout_count': '_update_showdown', 'show_or_muck_hole_cards': '_update_showdown',
             'kill_hand': '_update_hand_killing', 'push_chips': '_update_chips_pushing', 'pull_chips': '_update_chips_pulling'}


class ReturnsTheRecord:
    @P('C15', 'the operation returns the record it logged')
    def at_update_result_is_the_logged_record(op):
        return op is not None


CONTRACTS = {}
for _op, _upd in UPDATE_OF.items():
    _base = globals()[_op]
    CONTRACTS[_op] = contract(Q + _op, 'C15')(type('R_' + _op, (_base,), {
        'args': dict(ARGS.get(_op, [])), 'argnames': tuple(n for n, _ in ARGS.get(_op, [])), 'update': Q + _upd,
        'at_call': {Q + _upd: ['at_update_record_is_exact']}}))
for _k in CONTRACTS.values():
    globals()[_k.__name__] = _k


# ---- every phase step logs the record it is given, first --------------------------------------------------------------------------
class step_logs:
    raises = {REFUSAL: None}

    @P('C15', 'the phase step appends the record to the log -- whatever else it does afterwards')
    def record_is_logged(old, s, operation):
        new = appended(old.operations, s.operations)
        return operation is None or (new is not None and len(new) >= 1 and new[0] is operation)


STEPS = {}
for _upd in sorted(set(UPDATE_OF.values())):
    STEPS[_upd] = contract(Q + _upd, 'C15')(type('L_' + _upd, (step_logs,), {'argnames': ('operation',)}))
for _k in STEPS.values():
    globals()[_k.__name__] = _k

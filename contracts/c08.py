"""C08 -- query, verifier and operation agree; a refused operation changes nothing.

For each operation triple (can_X, verify_X, X) of `pokerkit.state.State`:

  verify_X : raises only ValueError / UserWarning; never changes the state (normal or refusing path)
  can_X    : never raises; never changes the state; returns True  <=>  verify_X(same arguments) returns
  X        : is refused (ValueError / UserWarning)  <=>  verify_X(same arguments) is refused, and a
             refusal leaves every field of the state as it was; when an explicit player index is
             given and accepted, the returned record carries that index and that player's row is the
             one mutated (checked at the call of the phase's `_update_*` step, i.e. after the local
             mutation and before any cascade).

The clause texts come from the property statement; nothing here mirrors the bodies.
"""
from pyvc.contract import (contract, P, A, OptIndex, OptInt, OptChips, Cards, OptCardsOrInt, ArgSpec)
from pyvc.ghost import state_equal, succeeds, implies, iff
from contracts.inv import inv08

REFUSAL = (ValueError, UserWarning)


class StatusOrCards(ArgSpec):
    kind = 'status_or_cards'
    cap = 2


class OptCards(ArgSpec):
    kind = 'opt_cards'
    cap = 2


class VerifyBase:
    """verify_X"""
    raises = {REFUSAL: None}
    refusal_unchanged = True

    def requires(s):
        return inv08(s)

    @P('C08', 'verifiers never change the state')
    def pure(old, s):
        return state_equal(old, s)


class CanBase:
    """can_X"""
    raises = {}

    def requires(s):
        return inv08(s)

    @P('C08', 'the query answers yes exactly when the verifier accepts the same arguments')
    def agrees_with_verify(s, r, K, a):
        return iff(r, succeeds(lambda: getattr(s, K.verify)(*a)))

    @P('C08', 'queries never change the state')
    def pure(old, s):
        return state_equal(old, s)


class OpBase:
    """X"""
    raises = {REFUSAL: 'refused_by_verify'}
    refusal_unchanged = True

    def requires(s):
        return inv08(s)

    def refused_by_verify(s, K, a):
        return not succeeds(lambda: getattr(s, K.verify)(*a))


PI = ('player_index', OptIndex())
TRIPLES = [
    # op, verify, can, args, update step, row predicate name (for explicit index)
    ('post_ante', 'verify_ante_posting', 'can_post_ante', [PI], '_update_ante_posting'),
    ('collect_bets', 'verify_bet_collection', 'can_collect_bets', [], '_update_bet_collection'),
    ('post_blind_or_straddle', 'verify_blind_or_straddle_posting', 'can_post_blind_or_straddle', [PI],
     '_update_blind_or_straddle_posting'),
    ('burn_card', 'verify_card_burning', 'can_burn_card', [('card', OptCards())], '_update_dealing'),
    ('deal_hole', 'verify_hole_dealing', 'can_deal_hole', [('cards', OptCardsOrInt()), PI], '_update_dealing'),
    ('deal_board', 'verify_board_dealing', 'can_deal_board', [('cards', OptCardsOrInt())], '_update_dealing'),
    ('stand_pat_or_discard', 'verify_standing_pat_or_discarding', 'can_stand_pat_or_discard',
     [('cards', Cards())], '_update_dealing'),
    ('fold', 'verify_folding', 'can_fold', [], '_update_betting'),
    ('check_or_call', 'verify_checking_or_calling', 'can_check_or_call', [], '_update_betting'),
    ('post_bring_in', 'verify_bring_in_posting', 'can_post_bring_in', [], '_update_betting'),
    ('complete_bet_or_raise_to', 'verify_completion_betting_or_raising_to', 'can_complete_bet_or_raise_to',
     [('amount', OptChips())], '_update_betting'),
    ('select_runout_count', 'verify_runout_count_selection', 'can_select_runout_count',
     [('runout_count', OptInt()), PI], '_update_showdown'),
    ('show_or_muck_hole_cards', 'verify_hole_cards_showing_or_mucking', 'can_show_or_muck_hole_cards',
     [('status_or_hole_cards', StatusOrCards()), PI], '_update_showdown'),
    ('kill_hand', 'verify_hand_killing', 'can_kill_hand', [PI], '_update_hand_killing'),
    ('push_chips', 'verify_chips_pushing', 'can_push_chips', [], '_update_chips_pushing'),
    ('pull_chips', 'verify_chips_pulling', 'can_pull_chips', [PI], '_update_chips_pulling'),
    ('no_operate', 'verify_no_operation', 'can_no_operate', [], '_update'),
]


class IndexedOp:
    """explicit player index: the record and the mutated row carry it"""

    @P('C08', 'the player an explicit index refers to is the player the operation is applied to')
    def record_carries_index(r, player_index):
        return player_index is None or r.player_index == player_index


# which per-player row an indexed operation clears/changes, checked at the `_update_*` call
ROW = {
    'post_ante': 'ante_posting_statuses',
    'post_blind_or_straddle': 'blind_or_straddle_posting_statuses',
    'select_runout_count': 'runout_count_selector_statuses',
    'kill_hand': 'hand_killing_statuses',
    'pull_chips': 'chips_pulling_statuses',
}


class RowOp:
    @P('C08', 'the row of the explicitly named player is the one (and the only one) that changes')
    def at_update_row_of_named_player(old, s, K, player_index):
        row_old = getattr(old, K.row)
        row_new = getattr(s, K.row)
        return player_index is None or (
            row_old[player_index] and not row_new[player_index]
            and all(row_new[i] == row_old[i] for i in range(s.player_count) if i != player_index))


class QueueOp:
    @P('C08', 'the named player is the one who leaves the showdown queue; everybody else keeps his place')
    def at_update_named_player_leaves_the_queue(old, s, op):
        return old.street_index is None or tuple(s.showdown_indices) == tuple(i for i in old.showdown_indices if i != op.player_index)


CONTRACTS = {}
for _op, _verify, _can, _args, _update in TRIPLES:
    _argd = dict(_args)
    _names = tuple(n for n, _ in _args)
    CONTRACTS[_verify] = contract('pokerkit.state.State.' + _verify, 'C08')(
        type('V_' + _verify, (VerifyBase,), {'args': _argd, 'argnames': _names, 'verify': _verify}))
    CONTRACTS[_can] = contract('pokerkit.state.State.' + _can, 'C08')(
        type('Q_' + _can, (CanBase,), {'args': _argd, 'argnames': _names, 'verify': _verify}))
    _bases = (OpBase,)
    _extra = {}
    if 'player_index' in _argd:
        _bases = (OpBase, IndexedOp)
    if _op == 'show_or_muck_hole_cards':
        _bases = _bases + (QueueOp,)
        _extra = {'at_call': {'pokerkit.state.State.' + _update: ['at_update_named_player_leaves_the_queue']}}
    if _op in ROW:
        _bases = _bases + (RowOp,)
        _extra = {'row': ROW[_op], 'at_call': {'pokerkit.state.State.' + _update: ['at_update_row_of_named_player']}}
    CONTRACTS[_op] = contract('pokerkit.state.State.' + _op, 'C08')(
        type('O_' + _op, _bases, dict({'args': _argd, 'argnames': _names, 'verify': _verify,
                                       'update': 'pokerkit.state.State.' + _update}, **_extra)))

OPS = {t[0] for t in TRIPLES}
for _k in CONTRACTS.values():
    globals()[_k.__name__] = _k          # addressable by name (replay files name the contract class)

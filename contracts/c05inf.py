"""C05, unbounded mode -- the running maximum of `from_game` is the best legal candidate for ANY number of candidates.

The three real `from_game` bodies (CombinationHand, BoardCombinationHand, HoleBoardCombinationHand) each loop over
`itertools.combinations(...)`, try to build a hand (the constructor, or the next class's `from_game`), skip a ValueError,
and keep the running maximum.  Here `combinations(xs, k)` is an abstract stream of arbitrary length (pyvc/streams.py), the loop
is cut by the invariant `best_so_far`, and the callee `super().from_game` is replaced by ITS contract of this module (proved
by its own task): modular, by induction on the number of candidates consumed -- no bound on the number of cards.

What a candidate stream contains (that `combinations` yields the k-subsets) is assumption 4 of the design; that the nesting of
streams is the composition rule of the statement for the card counts of each game is the D/shape half (contracts/c05.py).
"""
from pyvc.contract import contract, P
import pyvc.ghost as G


def hand_or_none(cls, cards):
    try:
        return cls(cards)
    except ValueError:
        return None


def valid(cls, c):
    return hand_or_none(cls, c) is not None


def not_beaten_by(cls, r, c):
    """candidate c is not a valid hand, or does not beat r"""
    return hand_or_none(cls, c) is None or not (r < hand_or_none(cls, c))


# ---- level 1: any card_count of the cards ------------------------------------------------------------------------------
def cands1(cls, hole, board):
    return G.combos(G.chained(hole, board), cls.card_count)


@contract('pokerkit.hands.CombinationHand.from_game', 'C05')
class level1:
    label = 'D∞'
    argnames = ('cls', 'hole_cards', 'board_cards')
    raises = {ValueError: 'no_valid_candidate'}
    raises_split = True
    loop_invariants = ('best_so_far',)

    def no_valid_candidate(cls, hole_cards, board_cards):
        return G.forall(cands1(cls, hole_cards, board_cards), lambda c: not valid(cls, c))

    @P('C05', 'the evaluated hand is made of one of the candidate combinations, and that combination is a valid hand')
    def is_a_valid_candidate(cls, hole_cards, board_cards, r):
        return G.exists(cands1(cls, hole_cards, board_cards), lambda c: r.cards == c and valid(cls, c))

    @P('C05', 'no valid candidate combination makes a stronger hand')
    def is_the_strongest(cls, hole_cards, board_cards, r):
        return G.forall(cands1(cls, hole_cards, board_cards), lambda c: not_beaten_by(cls, r, c))

    def best_so_far(cls, xs, k, acc):
        """loop invariant after k candidates: no hand yet iff none of them was valid; else the running maximum is one of them,
        valid, and none of them beats it"""
        if acc is None:
            return G.forall_before(xs, k, lambda c: not valid(cls, c))
        return (G.exists_before(xs, k, lambda c: acc.cards == c and valid(cls, c))
                and G.forall_before(xs, k, lambda c: not_beaten_by(cls, acc, c)))


# ---- level 2: all hole cards with board_card_count of the board ----------------------------------------------------------
def rows2(cls, board):
    return G.combos(board, cls.board_card_count)


@contract('pokerkit.hands.BoardCombinationHand.from_game', 'C05')
class level2:
    label = 'D∞'
    argnames = ('cls', 'hole_cards', 'board_cards')
    raises = {ValueError: 'no_valid_candidate'}
    raises_split = True
    loop_invariants = ('best_so_far',)
    callee = 'level1'

    def no_valid_candidate(cls, hole_cards, board_cards):
        return G.forall(rows2(cls, board_cards), lambda b: G.forall(cands1(cls, hole_cards, b), lambda c: not valid(cls, c)))

    @P('C05', 'the evaluated hand is made of one of the candidate combinations, and that combination is a valid hand')
    def is_a_valid_candidate(cls, hole_cards, board_cards, r):
        return G.exists(rows2(cls, board_cards), lambda b: G.exists(cands1(cls, hole_cards, b), lambda c: r.cards == c and valid(cls, c)))

    @P('C05', 'no valid candidate combination makes a stronger hand')
    def is_the_strongest(cls, hole_cards, board_cards, r):
        return G.forall(rows2(cls, board_cards), lambda b: G.forall(cands1(cls, hole_cards, b), lambda c: not_beaten_by(cls, r, c)))

    def best_so_far(cls, hole_cards, xs, k, acc):
        if acc is None:
            return G.forall_before(xs, k, lambda b: G.forall(cands1(cls, hole_cards, b), lambda c: not valid(cls, c)))
        return (G.exists_before(xs, k, lambda b: G.exists(cands1(cls, hole_cards, b), lambda c: acc.cards == c and valid(cls, c)))
                and G.forall_before(xs, k, lambda b: G.forall(cands1(cls, hole_cards, b), lambda c: not_beaten_by(cls, acc, c))))


# ---- level 3: hole_card_count of the hole cards with board_card_count of the board ------------------------------------------
def rows3(cls, hole):
    return G.combos(hole, cls.hole_card_count)


@contract('pokerkit.hands.HoleBoardCombinationHand.from_game', 'C05')
class level3:
    label = 'D∞'
    argnames = ('cls', 'hole_cards', 'board_cards')
    raises = {ValueError: 'no_valid_candidate'}
    raises_split = True
    loop_invariants = ('best_so_far',)
    callee = 'level2'

    def no_valid_candidate(cls, hole_cards, board_cards):
        return G.forall(rows3(cls, hole_cards), lambda h: G.forall(rows2(cls, board_cards), lambda b: G.forall(
            cands1(cls, h, b), lambda c: not valid(cls, c))))

    @P('C05', 'the evaluated hand is made of one of the candidate combinations, and that combination is a valid hand')
    def is_a_valid_candidate(cls, hole_cards, board_cards, r):
        return G.exists(rows3(cls, hole_cards), lambda h: G.exists(rows2(cls, board_cards), lambda b: G.exists(
            cands1(cls, h, b), lambda c: r.cards == c and valid(cls, c))))

    @P('C05', 'no valid candidate combination makes a stronger hand')
    def is_the_strongest(cls, hole_cards, board_cards, r):
        return G.forall(rows3(cls, hole_cards), lambda h: G.forall(rows2(cls, board_cards), lambda b: G.forall(
            cands1(cls, h, b), lambda c: not_beaten_by(cls, r, c))))

    def best_so_far(cls, board_cards, xs, k, acc):
        if acc is None:
            return G.forall_before(xs, k, lambda h: G.forall(rows2(cls, board_cards), lambda b: G.forall(
                cands1(cls, h, b), lambda c: not valid(cls, c))))
        return (G.exists_before(xs, k, lambda h: G.exists(rows2(cls, board_cards), lambda b: G.exists(
                    cands1(cls, h, b), lambda c: acc.cards == c and valid(cls, c))))
                and G.forall_before(xs, k, lambda h: G.forall(rows2(cls, board_cards), lambda b: G.forall(
                    cands1(cls, h, b), lambda c: not_beaten_by(cls, acc, c)))))


# ---- badugi: the largest size that has a valid hand, then the best of that size ------------------------------------------------
def none_valid_of_size(cls, cards, size):
    return G.forall(G.combos(cards, size), lambda c: not valid(cls, c))


def none_valid_above(cls, cards, size):
    return all(none_valid_of_size(cls, cards, s2) for s2 in range(size + 1, 5))


def best_of_size(cls, cards, size, r):
    return (G.exists(G.combos(cards, size), lambda c: r.cards == c and valid(cls, c))
            and G.forall(G.combos(cards, size), lambda c: not_beaten_by(cls, r, c)))


@contract('pokerkit.hands.BadugiHand.from_game', 'C05')
class badugi:
    label = 'D∞'
    argnames = ('cls', 'hole_cards', 'board_cards')
    raises = {ValueError: 'no_valid_candidate'}
    raises_split = True
    loop_invariants = (None, 'best_so_far')      # the outer loop runs over the concrete sizes 4, 3, 2, 1 and is unrolled

    def no_valid_candidate(cls, hole_cards, board_cards):
        return none_valid_above(cls, G.chained(hole_cards, board_cards), 0)

    @P('C05', 'the evaluated hand is the best valid one of the largest size that has a valid hand (1 to 4 cards)')
    def is_the_best_of_the_largest_size(cls, hole_cards, board_cards, r):
        cards = G.chained(hole_cards, board_cards)
        return any(best_of_size(cls, cards, size, r) and none_valid_above(cls, cards, size) for size in range(1, 5))

    def best_so_far(cls, hole_cards, board_cards, xs, xs_size, k, acc):
        """invariant of the inner loop in the pass over the subsets of one size (xs_size), after k of them: no larger size has a valid hand;
        no hand yet iff none of the k was valid; else the running maximum is one of them, valid, not beaten by any of them"""
        if not none_valid_above(cls, G.chained(hole_cards, board_cards), xs_size):
            return False
        if acc is None:
            return G.forall_before(xs, k, lambda c: not valid(cls, c))
        return (G.exists_before(xs, k, lambda c: acc.cards == c and valid(cls, c))
                and G.forall_before(xs, k, lambda c: not_beaten_by(cls, acc, c)))


LEVELS = {'level1': level1, 'level2': level2, 'level3': level3, 'badugi': badugi}
# the classes whose from_game is each level's real function (one task per class: `low`, `card_count`, ... are the class's own)
CLASSES = {
    'level1': ['StandardHighHand', 'StandardLowHand', 'ShortDeckHoldemHand', 'EightOrBetterLowHand', 'RegularLowHand'],
    'level2': ['GreekHoldemHand'],
    'level3': ['OmahaHoldemHand', 'OmahaEightOrBetterLowHand'],
    'badugi': ['BadugiHand', 'StandardBadugiHand'],
}


def _native_case(model, ob):
    """the counter-model is over uninterpreted streams; search real deals (all card counts of the statement) for a failure of
    the from_game of this class against the statement's candidate sets (the D/shape clauses of contracts/c05.py)"""
    import random
    import pokerkit.hands as H
    from pokerkit.utilities import Deck
    import contracts.c05 as c05
    name = model['args']['cls']['$class'].rsplit('.', 1)[1]
    cls = getattr(H, name)
    deck = list({'ShortDeckHoldemHand': Deck.SHORT_DECK_HOLDEM}.get(name, Deck.STANDARD))
    rng = random.Random(1)
    kind = c05.RULE[name]
    for trial in range(6000):
        if kind == 'any':
            h = rng.randint(0, 7)
            bd = rng.randint(0, min(5, 8 - h))
        elif kind == 'greek':
            h, bd = 2, rng.randint(0, 5)
        elif kind == 'badugi':
            h, bd = rng.randint(0, 6), 0
        else:
            h, bd = rng.randint(0, 5), rng.randint(0, 5)
        cs = rng.sample(deck, h + bd)
        hole, board = tuple(cs[:h]), tuple(cs[h:])
        r, exc = None, None
        try:
            r = cls.from_game(hole, board)
        except ValueError as e:
            exc = e
        except Exception as e:       # noqa
            return {'confirmed': True, 'detail': f'{name}.from_game: hole {hole} board {board}: raised {type(e).__name__}: {e}'}
        base = c05.from_game_base
        if exc is not None:
            bad = not base.no_legal_combination(cls, hole, board)
            what = 'raised ValueError although a legal combination exists'
        else:
            bad = base.no_legal_combination(cls, hole, board) or not base.is_an_allowed_combination(cls, hole, board, r) \
                or not base.is_the_strongest(cls, hole, board, r)
            what = f'returned {r!r}, which is not the strongest legal combination'
        if bad:
            return {'confirmed': True, 'detail': f'{name}.from_game: hole {hole} board {board}: {what}'}
    return {'confirmed': None, 'detail': 'no real deal among 6000 random ones exhibits the failure of the abstract counter-model'}


for _k in LEVELS.values():
    _k.native_case = staticmethod(_native_case)

"""C06 -- cards are conserved: each card is in exactly one place, dealt from the deck.

The property is stated POINTWISE: `c` is an arbitrary known card (a skolem constant: one symbolic card
that the solver may instantiate with any rank and suit), `total(s, c)` the number of places it is in.
A card that is nowhere twice stays so, and no operation creates or loses it:

        total(old, c) <= 1   ==>   total(s, c) == total(old, c)        (and so <= 1 again)

-- under the hypothesis of the statement for explicitly supplied cards: a known card handed to the engine
is one the engine itself could have dealt (a member of get_dealable_cards(); otherwise the engine warns).
Because `c` is arbitrary this is the invariant "no card is ever duplicated or lost", by induction over the
operations.  Where each card lands is stated per operation.
"""
from pyvc.contract import contract, P, A, OptIndex, Cards, ArgSpec
from pyvc.ghost import implies, iff
import contracts.engine as E
from pokerkit.utilities import Rank, Suit, Card

Q = 'pokerkit.state.State.'
REFUSAL = (ValueError, UserWarning)


def known(x):
    return x.rank != Rank.UNKNOWN and x.suit != Suit.UNKNOWN


def same(x, c):
    return x.rank == c.rank and x.suit == c.suit


def cnt(xs, c):
    return sum(1 if same(x, c) else 0 for x in xs)


def in_hands(s, c):
    return sum(cnt(h, c) for h in s.hole_cards)


def on_boards(s, c):
    return sum(cnt(row, c) for row in s.board_cards)


def in_discards(s, c):
    return sum(cnt(d, c) for d in s.discarded_cards)


def total(s, c):
    return cnt(s.deck_cards, c) + on_boards(s, c) + in_hands(s, c) + cnt(s.burn_cards, c) + cnt(s.mucked_cards, c) + in_discards(s, c)


def not_in_play(s, c):
    """in the deck or in one of the piles the deck is replenished from"""
    return cnt(s.deck_cards, c) + cnt(s.burn_cards, c) + cnt(s.mucked_cards, c) + in_discards(s, c)


def rows_aligned(s):
    return all(len(s.hole_cards[i]) == len(s.hole_card_statuses[i]) for i in range(s.player_count))


def supplied_cards_dealable(s, cards):
    """hypothesis of the statement: explicitly supplied known cards are cards not currently in play"""
    return all(not known(x) or not_in_play(s, x) >= 1 for x in cards)


def named_cards(arg):
    """the cards an operation argument names: None (the engine chooses), a count (the engine chooses that many), or the cards
    themselves -- given as a sequence or as ONE bare Card object, which means the one-card sequence (C19: same meaning)"""
    if arg is None or isinstance(arg, int):
        return None
    if isinstance(arg, Card):
        return (arg,)
    return tuple(arg)


def asked_count(arg, default):
    if arg is None:
        return default
    if isinstance(arg, int):
        return arg
    return len(named_cards(arg))


class Base:
    def requires(s, c):
        return known(c) and total(s, c) <= 1 and rows_aligned(s) and (s.street_index is None or 0 <= s.street_index < len(s.streets))


# ---- engine-chosen cards ------------------------------------------------------------------------------------------
@contract(Q + '_verify_cards_consumption', 'C06')
class verify_consumption(Base):
    args = {'cards': ArgSpec(kind='int', lo=0, hi=2)}
    argnames = ('cards',)
    raises = {ValueError: None}

    @P('C06', 'cards dealt by the engine itself come from cards not currently in play: the remaining deck first, in order, the '
              'burns / muck / discards only when the deck cannot cover the request')
    def engine_cards_are_not_in_play(s, cards, r, c):
        deck = tuple(s.deck_cards)
        return (len(r) == cards
                and all(r[k] == deck[k] for k in range(len(r)) if k < len(deck))
                and (len(deck) >= cards or all(not_in_play(s, x) >= 1 for x in r)))


@contract(Q + '_consume_cards', 'C06')
class consume_cards(Base):
    args = {'cards': Cards()}
    argnames = ('cards',)
    raises = {}

    @P('C06', 'consumed cards leave the place they were in -- and only they: everything else stays (possibly moved from the burns / '
              'muck / discards into the deck)')
    def consumed_cards_leave_their_place(old, s, cards, c):
        return implies(supplied_cards_dealable(old, cards) and all(cnt(cards, x) <= 1 for x in cards if known(x)),
                       total(s, c) == total(old, c) - cnt(cards, c) and in_hands(s, c) == in_hands(old, c) and on_boards(s, c) == on_boards(old, c))

    @P('C06', 'the deck is replenished from burns, muck and discards only when it cannot cover the cards to be dealt')
    def reserves_untouched_while_the_deck_covers(old, s, cards, c):
        covered = all(cnt(old.deck_cards, x) >= 1 for x in cards)
        return implies(covered, cnt(s.burn_cards, c) == cnt(old.burn_cards, c) and cnt(s.mucked_cards, c) == cnt(old.mucked_cards, c)
                       and in_discards(s, c) == in_discards(old, c))


# ---- operations -------------------------------------------------------------------------------------------------------
class Moves(Base):
    raises = {REFUSAL: None}


@contract(Q + 'burn_card', 'C06')
class burn_card(Moves):
    args = {'card': ArgSpec(kind='cardslike', cap=2)}
    argnames = ('card',)

    @P('C06', 'exactly the card that was named is burnt (one card; a bare Card object names itself, unknown or not); when none is '
              'named the engine takes one')
    def at_update_burns_what_was_named(card, op):
        return implies(card is not None, named_cards(card) == (op.card,))

    @P('C06', 'burning a card: no card is duplicated or lost')
    def at_update_conserved(old, s, op, c):
        return implies(supplied_cards_dealable(old, (op.card,)), total(s, c) == total(old, c))

    @P('C06', 'the burnt card lands on the burn pile (which the consumption may have emptied into the deck just before)')
    def at_update_lands_on_burn_pile(old, s, op):
        return len(s.burn_cards) >= 1 and s.burn_cards[len(s.burn_cards) - 1] == op.card

    at_call = {Q + '_update_dealing': ['at_update_conserved', 'at_update_lands_on_burn_pile', 'at_update_burns_what_was_named']}


@contract(Q + 'deal_hole', 'C06')
class deal_hole(Moves):
    args = {'cards': ArgSpec(kind='cardslike_or_int', cap=2), 'player_index': OptIndex()}
    argnames = ('cards', 'player_index')

    @P('C06', 'the cards dealt are the cards that were named, or as many as were asked for (one when nothing is said); a count is a '
              'natural number (a negative one is outside the documented argument domain: the code slices the dealable cards from the end)')
    def at_update_deals_what_was_asked(cards, op):
        return implies(not isinstance(cards, int) or cards >= 0,
                       implies(named_cards(cards) is not None, tuple(op.cards) == named_cards(cards))
                       and len(op.cards) == asked_count(cards, 1) and len(op.cards) >= 1)

    @P('C06', 'dealing hole cards: no card is duplicated or lost')
    def at_update_conserved(old, s, op, c):
        return implies(supplied_cards_dealable(old, op.cards), total(s, c) == total(old, c))

    @P('C06', 'the dealt cards land at the end of that player\'s hand, other hands untouched')
    def at_update_lands_in_the_hand(old, s, op):
        i = op.player_index
        return (tuple(s.hole_cards[i]) == tuple(old.hole_cards[i]) + tuple(op.cards)
                and all(tuple(s.hole_cards[j]) == tuple(old.hole_cards[j]) for j in range(s.player_count) if j != i))

    at_call = {Q + '_update_dealing': ['at_update_conserved', 'at_update_lands_in_the_hand', 'at_update_deals_what_was_asked']}


@contract(Q + 'deal_board', 'C06')
class deal_board(Moves):
    args = {'cards': ArgSpec(kind='cardslike_or_int', cap=2)}
    argnames = ('cards',)

    @P('C06', 'the cards dealt are the cards that were named, or as many as were asked for')
    def at_update_deals_what_was_asked(cards, op):
        return implies(not isinstance(cards, int) or cards >= 0,
                       implies(named_cards(cards) is not None, tuple(op.cards) == named_cards(cards))
                       and implies(cards is not None, len(op.cards) == asked_count(cards, 0)) and len(op.cards) >= 1)

    @P('C06', 'dealing board cards: no card is duplicated or lost; they land on the boards')
    def at_update_conserved(old, s, op, c):
        return implies(supplied_cards_dealable(old, op.cards),
                       total(s, c) == total(old, c) and on_boards(s, c) == on_boards(old, c) + cnt(op.cards, c)
                       and in_hands(s, c) == in_hands(old, c))

    at_call = {Q + '_update_dealing': ['at_update_conserved', 'at_update_deals_what_was_asked']}


@contract(Q + 'stand_pat_or_discard', 'C06')
class stand_pat_or_discard(Moves):
    args = {'cards': Cards()}
    argnames = ('cards',)

    @P('C06', 'discarding: the cards leave the hand for the discards of the current street; nothing is duplicated or lost')
    def at_update_conserved(old, s, op, c):
        return (total(s, c) == total(old, c)
                and in_discards(s, c) == in_discards(old, c) + cnt(op.cards, c)
                and cnt(s.discarded_cards[old.street_index], c) == cnt(old.discarded_cards[old.street_index], c) + cnt(op.cards, c)
                and in_hands(s, c) == in_hands(old, c) - cnt(op.cards, c)
                and cnt(s.deck_cards, c) == cnt(old.deck_cards, c))

    at_call = {Q + '_update_dealing': ['at_update_conserved']}


@contract(Q + '_muck_hole_cards', 'C06')
class muck_hole_cards(Base):
    args = {'player_index': ArgSpec(kind='index')}
    argnames = ('player_index',)
    raises = {}

    @P('C06', 'fold / muck / kill: the whole hand lands in the muck, nothing else moves')
    def hand_lands_in_the_muck(old, s, player_index, c):
        return (total(s, c) == total(old, c) and len(s.hole_cards[player_index]) == 0
                and cnt(s.mucked_cards, c) == cnt(old.mucked_cards, c) + cnt(old.hole_cards[player_index], c)
                and cnt(s.deck_cards, c) == cnt(old.deck_cards, c) and on_boards(s, c) == on_boards(old, c)
                and all(tuple(s.hole_cards[j]) == tuple(old.hole_cards[j]) for j in range(s.player_count) if j != player_index))


@contract(Q + 'show_or_muck_hole_cards', 'C06')
class show_or_muck_hole_cards(Moves):
    args = {'status_or_hole_cards': ArgSpec(kind='status_or_cards', cap=2), 'player_index': OptIndex()}
    argnames = ('status_or_hole_cards', 'player_index')

    @P('C06', 'showing (known cards that replace unknown ones come out of the cards not in play) or mucking: no known card is '
              'duplicated or lost')
    def at_update_conserved(old, s, op, c):
        i = op.player_index
        fresh = tuple(x for x in s.hole_cards[i] if known(x) and cnt(old.hole_cards[i], x) == 0)
        return implies(all(not_in_play(old, x) >= 1 for x in fresh), total(s, c) == total(old, c))

    at_call = {Q + '_update_showdown': ['at_update_conserved']}

"""C09 -- automation is only a convenience: it changes who performs a step, not the hand.

The statement relates two runs (with automation set A / without automation and a user who performs
every step of an automated kind with default arguments as soon as it becomes available).  What is
machine-checked are the premises from which the equivalence follows (DESIGN.md section 4, C09):

 (a1) only the phase steps `_update_X` read `self.automations`                                   [structural scan]
 (a2) in `_update_X` the code guarded by `Automation.K in self.automations` consists of nothing but calls
      `self.K_operation()` without arguments                                                   [structural scan]
 (a3) QUIESCENCE: every function of the cascade ends in a state in which no operation of an automated kind
      is available (its verifier, default arguments, would refuse) -- the engine has done every automated
      step as soon as it became available, in the engine's fixed priority order                [deductive: this file]
      (that each automated call is accepted where it is made is C07's `accepts_*` obligations)
 (a4) default arguments choose the lowest pending player / the top of the deck / show iff all-in or can win
      (C08 / C10 / C14 / C12 clauses)
 (a5) every operation is deterministic given the deck order (C15 scan)
"""
from pyvc.contract import contract, P, A
import contracts.engine as E
import contracts.flow as F
from contracts.c01 import ARGS, Q, REFUSAL


class Comps:
    pass


for _mod in (E, F):
    for _name, _f in list(vars(_mod).items()):
        if callable(_f) and getattr(_f, '__module__', None) == _mod.__name__ and _name not in ('step',):
            setattr(Comps, _name, staticmethod(_f))


class CascadeBase(Comps):
    raises = {REFUSAL: None}

    def requires(s, K):
        return all(f(s) for f in K.pre_funcs)


def _func(name):
    return getattr(F, name, None) or getattr(E, name)


CONTRACTS = {}
for _fn, (_pre, _post) in F.TABLE09.items():
    CONTRACTS[_fn] = contract(Q + _fn, 'C09')(type('K09_' + _fn, (CascadeBase,), {
        'args': dict(ARGS.get(_fn, [])), 'argnames': tuple(n for n, _ in ARGS.get(_fn, [])),
        'pre': _pre, 'post': _post, 'pre_funcs': tuple(_func(c) for c in _pre + F.ASSUMED.get(_fn, ()))}))
for _k in CONTRACTS.values():
    globals()[_k.__name__] = _k

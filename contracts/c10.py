"""C10 -- dealing follows the street definitions: counts, face up/down, burns, draws.

Clause texts come from the statement through spec/dealing.py.  `hole_dealing_statuses[i]` is the queue of
facings of the cards player i is still due, `board_dealing_counts[b]` the cards board b is still due.
"""
from pyvc.contract import contract, P, A, OptIndex, Cards, ArgSpec, Int, Bool
from pyvc.ghost import implies, iff
import spec.dealing as D
import contracts.engine as E
from contracts.c06 import known, cnt, not_in_play

Q = 'pokerkit.state.State.'
REFUSAL = (ValueError, UserWarning)


# ---- Street ---------------------------------------------------------------------------------------------------------------
@contract('pokerkit.state.Street.__post_init__', 'C10')
class street_post_init:
    raises = {ValueError: 'rejected'}

    def rejected(self):
        return D.invalid_street(self.card_burning_status, tuple(self.hole_dealing_statuses), self.board_dealing_count, self.draw_status,
                                self.min_completion_betting_or_raising_amount, self.max_completion_betting_or_raising_count)


# ---- helpers -----------------------------------------------------------------------------------------------------------------
def n_of(s):
    return s.player_count


def street_of(s):
    return s.streets[s.street_index]


def due(s, i):
    return tuple(s.hole_dealing_statuses[i])


def nothing_due(s):
    return (not s.card_burning_status and all(len(s.hole_dealing_statuses[i]) == 0 for i in range(s.player_count))
            and all(c == 0 for c in s.board_dealing_counts) and not any(s.standing_pat_or_discarding_statuses))


def rows_ok(s):
    n = s.player_count
    return (E.config_ok(s) and all(len(s.hole_cards[i]) == len(s.hole_card_statuses[i]) for i in range(n))
            and all(c >= 0 for c in s.board_dealing_counts)
            and all(s.statuses[i] or (len(s.hole_dealing_statuses[i]) == 0 and not s.standing_pat_or_discarding_statuses[i]) for i in range(n)))


def dealable_count(s):
    return (len(s.deck_cards) + sum(1 for x in s.burn_cards if known(x)) + sum(1 for x in s.mucked_cards if known(x))
            + sum(sum(1 for x in d if known(x)) for d in s.discarded_cards))


# ---- _begin_dealing ------------------------------------------------------------------------------------------------------------
@contract(Q + '_begin_dealing', 'C10')
class begin_dealing:
    raises = {}

    def requires(s):
        return (rows_ok(s) and nothing_due(s) and (s.street_index is None or s.street_index + 1 < len(s.streets)) and len(s.streets) > 0
                and len(s.board_dealing_counts) == s.starting_board_count)

    def new_street(old):
        return old.streets[0 if old.street_index is None else old.street_index + 1]

    @P('C10', 'the next street begins: a card is to be burnt first exactly when the street prescribes it')
    def at_update_next_street_and_burn(old, s):
        return (s.street_index == (0 if old.street_index is None else old.street_index + 1)
                and s.card_burning_status == begin_dealing.new_street(old).card_burning_status)

    @P('C10', 'each player still in the hand is due exactly the hole cards the street prescribes, with the prescribed facings, folded '
              'players nothing; each board is due the prescribed number of cards; in a draw round each player still in the hand is to '
              'stand pat or discard -- and when the cards that can be dealt do not cover a stud street, the cards are dealt as shared '
              'board cards instead')
    def at_update_prescription_is_due(old, s):
        st = begin_dealing.new_street(old)
        n = s.player_count
        facings = tuple(st.hole_dealing_statuses)
        short = D.hole_cards_needed(tuple(old.statuses), facings) > dealable_count(old)
        return (all(due(s, i) == (facings if old.statuses[i] and not short else ()) for i in range(n))
                and all(s.board_dealing_counts[b] == st.board_dealing_count + (len(facings) if short else 0) for b in range(s.starting_board_count))
                and len(s.board_dealing_counts) == s.starting_board_count
                and all(s.standing_pat_or_discarding_statuses[i] == (st.draw_status and old.statuses[i]) for i in range(n)))

    at_call = {Q + '_update_dealing': ['at_update_next_street_and_burn', 'at_update_prescription_is_due']}


# ---- phase checks ----------------------------------------------------------------------------------------------------------------
@contract(Q + '_verify_hole_dealing', 'C10')
class phase_hole:
    raises = {ValueError: 'refused'}

    def requires(s):
        return rows_ok(s)

    def refused(s):
        return (s.card_burning_status or all(len(s.hole_dealing_statuses[i]) == 0 for i in range(s.player_count))
                or any(s.standing_pat_or_discarding_statuses))


@contract(Q + '_verify_board_dealing', 'C10')
class phase_board:
    raises = {ValueError: 'refused'}

    def requires(s):
        return rows_ok(s)

    def refused(s):
        return s.card_burning_status or all(c == 0 for c in s.board_dealing_counts) or any(s.standing_pat_or_discarding_statuses)


@contract(Q + 'hole_dealee_index', 'C10')
class hole_dealee_index:
    raises = {}

    def requires(s):
        return rows_ok(s) and s.street_index is not None and 0 <= s.street_index < len(s.streets) and (
            len(street_of(s).hole_dealing_statuses) > 0 or street_of(s).draw_status)

    @P('C10', 'by default hole cards are dealt in position order, one card per round (after a draw: each player in turn gets all '
              'his replacements)')
    def is_the_default_dealee(s, r):
        n = s.player_count
        counts = tuple(len(s.hole_dealing_statuses[i]) for i in range(n))
        blocked = s.card_burning_status or all(c == 0 for c in counts) or any(s.standing_pat_or_discarding_statuses)
        first = min([i for i in range(n) if counts[i] > 0] + [n])
        return r == (None if blocked else (D.default_dealee(counts) if len(street_of(s).hole_dealing_statuses) > 0 else first))


# ---- verifiers: what an accepted request satisfies ---------------------------------------------------------------------------------
@contract(Q + 'verify_hole_dealing', 'C10')
class verify_hole_dealing:
    args = {'cards': ArgSpec(kind='opt_cards_or_int', cap=2), 'player_index': OptIndex()}
    argnames = ('cards', 'player_index')
    raises = {REFUSAL: None}

    def requires(s):
        return hole_dealee_index.requires(s)

    @P('C10', 'hole cards are dealt only when no burn is due and no draw decision is pending, to a player who is due cards, at least '
              'one and at most as many as he is due')
    def accepted_request_is_in_order(s, r):
        cards, i = r
        return (not s.card_burning_status and not any(s.standing_pat_or_discarding_statuses)
                and 1 <= len(cards) <= len(s.hole_dealing_statuses[i]))


@contract(Q + 'verify_board_dealing', 'C10')
class verify_board_dealing:
    args = {'cards': ArgSpec(kind='opt_cards_or_int', cap=2)}
    argnames = ('cards',)
    raises = {REFUSAL: None}

    def requires(s):
        return rows_ok(s)

    @P('C10', 'board cards are dealt only when no burn is due and no draw decision is pending, at least one and at most as many as the '
              'first board that is still owed cards is due; by default all of them')
    def accepted_request_is_in_order(s, cards, r):
        owed = [c for c in s.board_dealing_counts if c != 0]
        return (not s.card_burning_status and not any(s.standing_pat_or_discarding_statuses) and len(owed) > 0
                and 1 <= len(r) <= owed[0] and (cards is not None or len(r) == owed[0]))


@contract(Q + 'verify_standing_pat_or_discarding', 'C10')
class verify_standing_pat_or_discarding:
    args = {'cards': Cards()}
    argnames = ('cards',)
    raises = {REFUSAL: None}

    def requires(s):
        return rows_ok(s)

    @P('C10', 'in a draw round a player discards only cards he holds: no card more often than he holds it')
    def accepted_discards_are_held(s, r):
        i = min(j for j in range(s.player_count) if s.standing_pat_or_discarding_statuses[j])
        return all(sum(1 for y in r if y == x) <= sum(1 for y in s.hole_cards[i] if y == x) for x in r)


@contract(Q + 'verify_card_burning', 'C10')
class verify_card_burning:
    args = {'card': ArgSpec(kind='opt_cards', cap=2)}
    argnames = ('card',)
    raises = {REFUSAL: None}

    def requires(s):
        return rows_ok(s)

    @P('C10', 'a card is burnt exactly when the street prescribes it and before anything else is dealt on the street; exactly one card')
    def accepted_request_is_in_order(s, r):
        return s.card_burning_status and not any(s.standing_pat_or_discarding_statuses)


# ---- operations ------------------------------------------------------------------------------------------------------------------------
@contract(Q + 'burn_card', 'C10')
class burn_card:
    args = {'card': ArgSpec(kind='opt_cards', cap=1)}
    argnames = ('card',)
    raises = {REFUSAL: None}

    def requires(s):
        return rows_ok(s)

    @P('C10', 'a card is burnt only when a burn is due and nobody still has to stand pat or discard')
    def at_update_burn_only_when_due(old):
        return old.card_burning_status and not any(old.standing_pat_or_discarding_statuses)

    @P('C10', 'the burn is done once: nothing else that is due changes')
    def at_update_burn_done(old, s):
        n = s.player_count
        return (old.card_burning_status and not s.card_burning_status
                and all(due(s, i) == due(old, i) for i in range(n))
                and tuple(s.board_dealing_counts) == tuple(old.board_dealing_counts))

    at_call = {Q + '_update_dealing': ['at_update_burn_only_when_due', 'at_update_burn_done']}


@contract(Q + 'deal_hole', 'C10')
class deal_hole:
    args = {'cards': ArgSpec(kind='opt_cards_or_int', cap=2), 'player_index': OptIndex()}
    argnames = ('cards', 'player_index')
    raises = {REFUSAL: None}

    def requires(s):
        return hole_dealee_index.requires(s)

    @P('C10', 'a named seat is the seat that is dealt (seat 0 included); without one it is the next player due')
    def at_update_named_seat_is_dealt(old, op, player_index):
        return op.player_index == (player_index if player_index is not None else old.hole_dealee_index)

    @P('C10', 'each dealt card takes the next prescribed facing: the player\'s facings grow by the first of the facings he was due, '
              'which are no longer due; the record says so; nobody else is dealt anything')
    def at_update_cards_take_prescribed_facings(old, s, op):
        i = op.player_index
        m = len(op.cards)
        n = s.player_count
        return (tuple(s.hole_card_statuses[i]) == tuple(old.hole_card_statuses[i]) + due(old, i)[:m]
                and due(s, i) == due(old, i)[m:] and tuple(op.statuses) == due(old, i)[:m]
                and all(due(s, j) == due(old, j) and tuple(s.hole_card_statuses[j]) == tuple(old.hole_card_statuses[j])
                        for j in range(n) if j != i)
                and tuple(s.board_dealing_counts) == tuple(old.board_dealing_counts))

    at_call = {Q + '_update_dealing': ['at_update_named_seat_is_dealt', 'at_update_cards_take_prescribed_facings']}


@contract(Q + 'stand_pat_or_discard', 'C10')
class stand_pat_or_discard:
    args = {'cards': Cards()}
    argnames = ('cards',)
    raises = {REFUSAL: None}

    def requires(s):
        return rows_ok(s) and s.street_index is not None and 0 <= s.street_index < len(s.streets)

    @P('C10', 'in a draw round the first player still to decide stands pat or discards only cards he holds; he gets back exactly as '
              'many, with the same facings; the cards he keeps stay as they are')
    def at_update_discards_are_owed_back(old, s, op):
        i = op.player_index
        n = s.player_count
        first = min(j for j in range(n) if old.standing_pat_or_discarding_statuses[j])
        hand_old = tuple(zip(old.hole_cards[i], old.hole_card_statuses[i]))
        hand_new = tuple(zip(s.hole_cards[i], s.hole_card_statuses[i]))
        owed = due(s, i)[len(due(old, i)):]
        return (i == first and not s.standing_pat_or_discarding_statuses[i]
                and all(s.standing_pat_or_discarding_statuses[j] == old.standing_pat_or_discarding_statuses[j] for j in range(n) if j != i)
                and len(due(s, i)) == len(due(old, i)) + len(op.cards) and due(s, i)[:len(due(old, i))] == due(old, i)
                and len(hand_new) == len(hand_old) - len(op.cards)
                # every (card, facing) pair kept or given up: what he holds plus what he is owed is what he held
                and all(sum(1 for x in hand_new if x[0] == c and x[1] == f) + sum(
                    1 for k in range(len(op.cards)) if op.cards[k] == c and owed[k] == f)
                    == sum(1 for x in hand_old if x[0] == c and x[1] == f) for c, f in hand_old)
                and all(due(s, j) == due(old, j) for j in range(n) if j != i))

    at_call = {Q + '_update_dealing': ['at_update_discards_are_owed_back']}


@contract(Q + '_update_dealing', 'C10')
class update_dealing:
    raises = {REFUSAL: None}

    def requires(s):
        return rows_ok(s)

    @P('C10', 'betting never starts before dealing is complete: no burn, no hole card, no board card and no draw decision is due')
    def at_end_nothing_is_due(s):
        return nothing_due(s)

    at_call = {Q + '_end_dealing': ['at_end_nothing_is_due']}

"""State invariants used as preconditions (`requires`) of the function contracts.

Every predicate here is (a) assumed at function entry by the proofs that name it, (b) evaluated
natively on real states after every operation of real hands by the run-time guard of each check --
a state violating it would make the proofs vacuous there, which is reported as a checker error --
and (c) where a preservation proof exists (C01/C07 cascade contracts) proved to be inductive.
"""


def actors_have_chips(s):
    """every queued actor is in the hand and has chips behind"""
    return all(s.statuses[i] and s.stacks[i] > 0 for i in s.actor_indices)


def betting_has_street(s):
    """players are queued to act only during a street"""
    return (not s.actor_indices) or s.street_index is not None


def contributions_nonneg(s):
    """before the pots are frozen nobody has been paid anything"""
    return s._pots is not None or all(s.payoffs[i] <= 0 for i in range(s.player_count))


def dealing_has_street(s):
    """cards are owed only during a street, and hole cards only on a street that prescribes them (or a draw)"""
    owed = any(s.hole_dealing_statuses)
    return (not owed) or (s.street_index is not None
                          and (len(s.streets[s.street_index].hole_dealing_statuses) > 0
                               or s.streets[s.street_index].draw_status))


def hole_rows_aligned(s):
    """each player's cards and their face-up flags have the same length"""
    return all(len(s.hole_cards[i]) == len(s.hole_card_statuses[i]) for i in range(s.player_count))


def showdown_street(s):
    """a showdown queue exists only on the last street or when the players are all-in"""
    return (not s.showdown_indices) or s.street_index is None or s.all_in_status \
        or s.street_index == len(s.streets) - 1


def showdown_queue_distinct(s):
    """nobody is queued twice for the showdown"""
    q = s.showdown_indices
    return all(q[j] != q[k] for j in range(len(q)) for k in range(len(q)) if j < k)


def inv08(s):
    return (showdown_queue_distinct(s) and actors_have_chips(s) and betting_has_street(s) and contributions_nonneg(s)
            and dealing_has_street(s) and hole_rows_aligned(s) and showdown_street(s))

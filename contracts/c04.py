"""C04 -- the comparison wrappers of `pokerkit.hands.Hand` (deductive part).

The order of the lookup tables themselves is decided by exhaustive closed evaluation (props/c04.py).
Here: with the entry index of each hand a free integer (`self.entry` is replaced by the contract
"an Entry whose index depends only on the hand object"), the real bodies of __eq__, __lt__, __hash__
and the functools.total_ordering derivations (__gt__, __le__, __ge__, read from the standard library's
own source) are executed symbolically for every concrete hand class.
"""
from pyvc.contract import contract, P, A
from pokerkit.utilities import Rank, Suit

HAND_CLASSES = ('StandardHighHand', 'StandardLowHand', 'ShortDeckHoldemHand', 'EightOrBetterLowHand', 'RegularLowHand',
                'GreekHoldemHand', 'OmahaHoldemHand', 'OmahaEightOrBetterLowHand', 'BadugiHand', 'StandardBadugiHand',
                'KuhnPokerHand')


def is_unknown(card):
    """a card whose rank or suit is not known ('?')"""
    return card.rank == Rank.UNKNOWN or card.suit == Suit.UNKNOWN


def stronger(ia, ib, low):
    """entry indices grow with strength in high games and shrink with it in low games"""
    return ia < ib if low else ia > ib


@contract('pokerkit.hands.Hand.__eq__', 'C04')
class eq_:
    raises = {}
    label = 'D∞'

    @P('C04', 'equality exactly for hands of equal rank')
    def equal_iff_same_rank(r, ia, ib, same_class):
        return (r == (ia == ib)) if same_class else (r is NotImplemented)


@contract('pokerkit.hands.Hand.__lt__', 'C04')
class lt_:
    raises = {}
    label = 'D∞'

    @P('C04', 'a < b exactly when b is the stronger hand; low types exactly reverse strength')
    def less_iff_weaker(r, ia, ib, low, same_class):
        return (r == stronger(ib, ia, low)) if same_class else (r is NotImplemented)


@contract('functools._gt_from_lt', 'C04')
class gt_:
    raises = {}
    label = 'D∞'

    @P('C04', 'a > b exactly when a is the stronger hand')
    def greater_iff_stronger(r, ia, ib, low, same_class):
        return (r == stronger(ia, ib, low)) if same_class else (r is NotImplemented)


@contract('functools._le_from_lt', 'C04')
class le_:
    raises = {}
    label = 'D∞'

    @P('C04', 'a <= b exactly when a is not the stronger hand')
    def le_iff_not_stronger(r, ia, ib, low, same_class):
        return (r == (not stronger(ia, ib, low))) if same_class else (r is NotImplemented)


@contract('functools._ge_from_lt', 'C04')
class ge_:
    raises = {}
    label = 'D∞'

    @P('C04', 'a >= b exactly when b is not the stronger hand')
    def ge_iff_not_weaker(r, ia, ib, low, same_class):
        return (r == (not stronger(ib, ia, low))) if same_class else (r is NotImplemented)


@contract('pokerkit.hands.Hand.__hash__', 'C04')
class hash_:
    raises = {}
    label = 'D∞'

    @P('C04', 'hash is consistent with equality: hands of equal rank hash equally')
    def hash_depends_on_rank_only(r, other_hash, ia, ib):
        return ia != ib or r == other_hash


@contract('pokerkit.hands.Hand.__init__', 'C04')
class init_:
    raises = {ValueError: 'rejected'}
    label = 'D∞'

    def rejected(has_entry, cards):
        return any(is_unknown(c) for c in cards) or not has_entry

    @P('C04', 'a hand object exists only for card sets the table accepts')
    def cards_kept(self, cards):
        return self.cards == cards


def _hand_with_index(cls, index, other_key_than=None):
    """a real hand of class `cls` whose entry index is `index` (None if the table has no such index); with `other_key_than`, one
    whose table key differs from that hand's"""
    import itertools
    from pokerkit.utilities import Deck
    sizes = {'BadugiHand': (1, 2, 3, 4), 'StandardBadugiHand': (1, 2, 3, 4), 'KuhnPokerHand': (1,)}.get(cls.__name__, (5,))
    for k in sizes:
        for cards in itertools.combinations(Deck.STANDARD, k):
            try:
                h = cls(cards)
            except ValueError:
                continue
            if h.entry.index == index and (other_key_than is None or h.entry is not other_key_than.entry):
                return h
            if k == 5 and cards[0].rank.value not in '2A' and False:
                break
    return None


def _native_case(method):
    def native_case(model, ob):
        import pokerkit.hands as H
        b = model.get('bindings', {})
        parts = ob['id'].split('/')
        names = parts[-2].split('-vs-')
        cls = getattr(H, names[0]); other_cls = getattr(H, names[-1])
        a, o = _hand_with_index(cls, b.get('ia')), _hand_with_index(other_cls, b.get('ib'))
        if a is None or o is None:
            return None
        if cls is other_cls and b.get('ia') == b.get('ib') and b.get('ka') != b.get('kb'):
            # the model speaks of two DIFFERENT table keys with the same index: find such a pair of real hands
            o = _hand_with_index(cls, b.get('ia'), other_key_than=a)
            if o is None:
                return None
        fn = {'__eq__': lambda: a.__eq__(o), '__lt__': lambda: a.__lt__(o), '__gt__': lambda: a.__gt__(o),
              '__le__': lambda: a.__le__(o), '__ge__': lambda: a.__ge__(o), '__hash__': lambda: hash(a)}[method]
        return {'call': fn, 'desc': f'{a!r} vs {o!r}',
                'bindings': {'ia': a.entry.index, 'ib': o.entry.index, 'low': bool(cls.low), 'same_class': cls is other_cls,
                             'other_hash': hash(o), 'self': a, 'other': o}}
    return staticmethod(native_case)


for _m, _k in (('__eq__', eq_), ('__lt__', lt_), ('__gt__', gt_), ('__le__', le_), ('__ge__', ge_), ('__hash__', hash_)):
    _k.native_case = _native_case(_m)

CONTRACTS = {'__eq__': eq_, '__lt__': lt_, '__gt__': gt_, '__le__': le_, '__ge__': ge_, '__hash__': hash_, '__init__': init_}


def tasks(tier):
    out = []
    for cls in HAND_CLASSES:
        for m in CONTRACTS:
            out.append({'name': f'wrapper/{cls}.{m}', 'cls': cls, 'other': cls, 'method': m, 'timeout_ms': 20000})
        out.append({'name': f'wrapper/{cls}.__init__/one-shot-iterable', 'cls': cls, 'other': cls, 'method': '__init__', 'lazy': True, 'timeout_ms': 20000})
    # comparing hands of different classes
    for m in ('__eq__', '__lt__', '__gt__', '__le__', '__ge__'):
        out.append({'name': f'wrapper/StandardHighHand-vs-StandardLowHand.{m}', 'cls': 'StandardHighHand', 'other': 'StandardLowHand',
                    'method': m, 'timeout_ms': 20000})
    return out


def run(src, task, verify_contract, Shape):
    import z3
    import pokerkit.hands as H
    import pokerkit.lookups as L
    from pyvc.values import SymObj, Opaque
    if 'functools' not in src.modules:
        src.load('functools')
    K = CONTRACTS[task['method']]
    cls, other_cls = getattr(H, task['cls']), getattr(H, task['other'])
    ia, ib = z3.Int('entry_index.self'), z3.Int('entry_index.other')
    # WHICH stored entry object a hand gets (one per table key): identity tags.  The same key gives the same object and so the same
    # index; different keys may well share an index (a suited and an unsuited low of the same ranks); different tables share nothing
    ka, kb = z3.Int('entry_key.self'), z3.Int('entry_key.other')
    cells = {}
    tags = {}

    def entry_cut(I, ctx, fn, args, kwargs, node):
        ref = args[0]
        idx = cells[ref.cell]
        return SymObj(L.Entry, {'index': idx, 'label': Opaque('label')}, ident=tags[ref.cell])

    def mk_hand(c, idx, nm):
        def mk(I, ctx, wf, shape):
            ref = ctx.alloc('obj', SymObj(c, {'_Hand__cards': Opaque(nm + '.cards')}))
            cells[ref.cell] = idx
            tags[ref.cell] = ka if nm == 'self' else kb
            if nm == 'other':
                wf.append(z3.Implies(ka == kb, ia == ib) if type(cls.lookup) is type(other_cls.lookup) else ka != kb)
            return ref
        return mk
    makers = {'self': mk_hand(cls, ia, 'self'), 'other': mk_hand(other_cls, ib, 'other')}
    cuts = {'pokerkit.hands.Hand.entry': entry_cut}
    has_entry = z3.Bool('lookup.has_entry(cards)')

    def setup(vc, ctx0, bindings):
        bindings.update({'ia': ia, 'ib': ib, 'ka': ka, 'kb': kb, 'low': bool(cls.low), 'same_class': cls is other_cls, 'has_entry': has_entry})
        if task['method'] == '__hash__':
            # the other hand's hash, computed by the same real body
            sub = ctx0.fork(); sub.exits = []
            f = vc.src.func('pokerkit.hands.Hand.__hash__')
            bindings['other_hash'] = vc.I.call_func(sub, f, [bindings['other']], {})
    if task['method'] == '__hash__':
        makers = {'self': mk_hand(cls, ia, 'self')}

        def setup_hash(vc, ctx0, bindings):
            other = mk_hand(cls, ib, 'other')(vc.I, ctx0, [], None)
            bindings['other'] = other
            setup(vc, ctx0, bindings)
        use_setup = setup_hash
    elif task['method'] == '__init__':
        made = {}

        def mk_cards(I, ctx, wf, shape):
            from pyvc.shapes import Builder
            import pokerkit.utilities as ut
            b = Builder(I, 'arg.', {'Card': ut.Card, 'Rank': ut.Rank, 'Suit': ut.Suit})
            cs = tuple(b.card(f'cards[{k}]') for k in range(2))
            wf.extend(b.wf)
            made['cards'] = cs
            # CardsLike: the cards may arrive as a one-shot iterable (Card.parse yields a generator); it can be read once
            return ctx.alloc('iter', cs) if task.get('lazy') else cs
        makers = {'self': mk_hand(cls, ia, 'self'), 'cards': mk_cards}
        other_entries = {}

        def has_entry_cut(I, ctx, fn, args, kwargs, node):
            # the table is asked about SOME cards: the answer for the cards of the hand is the symbol `has_entry`; for anything else
            # (e.g. an iterator that was already consumed: no cards at all) it is an unrelated symbol
            from pyvc import models
            seq = tuple(models.to_seq(I, ctx, args[-1]))
            if len(seq) == len(made['cards']) and all(x is y for x, y in zip(seq, made['cards'])):
                return has_entry
            k = len(seq)
            if k not in other_entries:
                other_entries[k] = z3.Bool(f'lookup.has_entry(some other {k} cards)')
            return other_entries[k]
        cuts['pokerkit.lookups.Lookup.has_entry'] = has_entry_cut
        cuts['pokerkit.lookups.BadugiLookup.has_entry'] = has_entry_cut

        def clean_cut(I, ctx, fn, args, kwargs, node):
            from pyvc import models
            return tuple(models.to_seq(I, ctx, args[-1]))
        cuts['pokerkit.utilities.Card.clean'] = clean_cut

        def setup_init(vc, ctx0, bindings):
            setup(vc, ctx0, bindings)
            bindings['cards'] = made['cards']
        use_setup = setup_init
    else:
        use_setup = setup
    return verify_contract(src, K, Shape(n=2, S=1, T=1, B=1, H=1), with_state=False, arg_makers=makers, cuts=cuts,
                           setup=use_setup, timeout_ms=task['timeout_ms'], tag=f'{task["cls"]}' + ('' if cls is other_cls else '-vs-' + task['other']) + ('-lazy' if task.get('lazy') else ''),
                           keep_smt=1 if task['cls'] == 'StandardLowHand' and task['method'] == '__lt__' else 0)

"""C02 -- every pot goes to the best eligible live hand(s), in the right amounts.

Clause texts come from the statement through spec/pots.py.  Hands are abstract: for each (player,
board, hand type) an optional strength about which only the C04/C05 contracts are known (total
pre-order; None = no legal hand), so one obligation covers every deal of cards.
"""
from pyvc.contract import contract, P, A
from pyvc.ghost import implies, iff
import spec.pots as SP
import contracts.engine as E
from contracts.engine import collected, eff_ante

Q = 'pokerkit.state.State.'
REFUSAL = (ValueError, UserWarning)


def n_of(s):
    return s.player_count


def net_collected(s):
    """what each player has in the pot(s), net of an untrimmed ante"""
    return tuple(collected(s, i) - (0 if s.ante_trimming_status else eff_ante(s, i)) for i in range(s.player_count))


def net_pending(s):
    return tuple(collected(s, i) + s.bets[i] - (0 if s.ante_trimming_status else eff_ante(s, i)) for i in range(s.player_count))


def ante_layer(s):
    return 0 if s.ante_trimming_status else sum(eff_ante(s, i) for i in range(s.player_count))


def amount_of(p):
    return p.raked_amount + p.unraked_amount


def short_players_are_all_in(s):
    """a player still in the hand who has less in the pot than somebody else has nothing in front of him (he went
    all-in for less in an earlier round)"""
    c = net_collected(s)
    return all(not s.statuses[j] or s.bets[j] == 0 or all(c[i] <= c[j] for i in range(s.player_count))
               for j in range(s.player_count))


@contract(Q + 'pots', 'C02')
class pots:
    raises = {}

    def requires(s):
        return (E.config_ok(s) and E.nonneg(s) and E.payoff_is_stack_change(s) and E.open_pot_ok(s) and E.antes_in_pot(s)
                and s._pots is None and short_players_are_all_in(s))

    @P('C02', 'a player who folded, mucked or was killed contends for nothing')
    def contenders_are_live(s, r):
        return all(all(s.statuses[i] for i in p.player_indices) for p in tuple(r))

    @P('C02', 'a player still in the hand contends for exactly what he can win: from each opponent what he himself put in, no more '
              'and no less (hence: at least up to the level of every pot he is in, and nothing of the pots above it)')
    def live_player_contends_for_his_stake(s, r):
        ps = tuple(r)
        c, p, al = net_collected(s), net_pending(s), ante_layer(s)
        return all(not s.statuses[j]
                   or sum(amount_of(pt) for pt in ps if any(i == j for i in pt.player_indices)) == SP.stake(c, p, j, al)
                   for j in range(s.player_count))

    @P('C02', 'every chip that was wagered is in some pot')
    def pots_total_what_was_wagered(s, r):
        return sum(amount_of(pt) for pt in tuple(r)) == sum(collected(s, i) for i in range(s.player_count))


# ---- chips pushing ---------------------------------------------------------------------------------------------------
def frozen(s):
    """chips pushing is under way: pots frozen, contenders of every pot listed in position order and still in the hand"""
    showdown = sum(1 if x else 0 for x in s.statuses) > 1
    return (E.config_ok(s) and E.nonneg(s) and E.frozen_pots_ok(s) and E.runouts_ok(s) and s._pots is not None
            and all(all(s.statuses[i] for i in p.player_indices) for p in s._pots)
            and all(sub_pot_names_ok(s, sp, showdown) for sp in s._sub_pots))


def board_count_of(s):
    return s.starting_board_count * (s.runout_count if s.street_return_index is not None else 1)


def sub_pot_names_ok(s, sp, showdown):
    """a showdown sub-pot names a board and a hand type; a lone survivor's names neither"""
    if showdown:
        return sp[2] is not None and sp[3] is not None and 0 <= sp[2] < board_count_of(s) and 0 <= sp[3] < len(s.hand_types)
    return sp[2] is None and sp[3] is None


def up_hands(s, board, kind):
    return tuple(s.get_up_hand(i, board, kind) for i in range(s.player_count))


@contract(Q + 'push_chips', 'C02')
class push_chips:
    raises = {REFUSAL: None}

    def requires(s):
        return frozen(s)

    @P('C02', 'showdown: the sub-pot goes to the holder(s) of the strongest hand among the pot\'s contenders, ties sharing equally, '
              'odd chips to the earliest position; nobody else receives anything')
    def at_update_winners_paid(old, s):
        amount, k, board, kind = old._sub_pots[0]
        n = s.player_count
        live = sum(1 if x else 0 for x in old.statuses)
        return not (live > 1 and len(old._pots[k].player_indices) > 0) or all(
            s.bets[i] == old.bets[i] + SP.award(amount, up_hands(old, board, kind), tuple(old._pots[k].player_indices), n)[i]
            for i in range(n))

    @P('C02', 'a lone survivor takes everything')
    def at_update_lone_survivor_takes_it(old, s):
        amount, k, board, kind = old._sub_pots[0]
        n = s.player_count
        live = sum(1 if x else 0 for x in old.statuses)
        return implies(live == 1, all(s.bets[i] == old.bets[i] + (amount if old.statuses[i] else 0) for i in range(n)))

    @P('C02', 'pushing chips moves no stack and changes nobody\'s standing')
    def at_update_nothing_else_moves(old, s):
        n = s.player_count
        return all(s.stacks[i] == old.stacks[i] and s.statuses[i] == old.statuses[i] for i in range(n))

    at_call = {Q + '_update_chips_pushing': ['at_update_winners_paid', 'at_update_lone_survivor_takes_it', 'at_update_nothing_else_moves']}


@contract(Q + '_begin_chips_pushing', 'C02')
class begin_chips_pushing:
    raises = {}

    def requires(s):
        return (E.config_ok(s) and E.nonneg(s) and E.payoff_is_stack_change(s) and E.open_pot_ok(s) and E.antes_in_pot(s)
                and E.runouts_ok(s) and E.someone_live(s))

    def board_count(s):
        return s.starting_board_count * (s.runout_count if s.street_return_index is not None else 1)

    @P('C02', 'showdown: each pot is divided evenly between the boards (odd chips to the first), and each board\'s share evenly between '
              'the hand types in play FOR THAT POT on that board (odd chips to the first); a type no contender holds gets nothing')
    def at_update_pots_split_by_board_and_type(s):
        n = s.player_count
        live = sum(1 if x else 0 for x in s.statuses)
        b = begin_chips_pushing.board_count(s)
        T = len(s.hand_types)
        ok = True
        for k in range(len(s._pots)):
            pot = s._pots[k]
            shares = SP.divide(pot.unraked_amount, b)
            for j in range(b):
                hands = tuple(up_hands(s, j, t) for t in range(T))
                play = SP.types_in_play(hands, tuple(pot.player_indices))
                parts = SP.divide(shares[j], len(play)) if len(play) > 0 else ()
                for t in range(T):
                    want = sum(parts[x] for x in range(len(play)) if play[x] == t)
                    got = sum(sp[0] for sp in s._sub_pots if sp[1] == k and sp[2] == j and sp[3] == t)
                    ok = ok and got == want
        return implies(live > 1 and all(len(pt.player_indices) > 0 for pt in s._pots), ok)

    @P('C02', 'a lone survivor: every pot is pushed whole')
    def at_update_lone_survivor_whole_pots(s):
        live = sum(1 if x else 0 for x in s.statuses)
        return implies(live == 1, all(sum(sp[0] for sp in s._sub_pots if sp[1] == k and sp[2] is None and sp[3] is None)
                                      == s._pots[k].unraked_amount for k in range(len(s._pots))))

    @P('C02', 'each sub-pot names its pot, and -- at a showdown -- a board that exists and a hand type of the game')
    def at_update_sub_pots_well_named(s):
        showdown = sum(1 if x else 0 for x in s.statuses) > 1
        return all(0 <= sp[1] < len(s._pots) and sub_pot_names_ok(s, sp, showdown) for sp in s._sub_pots)

    at_call = {Q + '_update_chips_pushing': ['at_update_pots_split_by_board_and_type', 'at_update_lone_survivor_whole_pots',
                                             'at_update_sub_pots_well_named']}

"""C05 -- the hand made from hole and board cards is the best one the game allows.

`from_game` of every hand class is executed from its real source (the loops over
itertools.combinations, the try/except around the constructor, the running maximum with the
total_ordering comparison, the three-level super() chain of Omaha) on abstract distinct cards.
What a hand type accepts and how hands compare is abstract: `valid(S)` and `index(S)` are free
symbols per card set S (the facts about them are C04's); the comparison wrappers Hand.__lt__ /
__eq__ and the total_ordering derivations are the real ones.
"""
from pyvc.contract import contract, P, A
from pyvc.ghost import implies, iff
import spec.composition as SC


def hand_or_none(cls, cards):
    try:
        return cls(cards)
    except ValueError:
        return None


def candidates(cls, hole, board):
    """the candidate sets the statement allows for this class (the rule is chosen from the class's documented kind)"""
    kind = RULE[cls.__name__]
    if kind == 'any':
        return SC.any_five(hole, board, cls.card_count)
    if kind == 'greek':
        return SC.both_hole_plus_three_board(hole, board)
    if kind == 'omaha':
        return SC.two_hole_plus_three_board(hole, board)
    if kind == 'kuhn':
        return SC.single_cards(hole, board)
    raise ValueError(kind)


RULE = {
    'StandardHighHand': 'any', 'StandardLowHand': 'any', 'ShortDeckHoldemHand': 'any', 'EightOrBetterLowHand': 'any', 'RegularLowHand': 'any',
    'GreekHoldemHand': 'greek', 'OmahaHoldemHand': 'omaha', 'OmahaEightOrBetterLowHand': 'omaha',
    'BadugiHand': 'badugi', 'StandardBadugiHand': 'badugi', 'KuhnPokerHand': 'kuhn',
}


def cands(cls, hole, board):
    if RULE[cls.__name__] == 'badugi':
        return (SC.subsets_of_size(hole, board, 4) + SC.subsets_of_size(hole, board, 3) + SC.subsets_of_size(hole, board, 2)
                + SC.subsets_of_size(hole, board, 1))
    return candidates(cls, hole, board)


def legal(cls, c, cs):
    """c is a legal combination: a valid hand of the type -- and, in badugi, of the largest size that has a valid one"""
    if hand_or_none(cls, c) is None:
        return False
    if RULE[cls.__name__] == 'badugi':
        return not any(len(d) > len(c) and hand_or_none(cls, d) is not None for d in cs)
    return True


def weaker_or_missing(poorer, richer):
    """the hand from fewer cards is missing, or the hand from more cards exists and is not weaker"""
    return poorer is None or (richer is not None and not (richer < poorer))


def kuhn_requires(cls, hole, board):
    return all(hand_or_none(cls, c) is not None for c in SC.single_cards(hole, board))


class from_game_base:
    argnames = ('cls', 'hole_cards', 'board_cards')
    raises = {ValueError: 'no_legal_combination'}

    def no_legal_combination(cls, hole, board):
        cs = cands(cls, hole, board)
        return not any(legal(cls, c, cs) for c in cs)

    @P('C05', 'the evaluated hand is made of a combination the game allows')
    def is_an_allowed_combination(cls, hole, board, r):
        cs = cands(cls, hole, board)
        return any(tuple(r.cards) == tuple(c) and legal(cls, c, cs) for c in cs)

    @P('C05', 'no legal combination makes a stronger hand')
    def is_the_strongest(cls, hole, board, r):
        cs = cands(cls, hole, board)
        return all(not legal(cls, c, cs) or not (r < hand_or_none(cls, c)) for c in cs)


class from_game_or_none_base:
    argnames = ('cls', 'hole_cards', 'board_cards')
    raises = {}

    @P('C05', 'no hand is reported exactly when no legal combination exists; otherwise the best one')
    def none_iff_no_legal_combination(cls, hole, board, r):
        cs = cands(cls, hole, board)
        some = any(legal(cls, c, cs) for c in cs)
        return (r is not None) == some and (r is None or (
            any(tuple(r.cards) == tuple(c) and legal(cls, c, cs) for c in cs)
            and all(not legal(cls, c, cs) or not (r < hand_or_none(cls, c)) for c in cs)))


def _owner(cls, attr):
    """the class of the MRO that defines `attr` (the function whose real source is executed)"""
    for k in cls.__mro__:
        if attr in vars(k):
            return k.__name__
    raise AttributeError(attr)


import pokerkit.hands as _H

def _native_case(model, ob):
    """the counter-model speaks about abstract cards; search real deals from the type's deck for the same failure"""
    import importlib
    import random
    import pokerkit.hands as H
    from pokerkit.utilities import Deck
    name = model['args']['cls']['$class'].rsplit('.', 1)[1]
    cls = getattr(H, name)
    b = model.get('bindings') or {}
    h, bd = len(b['hole']['$tuple']), len(b['board']['$tuple'])
    lazy = '$iter' in model['args']['hole_cards']
    or_none = model['function'].endswith('from_game_or_none')
    deck = list({'ShortDeckHoldemHand': Deck.SHORT_DECK_HOLDEM, 'KuhnPokerHand': Deck.KUHN_POKER}.get(name, Deck.STANDARD))
    if h + bd > len(deck):
        return {'confirmed': None, 'detail': 'more cards than the deck holds'}
    rng = random.Random(0)
    clause_name = ob['meta']['clause'].rsplit('.', 1)[1]
    base = from_game_or_none_base if or_none else from_game_base
    for trial in range(4000):
        cs = rng.sample(deck, h + bd)
        hole, board = tuple(cs[:h]), tuple(cs[h:])
        args = (iter(hole), iter(board)) if lazy else (hole, board)
        r, exc = None, None
        try:
            r = (cls.from_game_or_none if or_none else cls.from_game)(*args)
        except ValueError as e:
            exc = e
        except Exception as e:       # noqa
            return {'confirmed': True, 'detail': f'{name} hole {hole} board {board}: raised {type(e).__name__}: {e}'}
        if ob['kind'] == 'raises':
            want = base.no_legal_combination(cls, hole, board)
            bad = want != (exc is not None)
        elif exc is not None:
            continue
        else:
            bad = not getattr(base, clause_name)(cls, hole, board, r)
        if bad:
            return {'confirmed': True, 'detail': f'{name}.{"from_game_or_none" if or_none else "from_game"}: hole {hole} board {board}'
                    f'{" (one-shot iterators)" if lazy else ""} -> {r!r} {("raised " + repr(exc)) if exc else ""}: clause {clause_name} is false'}
    return {'confirmed': None, 'detail': 'no real deal among 4000 random ones exhibits the failure of the abstract counter-model'}


from_game_base.native_case = staticmethod(_native_case)
from_game_or_none_base.native_case = staticmethod(_native_case)

CONTRACTS = {}
for _name in RULE:
    _c = getattr(_H, _name)
    _extra = {}
    if RULE[_name] == 'kuhn':
        # the statement's domain: cards drawn from the type's deck -- every card of the Kuhn deck (J, Q, K) is a hand
        _extra = {'requires': kuhn_requires, 'cover_raises': False}
    CONTRACTS[_name] = contract(f'pokerkit.hands.{_owner(_c, "from_game")}.from_game', 'C05')(type('FG_' + _name, (from_game_base,), dict(_extra)))
    CONTRACTS[_name + '?'] = contract(f'pokerkit.hands.{_owner(_c, "from_game_or_none")}.from_game_or_none', 'C05')(
        type('FGN_' + _name, (from_game_or_none_base,), dict(_extra)))
for _k in CONTRACTS.values():
    globals()[_k.__name__] = _k

"""The state invariant of the engine, as named components, and the contract table of the cascade.

A *component* is a predicate over the public fields of a `State` (no temporaries, no ghost state).
`BOUNDARY` is the list of components that hold between any two operations (at every entry and exit of
a public operation); the internal steps `_begin_X / _update_X / _end_X` run while the phase flags are
in transit, so their preconditions replace the boundary phase components by step-local ones.

Every component is (a) assumed where a contract names it as a precondition, (b) an obligation where a
contract names it as a postcondition or where a callee that requires it is called, and (c) evaluated
natively at the same points on real hands by the run-time guard (a component real states violate
would make the proofs vacuous: checker error).
"""

# ---- configuration (never written after construction; established by State.__post_init__ / Street.__post_init__) ----


def config_ok(s):
    return (s.player_count >= 2 and s.bring_in >= 0
            and all(s.antes[i] >= 0 and s.starting_stacks[i] > 0 for i in range(s.player_count))
            and all(st.min_completion_betting_or_raising_amount > 0 and st.board_dealing_count >= 0 for st in s.streets))


# ---- chips (C01) --------------------------------------------------------------------------------------------

def collected(s, i):
    """chips of player i that are in the pot(s): what left the stack and is not in front of the player"""
    return -s.payoffs[i] - s.bets[i]


def nonneg(s):
    """no stack and no bet is negative"""
    return all(s.stacks[i] >= 0 and s.bets[i] >= 0 for i in range(s.player_count))


def payoff_is_stack_change(s):
    """each player's reported payoff equals stack minus starting stack -- at every point, hence at the end"""
    return all(s.payoffs[i] == s.stacks[i] - s.starting_stacks[i] for i in range(s.player_count))


def open_pot_ok(s):
    """while the pots are not frozen, what each player has in the pot is not negative"""
    return s._pots is not None or all(collected(s, i) >= 0 for i in range(s.player_count))


def increasing(xs):
    """strictly increasing: the contenders of a pot are listed once each, in position order"""
    return all(xs[j] < xs[j + 1] for j in range(len(xs) - 1))


def frozen_pots_ok(s):
    """from chips pushing on: stacks + bets + what is left in the pots + the rake taken = starting stacks; no
    pot part is negative; the sub-pots still to be pushed are exactly what is left in the pots"""
    return s._pots is None or (
        sum(s.stacks) + sum(s.bets) + sum(p.unraked_amount + p.raked_amount for p in s._pots) == sum(s.starting_stacks)
        and all(p.unraked_amount >= 0 and p.raked_amount >= 0 for p in s._pots)
        and all(sp[0] >= 0 and 0 <= sp[1] < len(s._pots) for sp in s._sub_pots)
        and all(increasing(p.player_indices) for p in s._pots)
        and all(sum(sp[0] for sp in s._sub_pots if sp[1] == k) == s._pots[k].unraked_amount for k in range(len(s._pots))))


def over_ok(s):
    """when the hand is over nothing is left on the table and the payoffs sum to minus the rake"""
    return s.status or (
        s._pots is not None and all(s.bets[i] == 0 for i in range(s.player_count))
        and all(p.unraked_amount == 0 for p in s._pots)
        and sum(s.payoffs) == -sum(p.raked_amount for p in s._pots))


def eff_ante(s, i):
    """the ante player i owes (heads-up the button posts the first entry), at most his starting stack"""
    a = s.antes[1 - i] if s.player_count == 2 else s.antes[i]
    return a if a <= s.starting_stacks[i] else s.starting_stacks[i]


def antes_in_pot(s):
    """once the antes have been collected, every player has at least his ante in the pot (untrimmed antes are a
    separate layer of the pot: a contribution net of the ante is never negative)"""
    return s.ante_trimming_status or s._pots is not None or all(collected(s, i) >= eff_ante(s, i) for i in range(s.player_count))


def ante_facts(s):
    """until the antes are collected: nothing is in the pot, nobody has left, and a player has in front of him
    exactly his ante, or nothing while he is still to post it"""
    return (s.street_index is None and s._pots is None and all(s.statuses)
            and all(collected(s, i) == 0 and s.bets[i] == (0 if s.ante_posting_statuses[i] else eff_ante(s, i))
                    for i in range(s.player_count)))


def in_ante_stage(s):
    return p_ante(s) or (p_collect(s) and s.street_index is None)


def antes_staged(s):
    """boundary form: either the antes are still being posted / collected, or they are in the pot"""
    return ante_facts(s) if in_ante_stage(s) else antes_in_pot(s)


def collect_begin_ok(s):
    """bet collection begins either for the antes (before the first street) or after a betting round"""
    return ante_facts(s) if s.street_index is None else antes_in_pot(s)


def collect_step_ok(s):
    """step form for bet collection: pending -> as at a boundary; done or nothing to collect -> antes are in the pot
    (trivially so when nobody owes an ante and nothing was posted)"""
    return antes_staged(s) if p_collect(s) else (
        antes_in_pot(s) or (ante_facts(s) and all(s.bets[i] == 0 for i in range(s.player_count))))


def fresh_table(s):
    """before the first operation: nothing posted, nothing in the pot, everybody in"""
    return (s.street_index is None and s._pots is None and all(s.statuses)
            and all(collected(s, i) == 0 and s.bets[i] == 0 for i in range(s.player_count)))


def runouts_ok(s):
    """a chosen number of run-outs is positive, and further run-outs are scheduled only for a chosen number"""
    return (s.runout_count is None or s.runout_count >= 1) and (s.street_return_index is None or s.runout_count is not None)


CHIPS = ('config_ok', 'nonneg', 'payoff_is_stack_change', 'open_pot_ok', 'frozen_pots_ok', 'over_ok', 'runouts_ok')

# ---- phases (C07; C01 needs exclusivity to know that a finished hand stays finished) ---------------------------


def p_ante(s):
    return any(s.ante_posting_statuses)


def p_collect(s):
    return s.bet_collection_status


def p_blind(s):
    return any(s.blind_or_straddle_posting_statuses)


def p_deal(s):
    return (s.card_burning_status or any(len(q) > 0 for q in s.hole_dealing_statuses)
            or any(c != 0 for c in s.board_dealing_counts) or any(s.standing_pat_or_discarding_statuses))


def p_bet(s):
    return len(s.actor_indices) > 0


def p_show(s):
    return any(s.runout_count_selector_statuses) or len(s.showdown_indices) > 0


def p_kill(s):
    return any(s.hand_killing_statuses)


def p_push(s):
    return len(s._sub_pots) > 0


def p_pull(s):
    return any(s.chips_pulling_statuses)


def pending_count(s):
    return ((1 if p_ante(s) else 0) + (1 if p_collect(s) else 0) + (1 if p_blind(s) else 0) + (1 if p_deal(s) else 0)
            + (1 if p_bet(s) else 0) + (1 if p_show(s) else 0) + (1 if p_kill(s) else 0) + (1 if p_push(s) else 0)
            + (1 if p_pull(s) else 0))


def one_phase(s):
    """while the hand is not over exactly one phase is pending; when it is over none is"""
    return pending_count(s) == (1 if s.status else 0)


def none_pending(s):
    return s.status and pending_count(s) == 0


def only_ante(s):
    return s.status and pending_count(s) == (1 if p_ante(s) else 0)


def only_collect(s):
    return s.status and pending_count(s) == (1 if p_collect(s) else 0)


def only_blind(s):
    return s.status and pending_count(s) == (1 if p_blind(s) else 0)


def only_deal(s):
    return s.status and pending_count(s) == (1 if p_deal(s) else 0)


def only_bet(s):
    return s.status and pending_count(s) == (1 if p_bet(s) else 0)


def only_show(s):
    """the step after a showdown operation: either the regular showdown phase, or a voluntary show
    once the streets are over (then whatever phase is pending stays as it is)"""
    return one_phase(s) if s.street_index is None else (s.status and pending_count(s) == (1 if p_show(s) else 0))


def only_kill(s):
    return s.status and pending_count(s) == (1 if p_kill(s) else 0)


def only_push(s):
    return s.status and pending_count(s) == (1 if p_push(s) else 0)


def only_pull(s):
    return s.status and pending_count(s) == (1 if p_pull(s) else 0)


# frozen pots exist exactly from chips pushing on
def pots_frozen_late(s):
    """the pots are frozen only once the streets are over; sub-pots exist only for frozen pots"""
    return (s._pots is None or s.street_index is None) and (s._pots is not None or len(s._sub_pots) == 0) \
        and (s._pots is not None or not any(s.chips_pulling_statuses))


def pull_covers_bets(s):
    """while chips are being pulled, every player with chips in front is still to pull"""
    return not (s._pots is not None and len(s._sub_pots) == 0 and s.status) or \
        all(s.chips_pulling_statuses[i] or s.bets[i] == 0 for i in range(s.player_count))


def pots_are_frozen(s):
    return s._pots is not None


def pushed_not_pulling(s):
    """between the last push and the beginning of pulling (transient)"""
    return s._pots is not None and len(s._sub_pots) == 0


def phases_have_street(s):
    """cards are dealt, bets are made and hands are shown down only during a street"""
    return not (p_deal(s) or p_bet(s) or p_show(s)) or s.street_index is not None


def someone_live(s):
    """at least one player is in the hand"""
    return any(s.statuses)


def live_count(s):
    return sum(1 if x else 0 for x in s.statuses)


def bet_needs_two(s):
    """a betting round is on only between two or more players"""
    return not p_bet(s) or live_count(s) >= 2


def kill_spares_someone(s):
    """hand killing never takes the last hand: some live player is not marked"""
    return not p_kill(s) or any(s.statuses[i] and not s.hand_killing_statuses[i] for i in range(s.player_count))


def early(s):
    """a phase that precedes chips pushing is pending"""
    return p_ante(s) or p_collect(s) or p_blind(s) or p_deal(s) or p_bet(s) or p_show(s) or p_kill(s)


def early_phases_open_pots(s):
    """the pots are frozen only when chips pushing begins"""
    return s._pots is None or not early(s)


def pots_open(s):
    return s._pots is None


PHASE = ('one_phase', 'pots_frozen_late', 'early_phases_open_pots', 'pull_covers_bets', 'phases_have_street')
LIVE = ('someone_live', 'bet_needs_two', 'kill_spares_someone')
BOUNDARY = CHIPS + PHASE + LIVE + ('antes_staged',)


def step(only, early_step=True, pull_fact=True, antes='antes_in_pot'):
    """components holding on entry of an internal step, in place of the boundary phase components"""
    return (CHIPS + (only, 'pots_frozen_late', 'phases_have_street', 'someone_live', antes)
            + (('pots_open',) if early_step else ()) + (('pull_covers_bets',) if pull_fact else ()))


# function name -> (precondition components, postcondition components)
TABLE = {}
for _op in ('post_ante', 'collect_bets', 'post_blind_or_straddle', 'burn_card', 'deal_hole', 'deal_board',
            'stand_pat_or_discard', 'fold', 'check_or_call', 'post_bring_in', 'complete_bet_or_raise_to',
            'select_runout_count', 'show_or_muck_hole_cards', 'kill_hand', 'push_chips', 'pull_chips'):
    TABLE[_op] = (BOUNDARY, BOUNDARY)
for _ph, _only in (('ante_posting', 'only_ante'), ('bet_collection', 'only_collect'),
                   ('blind_or_straddle_posting', 'only_blind'), ('dealing', 'only_deal'), ('betting', 'only_bet'),
                   ('showdown', 'only_show'), ('hand_killing', 'only_kill')):
    TABLE['_begin_' + _ph] = (step('none_pending'), BOUNDARY)
    TABLE['_update_' + _ph] = (step(_only), BOUNDARY)
    TABLE['_end_' + _ph] = (step('none_pending'), BOUNDARY)
TABLE['_begin_ante_posting'] = (step('none_pending', antes='fresh_table'), BOUNDARY)
TABLE['_end_ante_posting'] = (step('none_pending', antes='ante_facts'), BOUNDARY)
TABLE['_update_ante_posting'] = (step('only_ante', antes='ante_facts'), BOUNDARY)
TABLE['_begin_bet_collection'] = (step('none_pending', antes='collect_begin_ok'), BOUNDARY)
TABLE['_update_bet_collection'] = (step('only_collect', antes='collect_step_ok'), BOUNDARY)
TABLE['_end_betting'] = (step('only_bet'), BOUNDARY)       # it clears the queue itself
TABLE['_update_showdown'] = (step('only_show', early_step=False, antes='antes_staged') + ('early_phases_open_pots', 'kill_spares_someone', 'bet_needs_two'), BOUNDARY)      # also reached by a voluntary show after the streets
TABLE['_update_hand_killing'] = (step('only_kill') + ('kill_spares_someone',), BOUNDARY)
TABLE['_begin_chips_pushing'] = (step('none_pending'), BOUNDARY)
TABLE['_update_chips_pushing'] = (step('only_push', early_step=False, pull_fact=False) + ('pots_are_frozen',), BOUNDARY)
TABLE['_end_chips_pushing'] = (step('none_pending', early_step=False, pull_fact=False) + ('pushed_not_pulling',), BOUNDARY)
TABLE['_begin_chips_pulling'] = (step('none_pending', early_step=False, pull_fact=False) + ('pushed_not_pulling',), BOUNDARY)
TABLE['_update_chips_pulling'] = (step('only_pull', early_step=False) + ('pushed_not_pulling',), BOUNDARY)
TABLE['_end_chips_pulling'] = (step('none_pending', early_step=False) + ('pushed_not_pulling',), BOUNDARY)
TABLE['_begin'] = (step('none_pending', antes='fresh_table'), BOUNDARY)

"""C12 -- automatic mucking and hand killing never cost a player chips he would have won.

The statement compares two runs (automatic vs. everybody tables his full hand); what contracts can
decide are the per-function lemmas from which it follows (the composition is a paper argument, see
DESIGN.md section 4, C12):

  (m1) State.can_win_now(i) is True  iff  on some board, for some hand type, for some pot, player i holds a
       hand and no contender of that pot shows (exposed cards only) a strictly better one;
  (m2) a hand evaluated from more cards is never weaker (hands.py, through the C05 contract);
  (m3) the default show/muck decision shows exactly when the players are all-in or the player can win now;
       in tournament mode an all-in or final showdown requires all hole cards to be shown;
  (m4) hand killing marks exactly the players still in the hand who cannot win now;
  (m5) removing a contender who does not hold the strongest hand changes neither the winners nor their shares.
"""
from pyvc.contract import contract, P, A, OptIndex, ArgSpec
from pyvc.ghost import implies, iff
import spec.pots as SP
import contracts.engine as E
from pokerkit.state import Mode
from pokerkit.utilities import Rank, Suit

Q = 'pokerkit.state.State.'
REFUSAL = (ValueError, UserWarning)


def board_count_of(s):
    return s.starting_board_count * (s.runout_count if s.street_return_index is not None else 1)


def base(s):
    return (E.config_ok(s) and E.nonneg(s) and E.payoff_is_stack_change(s) and E.open_pot_ok(s) and E.frozen_pots_ok(s)
            and E.antes_in_pot(s) and E.runouts_ok(s)
            and all(len(s.hole_cards[i]) == len(s.hole_card_statuses[i]) for i in range(s.player_count)))


def known_hole_cards(s, i):
    """the hole cards of player i that are known (an unknown card -- rank or suit missing -- is not a card anyone can use)"""
    return tuple(c for c in s.hole_cards[i] if known_card(c))


def shown_hole_cards(s, i):
    return tuple(s.hole_cards[i][k] for k in range(len(s.hole_cards[i])) if s.hole_card_statuses[i][k])


def known_card(c):
    return c.rank != Rank.UNKNOWN and c.suit != Suit.UNKNOWN


def hand_of(s, i, j, t):
    """the statement's "his hand": the best hand of type t that player i, if still in, makes from his KNOWN hole cards and board j"""
    if not s.statuses[i]:
        return None
    return s.hand_types[t].from_game_or_none(known_hole_cards(s, i), s.get_board_cards(j))


def shown_hand_of(s, i, j, t):
    """what the table can see: the same from the cards he has face up"""
    if not s.statuses[i]:
        return None
    return s.hand_types[t].from_game_or_none(shown_hole_cards(s, i), s.get_board_cards(j))


def can_win(s, i):
    """the statement's condition, over the engine's own queries for hands (their contracts: get_hand / get_up_hand below) and pots"""
    n = s.player_count
    return any(s.get_hand(i, j, t) is not None
               and all(not any(k == c for c in p.player_indices) or s.get_up_hand(k, j, t) is None
                       or not (s.get_hand(i, j, t) < s.get_up_hand(k, j, t)) for k in range(n))
               for j in range(board_count_of(s)) for t in range(len(s.hand_types)) for p in s.pots)


@contract(Q + 'get_hand', 'C12')
class get_hand:
    args = {'player_index': ArgSpec(kind='index'), 'board_index': ArgSpec(kind='const', value=0), 'hand_type_index': ArgSpec(kind='const', value=0)}
    argnames = ('player_index', 'board_index', 'hand_type_index')
    raises = {}

    def requires(s):
        return base(s)

    @P('C12', '(m0) the hand the engine judges a player by is the best hand from his known hole cards and the board -- a card he keeps face '
              'down or that is unknown takes nothing away from the cards he has')
    def is_the_hand_from_the_known_cards(s, player_index, board_index, hand_type_index, r):
        want = hand_of(s, player_index, board_index, hand_type_index)
        return (r is None) == (want is None) and (r is None or r == want)


@contract(Q + 'get_up_hand', 'C12')
class get_up_hand:
    args = {'player_index': ArgSpec(kind='index'), 'board_index': ArgSpec(kind='const', value=0), 'hand_type_index': ArgSpec(kind='const', value=0)}
    argnames = ('player_index', 'board_index', 'hand_type_index')
    raises = {}

    def requires(s):
        return base(s)

    @P('C12', '(m0) the hand the others are judged against is the best hand from the cards the player has face up and the board')
    def is_the_hand_from_the_shown_cards(s, player_index, board_index, hand_type_index, r):
        want = shown_hand_of(s, player_index, board_index, hand_type_index)
        return (r is None) == (want is None) and (r is None or r == want)


@contract(Q + 'can_win_now', 'C12')
class can_win_now:
    args = {'player_index': ArgSpec(kind='index')}
    argnames = ('player_index',)
    raises = {}

    def requires(s):
        return base(s)

    @P('C12', '(m1) a hand cannot win now only if, on every board, for every hand type and every pot, it is no hand or some contender '
              'already shows a strictly better one')
    def is_the_statement_condition(s, player_index, r):
        return r == can_win(s, player_index)


@contract(Q + 'verify_hole_cards_showing_or_mucking', 'C12')
class verify_showing:
    args = {'status_or_hole_cards': ArgSpec(kind='status_or_cards', cap=2), 'player_index': OptIndex()}
    argnames = ('status_or_hole_cards', 'player_index')
    raises = {REFUSAL: None}

    def requires(s):
        return base(s) and (s.street_index is None or 0 <= s.street_index < len(s.streets))

    @P('C12', '(m3) left to the engine, a hand that can win is always shown (and every hand when the players are all-in); it is mucked '
              'only if it cannot win any part of any pot')
    def default_shows_iff_all_in_or_can_win(s, status_or_hole_cards, r):
        status, cards, hole_cards, facings, i = r
        return implies(status_or_hole_cards is None, status == (s.all_in_status or s.can_win_now(i)))

    @P('C12', '(m3) in tournament mode an all-in or final showdown requires all hole cards to be shown: an accepted show tables every card')
    def tournament_showdowns_table_all_cards(s, r):
        status, cards, hole_cards, facings, i = r
        last = s.street_index is not None and s.street_index == len(s.streets) - 1
        return implies(s.mode == Mode.TOURNAMENT and status and (s.all_in_status or last or s.street_index is None),
                       len(cards) == len(s.hole_cards[i]) and all(c.rank.value != '?' and c.suit.value != '?' for c in cards)
                       and all(facings))


@contract(Q + '_begin_hand_killing', 'C12')
class begin_hand_killing:
    raises = {}

    def requires(s):
        return base(s) and not any(s.hand_killing_statuses)

    @P('C12', '(m4) a hand is killed automatically only if it cannot win any part of any pot: exactly the players still in the hand who '
              'cannot win now are marked')
    def at_update_marks_exactly_those_who_cannot_win(old, s):
        return all(s.hand_killing_statuses[i] == (old.statuses[i] and not old.can_win_now(i)) for i in range(s.player_count))

    at_call = {Q + '_update_hand_killing': ['at_update_marks_exactly_those_who_cannot_win']}


# ---- (m5): a lemma about the awarding rule of spec/pots.py (no engine code: the rule itself) ---------------------------------------
def award_ignores_losers(amount, hands, contenders, k, n):
    """`k` is a contender who does not hold the strongest hand among the contenders"""
    others = tuple(i for i in contenders if i != k)
    return SP.award(amount, hands, contenders, n) == SP.award(amount, hands, others, n)

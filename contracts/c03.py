"""C03 -- betting follows the rules: whose turn, which actions, which amounts.

Clause texts come from the property statement through spec/betting.py (pure functions over explicit
vectors).  The bookkeeping fields of the engine play the role of the history:

  completion_betting_or_raising_amount   the largest bet/raise so far in this round   (0 at the start; max-updated)
  completion_betting_or_raising_count    the number of bets/raises so far             (0 at the start; +1 each)
  consecutive_all_in_..._amounts         the all-in raises since the last raise by a player with chips left
  acted_player_indices                   the players who have acted since the last full raise

-- `_begin_betting` resets them and `complete_bet_or_raise_to`, `check_or_call`, `fold`, `post_bring_in`
update them exactly as this reading demands (clauses below), so by induction over the round they ARE
that history; the admissibility clauses are then stated over them.
"""
from pyvc.contract import contract, P, A, OptChips, ArgSpec
from pyvc.ghost import implies, iff, state_equal
import spec.betting as B
import contracts.engine as E

Q = 'pokerkit.state.State.'
REFUSAL = (ValueError, UserWarning)


def structure_name(s):
    return s.betting_structure.value.lower()


def vec(xs, n):
    return tuple(xs[i] for i in range(n))


def live(s):
    return vec(s.statuses, s.player_count)


def stack(s):
    return vec(s.stacks, s.player_count)


def bet(s):
    return vec(s.bets, s.player_count)


def actor(s):
    return s.actor_indices[0]


def street_min(s):
    return s.streets[s.street_index].min_completion_betting_or_raising_amount


def cap(s):
    return s.streets[s.street_index].max_completion_betting_or_raising_count


def betting_ok(s):
    """the queue holds distinct players who are in the hand and have chips; the round has a street; with the
    chips facts of C01"""
    n = s.player_count
    q = s.actor_indices
    return (E.config_ok(s) and E.nonneg(s) and s.street_index is not None and s._pots is None
            and all(s.statuses[i] and s.stacks[i] > 0 for i in q)
            and all(q[j] != q[k] for j in range(len(q)) for k in range(len(q)) if j < k)
            and sum(1 if x else 0 for x in s.statuses) >= 2
            and s.completion_betting_or_raising_amount >= 0)


def table_ok(s):
    """betting_ok without the queue facts (get_effective_stack is also used while the queue is being built)"""
    return (E.config_ok(s) and E.nonneg(s) and s.street_index is not None
            and sum(1 if x else 0 for x in s.statuses) >= 2)


class Base:
    def requires(s):
        return betting_ok(s)


# ---- amounts ----------------------------------------------------------------------------------------------------
@contract(Q + 'get_effective_stack', 'C03')
class get_effective_stack(Base):
    args = {'player_index': ArgSpec(kind='index')}
    argnames = ('player_index',)
    raises = {}

    def requires(s):
        return table_ok(s)

    @P('C03', 'effective stack: the stack, limited by what the second largest live total can call')
    def is_the_spec_effective_stack(s, player_index, r):
        return r == (B.effective_stack(live(s), stack(s), bet(s), player_index) if s.statuses[player_index] else 0)


@contract(Q + 'checking_or_calling_amount', 'C03')
class checking_or_calling_amount(Base):
    raises = {}

    @P('C03', 'a check/call costs min(stack, amount to match); there is none when nobody is to act or a bring-in is due')
    def is_min_of_stack_and_amount_to_match(s, r):
        return (r is None) if (len(s.actor_indices) == 0 or s.bring_in_status) else r == B.call_amount(stack(s), bet(s), actor(s))


@contract(Q + 'effective_bring_in_amount', 'C03')
class effective_bring_in_amount(Base):
    raises = {}

    @P('C03', 'the bring-in is posted for min(stack, bring-in), exactly while it is due')
    def is_min_of_stack_and_bring_in(s, r):
        return (r is None) if (len(s.actor_indices) == 0 or not s.bring_in_status) else r == B.bring_in_amount(stack(s), s.bring_in, actor(s))


def may_raise(s):
    return len(s.actor_indices) > 0 and not B.raise_refused(
        live(s), stack(s), bet(s), actor(s), s.completion_betting_or_raising_count, cap(s), s.completion_betting_or_raising_amount,
        tuple(s.consecutive_all_in_completion_betting_or_raising_amounts), actor(s) in s.acted_player_indices)


@contract(Q + 'min_completion_betting_or_raising_to_amount', 'C03')
class min_amount(Base):
    raises = {}

    @P('C03', 'minimum: the larger of the street minimum and the largest raise so far on top of the bet to match, or all-in for less')
    def is_the_spec_minimum(s, r):
        return (r is None) if not may_raise(s) else r == B.min_raise_to(
            live(s), stack(s), bet(s), actor(s), street_min(s), s.completion_betting_or_raising_amount, s.completion_status)


@contract(Q + 'pot_completion_betting_or_raising_to_amount', 'C03')
class pot_amount(Base):
    raises = {}

    def requires(s):
        return betting_ok(s) and E.payoff_is_stack_change(s) and E.open_pot_ok(s) and E.antes_in_pot(s)

    @P('C03', 'the pot-sized raise')
    def is_the_spec_pot_raise(s, r):
        return (r is None) if not may_raise(s) else r == B.pot_raise_to(
            live(s), stack(s), bet(s), actor(s), street_min(s), s.completion_betting_or_raising_amount, s.completion_status,
            s.total_pot_amount)


@contract(Q + 'max_completion_betting_or_raising_to_amount', 'C03')
class max_amount(Base):
    raises = {}

    def requires(s):
        return betting_ok(s) and E.payoff_is_stack_change(s) and E.open_pot_ok(s) and E.antes_in_pot(s)

    @P('C03', 'maximum: the stack in no-limit, the pot-sized raise in pot-limit, exactly the minimum in fixed-limit')
    def is_the_spec_maximum(s, r):
        return (r is None) if not may_raise(s) else r == B.max_raise_to(
            structure_name(s), live(s), stack(s), bet(s), actor(s), street_min(s), s.completion_betting_or_raising_amount,
            s.completion_status, s.total_pot_amount)


# ---- admissibility -------------------------------------------------------------------------------------------------
@contract(Q + 'verify_folding', 'C03')
class verify_folding(Base):
    raises = {ValueError: 'refused', UserWarning: 'warned'}

    def unfaced(s):
        return s.bets[actor(s)] >= max(bet(s))

    def refused(s):
        return (len(s.actor_indices) == 0 or s.bring_in_status
                or (s.bets[actor(s)] >= max(bet(s)) and s.mode.value == 'Tournament'))

    def warned(s, warnings_are_errors):
        return (len(s.actor_indices) > 0 and not s.bring_in_status and s.bets[actor(s)] >= max(bet(s))
                and s.mode.value != 'Tournament' and warnings_are_errors)


@contract(Q + 'verify_checking_or_calling', 'C03')
class verify_checking_or_calling(Base):
    raises = {ValueError: 'refused'}

    def refused(s):
        return len(s.actor_indices) == 0 or s.bring_in_status


@contract(Q + 'verify_bring_in_posting', 'C03')
class verify_bring_in_posting(Base):
    raises = {ValueError: 'refused'}

    def refused(s):
        return len(s.actor_indices) == 0 or not s.bring_in_status


@contract(Q + '_verify_completion_betting_or_raising', 'C03')
class verify_raising(Base):
    raises = {ValueError: 'refused'}

    def refused(s):
        return not may_raise(s)


@contract(Q + 'verify_completion_betting_or_raising_to', 'C03')
class verify_raise_to(Base):
    args = {'amount': OptChips()}
    argnames = ('amount',)
    raises = {ValueError: 'refused'}

    def requires(s):
        return betting_ok(s) and E.payoff_is_stack_change(s) and E.open_pot_ok(s) and E.antes_in_pot(s)

    def refused(s, amount):
        if not may_raise(s):
            return True
        lo = B.min_raise_to(live(s), stack(s), bet(s), actor(s), street_min(s), s.completion_betting_or_raising_amount, s.completion_status)
        hi = B.max_raise_to(structure_name(s), live(s), stack(s), bet(s), actor(s), street_min(s),
                            s.completion_betting_or_raising_amount, s.completion_status, s.total_pot_amount)
        return amount is not None and not (lo <= amount <= hi)

    @P('C03', 'no amount given means the minimum')
    def default_is_the_minimum(s, amount, r):
        return r == (amount if amount is not None else B.min_raise_to(
            live(s), stack(s), bet(s), actor(s), street_min(s), s.completion_betting_or_raising_amount, s.completion_status))


# ---- operations: what changes, checked when the operation hands over to `_update_betting` ---------------------------
def others_untouched(old, s, a):
    n = s.player_count
    return all(s.bets[i] == old.bets[i] and s.stacks[i] == old.stacks[i] and s.statuses[i] == old.statuses[i]
               for i in range(n) if i != a)


def popped(old, s):
    """the actor has left the front of the queue, the others keep their order"""
    return tuple(s.actor_indices) == tuple(old.actor_indices)[1:]


def bookkeeping_unchanged(old, s):
    return (s.completion_betting_or_raising_amount == old.completion_betting_or_raising_amount
            and s.completion_betting_or_raising_count == old.completion_betting_or_raising_count
            and tuple(s.consecutive_all_in_completion_betting_or_raising_amounts)
            == tuple(old.consecutive_all_in_completion_betting_or_raising_amounts)
            and s.completion_status == old.completion_status)


class OpBase(Base):
    raises = {REFUSAL: None}


@contract(Q + 'check_or_call', 'C03')
class check_or_call(OpBase):
    @P('C03', 'check/call: the actor puts in min(stack, amount to match); turn passes to the next in the queue; he counts as having acted')
    def at_update_call_moves_the_call_amount(old, s):
        a = old.actor_indices[0]
        amt = B.call_amount(stack(old), bet(old), a)
        return (s.bets[a] == old.bets[a] + amt and s.stacks[a] == old.stacks[a] - amt and s.statuses[a]
                and others_untouched(old, s, a) and popped(old, s) and bookkeeping_unchanged(old, s)
                and s.bring_in_status == old.bring_in_status
                and all((i in s.acted_player_indices) == (i == a or i in old.acted_player_indices) for i in range(s.player_count)))

    at_call = {Q + '_update_betting': ['at_update_call_moves_the_call_amount']}


@contract(Q + 'fold', 'C03')
class fold(OpBase):
    @P('C03', 'fold: the actor leaves the hand, no chips move; turn passes to the next in the queue')
    def at_update_actor_is_out(old, s):
        a = old.actor_indices[0]
        return (not s.statuses[a] and s.bets[a] == old.bets[a] and s.stacks[a] == old.stacks[a]
                and others_untouched(old, s, a) and popped(old, s) and bookkeeping_unchanged(old, s)
                and s.bring_in_status == old.bring_in_status)

    at_call = {Q + '_update_betting': ['at_update_actor_is_out']}


@contract(Q + 'post_bring_in', 'C03')
class post_bring_in(OpBase):
    @P('C03', 'bring-in: posted first, for min(stack, bring-in); it may still be completed; turn passes on')
    def at_update_bring_in_posted(old, s):
        a = old.actor_indices[0]
        amt = B.bring_in_amount(stack(old), old.bring_in, a)
        return (s.bets[a] == old.bets[a] + amt and s.stacks[a] == old.stacks[a] - amt and s.statuses[a]
                and others_untouched(old, s, a) and popped(old, s) and not s.bring_in_status
                and s.completion_status == old.completion_status
                and s.completion_betting_or_raising_amount == old.completion_betting_or_raising_amount
                and s.completion_betting_or_raising_count == old.completion_betting_or_raising_count)

    at_call = {Q + '_update_betting': ['at_update_bring_in_posted']}


@contract(Q + 'complete_bet_or_raise_to', 'C03')
class complete_bet_or_raise_to(OpBase):
    args = {'amount': OptChips()}
    argnames = ('amount',)

    def requires(s):
        return betting_ok(s) and E.payoff_is_stack_change(s) and E.open_pot_ok(s) and E.antes_in_pot(s)

    @P('C03', 'the raiser\'s bet becomes the amount, paid from his stack; nobody else is touched')
    def at_update_bet_is_the_amount(old, s, op):
        a = old.actor_indices[0]
        return (s.bets[a] == op.amount and s.stacks[a] == old.stacks[a] - (op.amount - old.bets[a]) and s.statuses[a]
                and others_untouched(old, s, a) and op.player_index == a)

    @P('C03', 'action re-opens clockwise from the raiser for everyone else who is in the hand and not all-in')
    def at_update_queue_reopens_clockwise(old, s):
        a = old.actor_indices[0]
        return tuple(s.actor_indices) == B.queue_after_raise(live(s), stack(s), a)

    @P('C03', 'history: the raise counts toward the cap; the largest raise so far is max-updated; the bring-in is settled')
    def at_update_history_counts_the_raise(old, s, op):
        inc = op.amount - max(bet(old))
        big = old.completion_betting_or_raising_amount
        return (s.completion_betting_or_raising_count == old.completion_betting_or_raising_count + 1
                and s.completion_betting_or_raising_amount == (inc if inc > big else big)
                and not s.bring_in_status and not s.completion_status)

    @P('C03', 'history: only a full raise re-opens the betting for those who have already acted; all-in raises are remembered '
              'until a player with chips left raises')
    def at_update_history_of_short_all_ins(old, s, op):
        a = old.actor_indices[0]
        inc = op.amount - max(bet(old))
        full = inc >= old.completion_betting_or_raising_amount
        n = s.player_count
        short_old = tuple(old.consecutive_all_in_completion_betting_or_raising_amounts)
        return (all((i in s.acted_player_indices) == (i == a or (not full and i in old.acted_player_indices)) for i in range(n))
                and tuple(s.consecutive_all_in_completion_betting_or_raising_amounts)
                == (() if s.stacks[a] > 0 else short_old + (inc,)))

    at_call = {Q + '_update_betting': ['at_update_bet_is_the_amount', 'at_update_queue_reopens_clockwise',
                                       'at_update_history_counts_the_raise', 'at_update_history_of_short_all_ins']}


# ---- the round: when it ends -------------------------------------------------------------------------------------
@contract(Q + '_update_betting', 'C03')
class update_betting(Base):
    args = {'status': ArgSpec(kind='bool')}
    argnames = ('operation', 'status')
    raises = {}

    def requires(s):
        return True

    @P('C03', 'a round ends only when nobody is left to respond or at most one player is left in the hand')
    def at_end_round_is_over(s, status):
        return len(s.actor_indices) == 0 or sum(1 if x else 0 for x in s.statuses) <= 1 or status

    @P('C03', 'while somebody is still to respond (and two or more players are in) the round goes on')
    def round_goes_on(old, s, status):
        return implies(len(old.actor_indices) > 0 and sum(1 if x else 0 for x in old.statuses) > 1 and not status,
                       tuple(s.actor_indices) == tuple(old.actor_indices))

    @P('C03', 'when nobody is left to respond, or at most one player is left in the hand, the round is over: the queue is emptied')
    def round_ends_when_over(old, s, status):
        return implies(len(old.actor_indices) == 0 or sum(1 if x else 0 for x in old.statuses) <= 1 or status,
                       len(s.actor_indices) == 0)

    at_call = {Q + '_end_betting': ['at_end_round_is_over']}


# ---- run-time guard: the precondition is true of real betting states ------------------------------------------------
def betting_ok_when_betting(s):
    return len(s.actor_indices) == 0 or betting_ok(s)


def table_ok_on_a_street(s):
    return s.street_index is None or sum(1 if x else 0 for x in s.statuses) < 2 or table_ok(s)


GUARD_TABLE = {name: (('betting_ok_when_betting',), ('betting_ok_when_betting',))
               for name in ('fold', 'check_or_call', 'post_bring_in', 'complete_bet_or_raise_to', 'verify_folding',
                            'verify_checking_or_calling', 'verify_bring_in_posting', 'verify_completion_betting_or_raising_to',
                            '_verify_completion_betting_or_raising')}
GUARD_TABLE['get_effective_stack'] = (('table_ok_on_a_street',), ())

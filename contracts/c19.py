"""C19 -- equivalent ways of writing chips mean the same thing; invalid layouts are rejected; the
default pot-division and rake helpers return parts that add up.

Clause texts come from the statement (spec/values.py); the helpers' contracts are exactly the ones
C01 assumes of `State.divmod` / `State.rake`.
"""
from pyvc.contract import contract, P, A, ArgSpec, Chips, Int, Bool
from spec.values import vector_of_number, vector_of_sequence, vector_of_mapping, invalid_layout


# ---- utilities.divmod -----------------------------------------------------------------------------------
@contract('pokerkit.utilities.divmod', 'C19')
class divmod_:
    args = {'dividend': Chips(), 'divisor': Int()}
    argnames = ('dividend', 'divisor')
    raises = {}
    label = 'D∞'

    def requires(dividend, divisor):
        return divisor > 0 and dividend >= 0

    @P('C19', 'the parts add up to the amount')
    def parts_add_up(dividend, divisor, r):
        return r[0] * divisor + r[1] == dividend

    @P('C19', 'integral chips: Python floor division, remainder in [0, divisor)')
    def remainder_small(dividend, divisor, r, integral):
        return (0 <= r[1] < divisor and r[0] >= 0) if integral else (r[1] == 0)


# ---- utilities.rake ---------------------------------------------------------------------------------------
class Fraction01(ArgSpec):
    kind = 'real'


class Cap(ArgSpec):
    kind = 'cap'


@contract('pokerkit.utilities.rake', 'C19')
class rake_:
    args = {'amount': Chips(), 'percentage': Fraction01(), 'cap': Cap(), 'no_flop_no_drop': Bool(), 'state': ArgSpec(kind='state')}
    argnames = ('amount', 'state', 'percentage', 'cap', 'no_flop_no_drop')
    raises = {ValueError: 'refused'}
    label = 'D∞'

    def requires(amount, cap):
        return amount >= 0 and cap >= 0

    def refused(percentage, no_flop_no_drop, state):
        return not (0 <= percentage <= 1) or (no_flop_no_drop and state is None)

    @P('C19', 'raked + unraked = amount')
    def parts_add_up(amount, r):
        return r[0] + r[1] == amount

    @P('C19', 'neither part is negative, the rake never exceeds the amount or the cap')
    def parts_in_range(amount, cap, r):
        return 0 <= r[0] <= amount and r[1] >= 0 and r[0] <= cap

    @P('C19', 'no flop, no drop: nothing is raked while no board card is out')
    def no_flop_no_drop_rule(amount, no_flop_no_drop, state, r):
        return not (no_flop_no_drop and not any(state.board_cards)) or (r[0] == 0 and r[1] == amount)


def _rake_native_case(model, ob):
    """the counter-model lives in the model of round() as "some integer within 1/2": CPython rounds ties to even, so the model's own
    amount need not be a failing input.  Search a grid of integer and Fraction amounts for a real one."""
    import fractions
    from pokerkit.utilities import rake
    clause = getattr(rake_, ob['meta']['clause'].rsplit('.', 1)[1])
    if ob['kind'] != 'P':
        return None
    for cap in (float('inf'), 3, 0):
        for pct in (0, 0.05, 0.1, 0.25, 0.5, 1, fractions.Fraction(1, 10), fractions.Fraction(1, 3)):
            for amount in list(range(0, 61)) + [fractions.Fraction(k, 2) for k in range(0, 41)]:
                try:
                    r = rake(amount, percentage=pct, cap=cap)
                except Exception as e:   # noqa
                    return {'confirmed': True, 'detail': f'rake({amount!r}, percentage={pct!r}, cap={cap!r}) raised {type(e).__name__}: {e}'}
                b = {'amount': amount, 'cap': cap, 'r': r, 'percentage': pct, 'no_flop_no_drop': False, 'state': None}
                import inspect
                f = clause.__func__ if isinstance(clause, staticmethod) else clause
                val = f(*[b[p_] for p_ in inspect.signature(f).parameters])
                if not val:
                    return {'confirmed': True, 'detail': f'rake({amount!r}, percentage={pct!r}, cap={cap!r}) = {r!r}: clause '
                                                         f'{ob["meta"]["clause"].rsplit(".", 1)[1]} is false'}
    return {'confirmed': None, 'detail': 'no failing input on the grid of amounts / percentages / caps'}


rake_.native_case = staticmethod(_rake_native_case)


# ---- utilities.clean_values --------------------------------------------------------------------------------
class CleanBase:
    raises = {}
    argnames = ('values', 'count')


@contract('pokerkit.utilities.clean_values', 'C19')
class clean_number(CleanBase):
    @P('C19', 'a single number means that amount for every player')
    def denotes_vector(values, count, r):
        return r == vector_of_number(values, count)


@contract('pokerkit.utilities.clean_values', 'C19')
class clean_sequence(CleanBase):
    @P('C19', 'a list / tuple means its first n entries, missing entries zero')
    def denotes_vector(values, count, r):
        return r == vector_of_sequence(tuple(values), count)


@contract('pokerkit.utilities.clean_values', 'C19')
class clean_mapping(CleanBase):
    def requires(values, count):
        return all(-count <= position < count for position, amount in values.items())

    @P('C19', 'a mapping: negative positions count from the button, equivalent positions add up, missing entries zero')
    def denotes_vector(values, count, r):
        return r == vector_of_mapping(tuple(values.items()), count)


# ---- State.__post_init__ validation --------------------------------------------------------------------------
@contract('pokerkit.state.State.__post_init__', 'C19')
class post_init:
    argnames = ('raw_antes', 'raw_blinds_or_straddles', 'raw_starting_stacks')
    raises = {ValueError: 'rejected'}

    def rejected(s, raw_antes, raw_blinds_or_straddles, raw_starting_stacks):
        streets_ok = len(s.streets) > 0 and len(s.streets[0].hole_dealing_statuses) > 0
        return invalid_layout(raw_antes, raw_blinds_or_straddles, raw_starting_stacks, s.bring_in, s.player_count,
                              s.streets[0].min_completion_betting_or_raising_amount if len(s.streets) > 0 else 0,
                              streets_ok, s.starting_board_count)

    @P('C19', 'the explicit per-player vectors are stored unchanged')
    def at_setup_vectors_stored(s, raw_antes, raw_blinds_or_straddles, raw_starting_stacks):
        return (s.antes == tuple(raw_antes) and s.blinds_or_straddles == tuple(raw_blinds_or_straddles)
                and s.starting_stacks == tuple(raw_starting_stacks))

    at_call = {'pokerkit.state.State._setup': ['at_setup_vectors_stored']}

"""C07 -- every hand runs to completion through the documented phases.

Additional invariant components, on top of contracts/engine.py (chips, phase exclusivity, live players),
needed to show that NO assertion, index error, division by zero or refusal can leave a function of the
cascade part-way: each phase's local facts.  TABLE07 extends engine.TABLE with them; a public operation
that the cascade calls on the players' behalf (automation) must find its own verifier satisfied
(`accepts_*` components at the call sites).
"""
from pokerkit.utilities import Rank, Suit
import contracts.engine as E
from contracts.engine import (collected, eff_ante, p_ante, p_collect, p_blind, p_deal, p_bet, p_show, p_kill, p_push, p_pull,
                              live_count)


def n_of(s):
    return s.player_count


# ---- configuration --------------------------------------------------------------------------------------------------------
def streets_deal_something(s):
    """every street is a valid Street: it deals hole cards, board cards or is a draw round (not hole cards and a draw)"""
    return (len(s.streets) >= 1 and len(s.streets[0].hole_dealing_statuses) > 0 and s.starting_board_count >= 1
            and all((len(st.hole_dealing_statuses) > 0 or st.board_dealing_count > 0 or st.draw_status)
                    and not (len(st.hole_dealing_statuses) > 0 and st.draw_status) for st in s.streets)
            and s.bring_in < s.streets[0].min_completion_betting_or_raising_amount
            and (s.bring_in == 0 or all(s.blinds_or_straddles[i] == 0 for i in range(s.player_count))))


def street_in_range(s):
    return s.street_index is None or 0 <= s.street_index < len(s.streets)


# ---- ante / blind stage ---------------------------------------------------------------------------------------------------
def eff_blind(s, i):
    """the blind, straddle or post seat i owes (heads-up the entries are posted by the other seat), at most what the ante left"""
    b = s.blinds_or_straddles[1 - i] if s.player_count == 2 else s.blinds_or_straddles[i]
    b = b if b >= 0 else -b
    left = s.starting_stacks[i] - eff_ante(s, i)
    return b if b <= left else left


def ante_pending_owes(s):
    """a player still to post an ante owes a positive one"""
    return all(not s.ante_posting_statuses[i] or eff_ante(s, i) > 0 for i in range(s.player_count))


def collect_has_bets(s):
    """bets are collected only when there is something to collect"""
    return not p_collect(s) or any(s.bets[i] != 0 for i in range(s.player_count))


def blind_facts(s):
    """while blinds are being posted: no street yet, everybody in, at most the ante in the pot, and in front of a player
    exactly the blind he owes -- or nothing while he is still to post it (then he owes a positive one)"""
    return not p_blind(s) or (
        s.street_index is None and s._pots is None and all(s.statuses)
        and all(0 <= collected(s, i) <= eff_ante(s, i)
                and s.bets[i] == (0 if s.blind_or_straddle_posting_statuses[i] else eff_blind(s, i))
                and (not s.blind_or_straddle_posting_statuses[i] or eff_blind(s, i) > 0)
                for i in range(s.player_count)))


def blind_stage_facts(s):
    """step form of blind_facts (the flags may all be down already)"""
    return (s.street_index is None and s._pots is None and all(s.statuses)
            and all(0 <= collected(s, i) <= eff_ante(s, i)
                    and s.bets[i] == (0 if s.blind_or_straddle_posting_statuses[i] else eff_blind(s, i))
                    and (not s.blind_or_straddle_posting_statuses[i] or eff_blind(s, i) > 0)
                    for i in range(s.player_count)))


def pre_street_pot(s):
    """before the first street nobody has left the hand and at most the antes are in the pot"""
    return s.street_index is not None or s._pots is not None or (
        all(s.statuses) and all(0 <= collected(s, i) <= eff_ante(s, i) for i in range(s.player_count)))


def street_bets_ok(s):
    """on a street, outside a betting round and its collection, what is in front of a player is his blind (while the first
    street is being dealt) or nothing"""
    if s.street_index is None or s._pots is not None or p_bet(s) or p_collect(s):
        return True
    return all((0 <= s.bets[i] <= eff_blind(s, i)) if (s.street_index == 0 and p_deal(s)) else s.bets[i] == 0 for i in range(s.player_count))


def bets_at_most_blinds(s):
    """step form of street_bets_ok for the steps that end the dealing of a street and begin its betting round"""
    return all((0 <= s.bets[i] <= eff_blind(s, i)) if s.street_index == 0 else s.bets[i] == 0 for i in range(s.player_count))


def deal_needs_two(s):
    """cards are dealt only while two or more players are in the hand"""
    return not p_deal(s) or live_count(s) >= 2


def board_rows_ok(s):
    """a row of board cards exists for every board position dealt so far: those of the earlier streets and those already
    dealt on this street to the board that is furthest ahead"""
    if s.street_index is None or not (0 <= s.street_index < len(s.streets)):
        return True
    cur = s.streets[s.street_index]
    earlier = sum(s.streets[k].board_dealing_count for k in range(len(s.streets)) if k < s.street_index)
    ahead = [cur.board_dealing_count - c for c in s.board_dealing_counts]
    most = max([a for a in ahead] + [0]) if p_deal(s) else (cur.board_dealing_count if not p_deal(s) and s.street_index is not None else 0)
    return len(s.board_cards) >= earlier + most


# ---- dealing ------------------------------------------------------------------------------------------------------------------
def deal_facts(s):
    """a burn is due only when something will be dealt after it; cards are owed only to players in the hand, counts are not
    negative; hole cards are owed only on a street that deals them or after a draw"""
    n = s.player_count
    cur = s.streets[s.street_index] if s.street_index is not None and 0 <= s.street_index < len(s.streets) else None
    return (all(c >= 0 for c in s.board_dealing_counts) and len(s.board_dealing_counts) == s.starting_board_count
            and all(s.statuses[i] or (len(s.hole_dealing_statuses[i]) == 0 and not s.standing_pat_or_discarding_statuses[i]) for i in range(n))
            and all(len(s.hole_cards[i]) == len(s.hole_card_statuses[i]) for i in range(n))
            and (not p_deal(s) or cur is not None)
            and (not s.card_burning_status or cur is None or any(len(q) > 0 for q in s.hole_dealing_statuses)
                 or any(c != 0 for c in s.board_dealing_counts) or cur.draw_status)
            and (not any(len(q) > 0 for q in s.hole_dealing_statuses) or cur is None or len(cur.hole_dealing_statuses) > 0 or cur.draw_status)
            and (not any(s.standing_pat_or_discarding_statuses) or cur is None or cur.draw_status))


# ---- betting --------------------------------------------------------------------------------------------------------------------
def bet_facts(s):
    """queued actors are distinct players in the hand with chips; a bring-in is due only at the very start of the first
    round of a bring-in game, with two or more players queued; while the bring-in can still be completed nobody has more
    than the bring-in in front; the history fields are sane"""
    q = s.actor_indices
    return (all(s.statuses[i] and s.stacks[i] > 0 for i in q)
            and all(q[j] != q[k] for j in range(len(q)) for k in range(len(q)) if j < k)
            and s.completion_betting_or_raising_amount >= 0 and s.completion_betting_or_raising_count >= 0
            and (not (s.completion_status and p_bet(s)) or (s.street_index == 0 and all(0 <= s.bets[i] <= s.bring_in for i in range(s.player_count))))
            and (not (s.bring_in_status and p_bet(s)) or (s.street_index == 0 and s.bring_in > 0 and s.completion_status and len(q) >= 2
                                          and all(s.bets[i] == 0 for i in range(s.player_count)))))


# ---- showdown / killing -------------------------------------------------------------------------------------------------------------
def show_facts(s):
    """players queued to show are distinct and in the hand; a showdown happens on the last
    street or when the players are all-in"""
    q = s.showdown_indices
    n = s.player_count
    return (all(s.statuses[i] for i in q) and all(q[j] != q[k] for j in range(len(q)) for k in range(len(q)) if j < k)
            and (not p_show(s) or s.street_index is None or s.all_in_status or s.street_index == len(s.streets) - 1)
            and (s.street_return_index is None or 0 < s.street_return_index <= len(s.streets))
            and (s.street_return_count == 0 or (s.street_return_index is not None and s.street_return_count > 0)))


def kill_facts(s):
    """only hands that are still in can be killed, and only while the last street is still current"""
    return all(not s.hand_killing_statuses[i] or s.statuses[i] for i in range(s.player_count)) and (not p_kill(s) or s.street_index is not None)


# ---- chips pushing --------------------------------------------------------------------------------------------------------------------
def known_card(c):
    return c.rank != Rank.UNKNOWN and c.suit != Suit.UNKNOWN


def dealable_count(s):
    """cards the engine can deal: the remaining deck and -- when it runs out -- the known burnt, mucked and discarded cards"""
    return (len(s.deck_cards) + sum(1 for x in s.burn_cards if known_card(x)) + sum(1 for x in s.mucked_cards if known_card(x))
            + sum(sum(1 for x in d if known_card(x)) for d in s.discarded_cards))


def board_count_of(s):
    return s.starting_board_count * (s.runout_count if s.street_return_index is not None else 1)


def push_facts(s):
    """frozen pots: every pot has a contender and its contenders are in the hand; a lone survivor contends for every pot;
    sub-pots name their pot and, at a showdown, a board and a hand type"""
    if s._pots is None:
        return True
    showdown = live_count(s) > 1
    return (all(all(s.statuses[i] for i in p.player_indices) for p in s._pots)
            and all(0 <= sp[1] < len(s._pots)
                    and ((sp[2] is not None and sp[3] is not None and 0 <= sp[2] < board_count_of(s) and 0 <= sp[3] < len(s.hand_types))
                         if showdown else (sp[2] is None and sp[3] is None)) for sp in s._sub_pots))


def pots_contended(s):
    """every frozen pot has at least one contender (the known finding F6b sits in this component: a side pot all of whose
    contenders folded without facing a bet, or mucked)"""
    return s._pots is None or all(len(p.player_indices) >= 1 for p in s._pots)


def showdown_hands_known(s):
    """hypothesis of the statement (hands reaching a showdown are known): at a showdown every pot has, on every board, a
    contender holding a hand of some type"""
    if s._pots is None or live_count(s) <= 1:
        return True
    return all(any(s.get_up_hand(i, j, t) is not None for i in p.player_indices for t in range(len(s.hand_types)))
               for p in s._pots for j in range(board_count_of(s)))


FLOW = ('streets_deal_something', 'street_in_range', 'ante_pending_owes', 'collect_has_bets', 'blind_facts', 'pre_street_pot', 'street_bets_ok', 'deal_needs_two',
        'deal_facts', 'board_rows_ok', 'bet_facts', 'show_facts', 'kill_facts', 'push_facts', 'pots_contended')


# ---- the verifier of an operation called by the cascade itself must accept (default arguments) --------------------------------
def accepts_post_ante(s):
    return p_ante(s)


def accepts_collect_bets(s):
    return p_collect(s)


def accepts_post_blind_or_straddle(s):
    return p_blind(s)


def accepts_burn_card(s):
    return s.card_burning_status and not any(s.standing_pat_or_discarding_statuses)


def accepts_deal_hole(s):
    return (not s.card_burning_status and any(len(q) > 0 for q in s.hole_dealing_statuses)
            and not any(s.standing_pat_or_discarding_statuses))


def accepts_deal_board(s):
    return not s.card_burning_status and any(c != 0 for c in s.board_dealing_counts) and not any(s.standing_pat_or_discarding_statuses)


def accepts_select_runout_count(s):
    return any(s.runout_count_selector_statuses)


def accepts_show_or_muck_hole_cards(s):
    return len(s.showdown_indices) > 0 and s.street_index is not None


def accepts_kill_hand(s):
    return p_kill(s)


def accepts_push_chips(s):
    return p_push(s)


def accepts_pull_chips(s):
    return p_pull(s)


ACCEPTS = {k[len('accepts_'):]: k for k in list(globals()) if k.startswith('accepts_')}

# ---- the table -----------------------------------------------------------------------------------------------------------------------------
TABLE07 = {}
for _fn, (_pre, _post) in E.TABLE.items():
    TABLE07[_fn] = (_pre + FLOW, _post + FLOW)
for _k in ('_update_betting', '_end_betting', '_begin_bet_collection', '_update_bet_collection', '_end_bet_collection',
           '_begin_chips_pushing', '_begin_dealing'):
    TABLE07[_k] = (tuple(c for c in TABLE07[_k][0] if c != 'street_bets_ok'), TABLE07[_k][1])
for _k in ('_update_dealing', '_end_dealing', '_begin_betting'):
    TABLE07[_k] = (tuple(c if c != 'street_bets_ok' else 'bets_at_most_blinds' for c in TABLE07[_k][0]), TABLE07[_k][1])
# preconditions that only some steps have
TABLE07['_begin_dealing'] = (TABLE07['_begin_dealing'][0] + ('next_street_exists',), TABLE07['_begin_dealing'][1])
TABLE07['_begin_betting'] = (TABLE07['_begin_betting'][0] + ('two_or_more_live', 'has_street'), TABLE07['_begin_betting'][1])
TABLE07['_update_betting'] = (TABLE07['_update_betting'][0] + ('has_street',), TABLE07['_update_betting'][1])
TABLE07['_end_betting'] = (TABLE07['_end_betting'][0] + ('has_street',), TABLE07['_end_betting'][1])
TABLE07['_begin_showdown'] = (TABLE07['_begin_showdown'][0] + ('has_street', 'showdown_is_due'), TABLE07['_begin_showdown'][1])
TABLE07['_end_showdown'] = (TABLE07['_end_showdown'][0] + ('has_street', 'showdown_is_due'), TABLE07['_end_showdown'][1])
TABLE07['_begin_hand_killing'] = (TABLE07['_begin_hand_killing'][0] + ('has_street',), TABLE07['_begin_hand_killing'][1])
for _k in ('_begin_blind_or_straddle_posting', '_update_blind_or_straddle_posting', '_end_blind_or_straddle_posting',
           '_begin_ante_posting', '_update_ante_posting', '_end_ante_posting'):
    TABLE07[_k] = (TABLE07[_k][0] + ('no_street_yet',), TABLE07[_k][1])
TABLE07['_begin_blind_or_straddle_posting'] = (TABLE07['_begin_blind_or_straddle_posting'][0] + ('no_bets_in_front',),
                                               TABLE07['_begin_blind_or_straddle_posting'][1])
for _k in ('_update_blind_or_straddle_posting', '_end_blind_or_straddle_posting'):
    TABLE07[_k] = (TABLE07[_k][0] + ('blind_stage_facts',), TABLE07[_k][1])
TABLE07['_end_bet_collection'] = (TABLE07['_end_bet_collection'][0] + ('bets_were_collected',), TABLE07['_end_bet_collection'][1])
TABLE07['_update_bet_collection'] = (TABLE07['_update_bet_collection'][0] + ('bets_were_collected',), TABLE07['_update_bet_collection'][1])
TABLE07['_update_showdown'] = (TABLE07['_update_showdown'][0] + ('showdown_due_or_late',), TABLE07['_update_showdown'][1])
TABLE07['_begin_dealing'] = (TABLE07['_begin_dealing'][0] + ('two_or_more_live', 'no_bets_unless_first_street'), TABLE07['_begin_dealing'][1])
TABLE07['_update_dealing'] = (TABLE07['_update_dealing'][0] + ('has_street', 'two_or_more_live'), TABLE07['_update_dealing'][1])
TABLE07['_end_dealing'] = (TABLE07['_end_dealing'][0] + ('has_street', 'two_or_more_live'), TABLE07['_end_dealing'][1])


def next_street_exists(s):
    return s.street_index is None or s.street_index + 1 < len(s.streets)


def two_or_more_live(s):
    return live_count(s) >= 2


def has_street(s):
    return s.street_index is not None and 0 <= s.street_index < len(s.streets)


def showdown_is_due(s):
    return s.all_in_status or s.street_index == len(s.streets) - 1


def no_street_yet(s):
    return s.street_index is None


def no_bets_in_front(s):
    return all(s.bets[i] == 0 for i in range(s.player_count))


def bets_were_collected(s):
    """once the collection is done nothing is left in front of anybody -- except the uncalled bet of a lone survivor"""
    return p_collect(s) or live_count(s) == 1 or all(s.bets[i] == 0 for i in range(s.player_count))


def showdown_due_or_late(s):
    return s.street_index is None or s.all_in_status or s.street_index == len(s.streets) - 1


def no_bets_unless_first_street(s):
    """dealing a street begins with nothing in front of anybody, except the blinds before the first street"""
    return all((0 <= s.bets[i] <= eff_blind(s, i)) if s.street_index is None else s.bets[i] == 0 for i in range(s.player_count))


# components that a function ASSUMES without its callers having to establish them (hypotheses of the statement, listed in
# the evidence as unchecked assumptions and evaluated natively by the guard)
ASSUMED = {'_begin_chips_pushing': ('showdown_hands_known',)}


# run-time guard: the boundary / step components (engine + flow) hold on real hands; the known findings F6a / F6b are not played
GUARD_TABLE = {k: (tuple(c for c in pre if c not in ('pots_contended',)), tuple(c for c in post if c not in ('pots_contended',)))
               for k, (pre, post) in TABLE07.items()}


# ---- C09: under automation set A every state between operations is A-quiescent ------------------------------------------------------
from pokerkit.state import Automation


def quiescent_but(s, skip):
    """no operation of an automated kind -- other than the kinds in `skip` -- is available: for each such kind its verifier
    (default arguments) would refuse"""
    kinds = ((Automation.ANTE_POSTING, accepts_post_ante), (Automation.BET_COLLECTION, accepts_collect_bets),
             (Automation.BLIND_OR_STRADDLE_POSTING, accepts_post_blind_or_straddle), (Automation.CARD_BURNING, accepts_burn_card),
             (Automation.HOLE_DEALING, accepts_deal_hole), (Automation.BOARD_DEALING, accepts_deal_board),
             (Automation.RUNOUT_COUNT_SELECTION, accepts_select_runout_count),
             (Automation.HOLE_CARDS_SHOWING_OR_MUCKING, accepts_show_or_muck_hole_cards), (Automation.HAND_KILLING, accepts_kill_hand),
             (Automation.CHIPS_PUSHING, accepts_push_chips), (Automation.CHIPS_PULLING, accepts_pull_chips))
    return all(any(k is x for x in skip) or k not in s.automations or not f(s) for k, f in kinds)


def quiescent(s):
    """the engine has performed every automated step `as soon as it became available`"""
    return quiescent_but(s, ())


def quiescent_but_ante(s):
    return quiescent_but(s, (Automation.ANTE_POSTING,))


def quiescent_but_blind(s):
    return quiescent_but(s, (Automation.BLIND_OR_STRADDLE_POSTING,))


def quiescent_but_dealing(s):
    return quiescent_but(s, (Automation.HOLE_DEALING, Automation.BOARD_DEALING))


def quiescent_but_showdown(s):
    return quiescent_but(s, (Automation.RUNOUT_COUNT_SELECTION, Automation.HOLE_CARDS_SHOWING_OR_MUCKING))


def quiescent_but_showing(s):
    return quiescent_but(s, (Automation.HOLE_CARDS_SHOWING_OR_MUCKING,))


def quiescent_but_kill(s):
    return quiescent_but(s, (Automation.HAND_KILLING,))


def quiescent_but_push(s):
    return quiescent_but(s, (Automation.CHIPS_PUSHING,))


def quiescent_but_pull(s):
    return quiescent_but(s, (Automation.CHIPS_PULLING,))


def quiescent_if_no_street(s):
    """a voluntary show once the streets are over happens between operations: nothing automated is pending then"""
    return s.street_index is not None or quiescent(s)


# loop invariants of the automation loops, in source order of the `while` statements of each step
LOOP_INV09 = {'_update_ante_posting': [('quiescent_but_ante',)], '_update_blind_or_straddle_posting': [('quiescent_but_blind',)],
              '_update_dealing': [('quiescent_but_dealing',)], '_update_showdown': [('quiescent_but_showdown',), ('quiescent_but_showing',)],
              '_update_hand_killing': [('quiescent_but_kill',)], '_update_chips_pushing': [('quiescent_but_push',)],
              '_update_chips_pulling': [('quiescent_but_pull',)]}

TABLE09 = {k: (pre, post + ('quiescent',)) for k, (pre, post) in TABLE07.items()}

for _k in ('show_or_muck_hole_cards', '_update_showdown'):
    TABLE09[_k] = (TABLE09[_k][0] + ('quiescent_if_no_street',), TABLE09[_k][1])

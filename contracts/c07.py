"""C07 contracts: the cascade contracts of contracts/flow.py:TABLE07 as contract classes (see contracts/c01.py for the scheme)."""
from pyvc.contract import contract, P, A, OptIndex, OptChips, OptInt, Cards, OptCardsOrInt, ArgSpec
import contracts.engine as E
import contracts.flow as F
from contracts.c01 import ARGS, Q, REFUSAL


class Comps:
    """all components, addressable as clauses by name"""


for _mod in (E, F):
    for _name, _f in list(vars(_mod).items()):
        if callable(_f) and getattr(_f, '__module__', None) == _mod.__name__ and _name not in ('step',):
            setattr(Comps, _name, staticmethod(_f))


class CascadeBase(Comps):
    raises = {REFUSAL: None}

    def requires(s, K):
        return all(f(s) for f in K.pre_funcs)


def _func(name):
    return getattr(F, name, None) or getattr(E, name)


CONTRACTS = {}
for _fn, (_pre, _post) in F.TABLE07.items():
    CONTRACTS[_fn] = contract(Q + _fn, 'C07')(type('K07_' + _fn, (CascadeBase,), {
        'args': dict(ARGS.get(_fn, [])), 'argnames': tuple(n for n, _ in ARGS.get(_fn, [])),
        'pre': _pre, 'post': _post, 'pre_funcs': tuple(_func(c) for c in _pre + F.ASSUMED.get(_fn, ()))}))
for _k in CONTRACTS.values():
    globals()[_k.__name__] = _k


@contract(Q + '__post_init__', 'C07')
class post_init(Comps):
    raises = {ValueError: None}
    argnames = ('raw_antes', 'raw_blinds_or_straddles', 'raw_starting_stacks')
    pre = ()
    post = E.BOUNDARY + F.FLOW
    pre_funcs = ()

    def requires(s):
        return all(st.min_completion_betting_or_raising_amount > 0 and st.board_dealing_count >= 0
                   and (len(st.hole_dealing_statuses) > 0 or st.board_dealing_count > 0 or st.draw_status)
                   and not (len(st.hole_dealing_statuses) > 0 and st.draw_status) for st in s.streets)


# ---- availability: while a hand is not over some operation is available; when it is over none is -----------------------------
def available_operations(s):
    """the sixteen yes/no queries of the engine with default arguments (and the explicit muck, which needs no cards to be
    known) -- the real can_* methods, executed from source"""
    return (s.can_post_ante(), s.can_collect_bets(), s.can_post_blind_or_straddle(), s.can_burn_card(), s.can_deal_hole(),
            s.can_deal_board(), s.can_stand_pat_or_discard(), s.can_fold(), s.can_check_or_call(), s.can_post_bring_in(),
            s.can_complete_bet_or_raise_to(), s.can_select_runout_count(), s.can_show_or_muck_hole_cards(),
            s.can_show_or_muck_hole_cards(False), s.can_kill_hand(), s.can_push_chips(), s.can_pull_chips())


@contract('contracts.c07.available_operations', 'C07')
class availability(Comps):
    raises = {}
    pre_funcs = tuple(_func(c) for c in E.BOUNDARY + F.FLOW)

    def requires(s, K):
        # hypothesis of the statement: the deck is large enough for the requested deal -- counting, as the documentation does, the
        # burnt, mucked and discarded cards that are reshuffled when the deck runs out
        return all(f(s) for f in K.pre_funcs) and (not E.p_deal(s) or (
            F.dealable_count(s) >= 1 and all(c <= F.dealable_count(s) for c in s.board_dealing_counts)))

    @P('C07', 'while a hand is not over at least one operation is available; when it is over none is')
    def some_operation_iff_not_over(s, r):
        return any(r) == s.status

    @P('C07', 'the available operations belong to the one pending phase')
    def available_operations_belong_to_the_phase(s, r):
        (ante, collect, blind, burn, hole, board, draw, fold, call, bring, raise_, select, show, muck, kill, push, pull) = r
        return ((not ante or E.p_ante(s)) and (not collect or E.p_collect(s)) and (not blind or E.p_blind(s))
                and (not (burn or hole or board or draw) or E.p_deal(s)) and (not (fold or call or bring or raise_) or E.p_bet(s))
                and (not (select or show or muck) or E.p_show(s)) and (not kill or E.p_kill(s)) and (not push or E.p_push(s))
                and (not pull or E.p_pull(s)))


# ---- order of the phases ---------------------------------------------------------------------------------------------------------
import spec.phases as PH


def live_n(s):
    return sum(1 if x else 0 for x in s.statuses)


@contract(Q + '_end_bet_collection', 'C07')
class order_after_collection(Comps):
    raises = {}
    pre_funcs = tuple(_func(c) for c in F.TABLE07['_end_bet_collection'][0])

    def requires(s, K):
        return all(f(s) for f in K.pre_funcs)

    def where_to(s):
        return PH.after_bet_collection(live_n(s) == 1, s.street_index is None,
                                       s.street_index is not None and s.street_index == len(s.streets) - 1, s.all_in_status)

    @P('C07', 'lone survivor -> chips pushing')
    def at_pushing(s):
        return order_after_collection.where_to(s) == 'chips_pushing'

    @P('C07', 'before the first street -> blinds and straddles')
    def at_blinds(s):
        return order_after_collection.where_to(s) == 'blind_or_straddle_posting'

    @P('C07', 'last street, or everybody all-in -> showdown')
    def at_showdown(s):
        return order_after_collection.where_to(s) == 'showdown'

    @P('C07', 'otherwise the next street is dealt')
    def at_dealing(s):
        return order_after_collection.where_to(s) == 'dealing'

    at_call = {Q + '_begin_chips_pushing': ['at_pushing'], Q + '_begin_blind_or_straddle_posting': ['at_blinds'],
               Q + '_begin_showdown': ['at_showdown'], Q + '_begin_dealing': ['at_dealing']}


@contract(Q + '_end_showdown', 'C07')
class order_after_showdown(Comps):
    raises = {}
    pre_funcs = tuple(_func(c) for c in F.TABLE07['_end_showdown'][0])

    def requires(s, K):
        return all(f(s) for f in K.pre_funcs)

    def where_to(s):
        return PH.after_showdown(s.all_in_status, s.street_index == len(s.streets) - 1, live_n(s) == 1)

    @P('C07', 'all-in before the last street with two or more players left -> the remaining streets are dealt')
    def at_dealing(s):
        return order_after_showdown.where_to(s) == 'dealing'

    @P('C07', 'otherwise -> hand killing')
    def at_killing(s):
        return order_after_showdown.where_to(s) == 'hand_killing'

    @P('C07', 'everybody else mucked -> the lone survivor takes the pots')
    def at_pushing(s):
        return order_after_showdown.where_to(s) == 'chips_pushing'

    at_call = {Q + '_begin_dealing': ['at_dealing'], Q + '_begin_hand_killing': ['at_killing'], Q + '_begin_chips_pushing': ['at_pushing']}


# ---- progress: every operation strictly reduces what is left to do in its phase ----------------------------------------------------
def cnt(xs):
    return sum(1 if x else 0 for x in xs)


def work_left(s, betting):
    """what is left to do, compared lexicographically: (draw decisions, chips behind -- during a betting round only --,
    items: flags up / cards due / queue lengths / sub-pots)"""
    draws = cnt(s.standing_pat_or_discarding_statuses)
    items = (cnt(s.ante_posting_statuses) + (1 if s.bet_collection_status else 0) + cnt(s.blind_or_straddle_posting_statuses)
             + (1 if s.card_burning_status else 0) + sum(len(q) for q in s.hole_dealing_statuses) + sum(c for c in s.board_dealing_counts)
             + len(s.actor_indices) + (1 if s.bring_in_status else 0)
             + cnt(s.runout_count_selector_statuses) + len(s.showdown_indices) + cnt(s.hand_killing_statuses) + len(s._sub_pots)
             + cnt(s.chips_pulling_statuses))
    return (draws, sum(s.stacks[i] for i in range(s.player_count)) if betting else 0, items)


def lex_less(a, b):
    return a[0] < b[0] or (a[0] == b[0] and (a[1] < b[1] or (a[1] == b[1] and a[2] < b[2])))


class ProgressBase(Comps):
    raises = {REFUSAL: None}

    def requires(s, K):
        return all(f(s) for f in K.pre_funcs)

    @P('C07', 'each legal operation makes progress: when it hands over to the phase step, strictly less is left to do (draw decisions, '
              'then chips behind, then flags / cards due / queue entries / sub-pots) -- a non-negative quantity')
    def at_update_less_is_left(old, s):
        betting = len(old.actor_indices) > 0
        a, b = work_left(s, betting), work_left(old, betting)
        # (a voluntary show once the streets are over is not part of any phase: it changes nothing that is pending)
        return old.street_index is None and len(old.showdown_indices) == 0 and not any(old.runout_count_selector_statuses) and \
            a == b or (lex_less(a, b) and a[0] >= 0 and a[1] >= 0 and a[2] >= 0)


# chips behind only ever go down between the first betting round and chips pushing: only operations of the betting phase and the
# forced bets move them, and they move them from the stacks into the pot
PROGRESS = {}
_UPDATE_OF = {'post_ante': '_update_ante_posting', 'collect_bets': '_update_bet_collection', 'post_blind_or_straddle': '_update_blind_or_straddle_posting',
              'burn_card': '_update_dealing', 'deal_hole': '_update_dealing', 'deal_board': '_update_dealing', 'stand_pat_or_discard': '_update_dealing',
              'fold': '_update_betting', 'check_or_call': '_update_betting', 'post_bring_in': '_update_betting',
              'complete_bet_or_raise_to': '_update_betting', 'select_runout_count': '_update_showdown', 'show_or_muck_hole_cards': '_update_showdown',
              'kill_hand': '_update_hand_killing', 'push_chips': '_update_chips_pushing', 'pull_chips': '_update_chips_pulling'}
for _op, _upd in _UPDATE_OF.items():
    PROGRESS[_op] = contract(Q + _op, 'C07')(type('PR_' + _op, (ProgressBase,), {
        'args': dict(ARGS.get(_op, [])), 'argnames': tuple(n for n, _ in ARGS.get(_op, [])),
        'pre_funcs': tuple(_func(c) for c in F.TABLE07[_op][0]), 'update': Q + _upd,
        'at_call': {Q + _upd: ['at_update_less_is_left']}}))
for _k in PROGRESS.values():
    globals()[_k.__name__] = _k

"""C13 -- the right player opens each betting round  (State._begin_betting).

Clause texts come from the statement through spec/opening.py.  The clauses are evaluated where
`_begin_betting` hands over to `_update_betting`: the opener is designated, the queue is built and the
history fields of the round are reset (the induction base of C03).
"""
from pyvc.contract import contract, P, A
from pyvc.ghost import implies, iff
import spec.opening as O
import spec.betting as B
import contracts.engine as E
from pokerkit.utilities import Rank, Suit
from pokerkit.state import Opening

Q = 'pokerkit.state.State.'
STANDARD = tuple(Rank(ch) for ch in '23456789TJQKA')      # deuce low, ace high: the bring-in of seven card stud
REGULAR = tuple(Rank(ch) for ch in 'A23456789TJQK')       # ace low: the bring-in of razz goes to the HIGHEST card
SUITS = tuple(Suit(ch) for ch in 'cdhs')                   # clubs < diamonds < hearts < spades


def rank_pos(card, order):
    return sum(k if card.rank == r else 0 for k, r in enumerate(order))


def suit_pos(card):
    return sum(k if card.suit == x else 0 for k, x in enumerate(SUITS))


def up_cards(s, i):
    return tuple(c for c, st in zip(s.hole_cards[i], s.hole_card_statuses[i]) if st)


def live(s):
    return tuple(s.statuses[i] for i in range(s.player_count))


def stack(s):
    return tuple(s.stacks[i] for i in range(s.player_count))


def bet(s):
    return tuple(s.bets[i] for i in range(s.player_count))


def eff(s):
    return tuple(B.effective_stack(live(s), stack(s), bet(s), i) if s.statuses[i] else 0 for i in range(s.player_count))


def known_card(c):
    return c.rank != Rank.UNKNOWN and c.suit != Suit.UNKNOWN


def round_can_begin(s):
    """what holds when dealing has just ended: a street is current, two or more players are in, chips facts;
    exposed cards are known and pairwise distinct (C06); the rows of cards and facings are aligned"""
    n = s.player_count
    ups = tuple(c for i in range(n) for c in up_cards(s, i))
    return (E.config_ok(s) and E.nonneg(s) and s.street_index is not None
            and sum(1 if x else 0 for x in s.statuses) >= 2
            and all(len(s.hole_cards[i]) == len(s.hole_card_statuses[i]) for i in range(n))
            and all(known_card(c) for c in ups)
            and all(not (ups[j].rank == ups[k].rank and ups[j].suit == ups[k].suit)
                    for j in range(len(ups)) for k in range(len(ups)) if j < k))


def blinds_in_front(s):
    """first round of a button game: what a seat has in front is the blind it owes (heads-up the entries are
    posted by the other seat), or less only when that took its last chip; the layout is a standard one: the
    blinds and straddles sit next to each other and do not decrease with the position, posts come after them"""
    n = s.player_count
    owed = tuple(abs(s.blinds_or_straddles[O.poster_seat(i, n)]) for i in range(n))     # poster_seat is an involution
    return (all(0 <= s.bets[i] <= owed[i] and (s.bets[i] == owed[i] or s.stacks[i] == 0) for i in range(n))
            and all(s.blinds_or_straddles[j] <= s.blinds_or_straddles[k] or s.blinds_or_straddles[k] <= 0
                    for j in range(n) for k in range(n) if O.poster_seat(j, n) < O.poster_seat(k, n))
            # the blinds and straddles sit next to each other (no seat without one between two of them)
            and all(not (s.blinds_or_straddles[j] > 0 and s.blinds_or_straddles[k] <= 0 and s.blinds_or_straddles[l] > 0)
                    for j in range(n) for k in range(n) for l in range(n)
                    if O.poster_seat(j, n) < O.poster_seat(k, n) and O.poster_seat(k, n) < O.poster_seat(l, n))
            # posts are made by players seated after the blinds and straddles
            and all(s.blinds_or_straddles[j] >= 0 or s.blinds_or_straddles[k] <= 0
                    for j in range(n) for k in range(n) if O.poster_seat(j, n) < O.poster_seat(k, n)))


@contract(Q + '_begin_betting', 'C13')
class begin_betting:
    raises = {}

    def requires(s):
        return round_can_begin(s) and (s.street_index != 0 or blinds_in_front(s)) and (s.street_index == 0 or all(
            s.bets[i] == 0 for i in range(s.player_count)))

    def opening(s):
        return s.streets[s.street_index].opening

    def last_blind_posted_nothing(s):
        """witness class of the known finding F10c: there is a blind or straddle, but its last seat has nothing in front"""
        n = s.player_count
        last = max([O.poster_seat(k, n) if s.blinds_or_straddles[k] > 0 else -1 for k in range(n)])
        return s.street_index == 0 and last >= 0 and s.bets[last] == 0

    @P('C13', 'button games: first round opened by the player after the last blind or straddle (small blind/button heads-up, posts '
              'not counting), later rounds by the first player after the button; an opener who cannot act passes the turn clockwise')
    def at_update_position_queue(s):
        n = s.player_count
        start = O.start_seat_button_game(s.blinds_or_straddles, n, s.street_index == 0)
        return implies(s.streets[s.street_index].opening == Opening.POSITION and not begin_betting.last_blind_posted_nothing(s),
                       tuple(s.actor_indices) == O.queue_from(live(s), stack(s), eff(s), start))

    @P('C13', 'the same, when the seat of the last blind or straddle could post nothing (known finding F10c sits in this clause)')
    def at_update_position_queue_last_blind_posted_nothing(s):
        n = s.player_count
        start = O.start_seat_button_game(s.blinds_or_straddles, n, s.street_index == 0)
        return implies(s.streets[s.street_index].opening == Opening.POSITION and begin_betting.last_blind_posted_nothing(s),
                       tuple(s.actor_indices) == O.queue_from(live(s), stack(s), eff(s), start))

    @P('C13', 'stud, first round: the lowest up-card opens (highest in razz), suits breaking ties')
    def at_update_stud_card_opener(s):
        n = s.player_count
        op = s.streets[s.street_index].opening
        low = tuple(tuple((rank_pos(c, STANDARD), suit_pos(c)) for c in up_cards(s, i)) for i in range(n))
        high = tuple(tuple((rank_pos(c, REGULAR), suit_pos(c)) for c in up_cards(s, i)) for i in range(n))
        return (implies(op == Opening.LOW_CARD and any(len(k) > 0 for k in low), s.opener_index == O.lowest_card_seat(low))
                and implies(op == Opening.HIGH_CARD and any(len(k) > 0 for k in high), s.opener_index == O.highest_card_seat(high)))

    @P('C13', 'stud, later rounds: the best exposed hand opens (lowest in razz), ties going to the earliest position')
    def at_update_stud_hand_opener(s):
        n = s.player_count
        op = s.streets[s.street_index].opening
        hi = tuple(s._State__high_hand_opening_lookup.get_entry_or_none(up_cards(s, i)) for i in range(n))
        lo = tuple(s._State__low_hand_opening_lookup.get_entry_or_none(up_cards(s, i)) for i in range(n))
        return (implies(op == Opening.HIGH_HAND and any(h is not None for h in hi), s.opener_index == O.best_hand_seat(hi, True))
                and implies(op == Opening.LOW_HAND and any(h is not None for h in lo), s.opener_index == O.best_hand_seat(lo, False)))

    @P('C13', 'whatever the opening rule: action starts with the designated opener, or clockwise with the first player after '
              'him who is still able to act')
    def at_update_queue_is_clockwise_from_opener(s):
        return s.opener_index is not None and tuple(s.actor_indices) == O.queue_from(live(s), stack(s), eff(s), s.opener_index)

    @P('C03', 'a new round starts with an empty history: no raise yet, nobody has acted; the bring-in is due exactly on the first '
              'street of a bring-in game')
    def at_update_history_is_reset(s):
        due = s.street_index == 0 and s.bring_in > 0
        return (s.completion_betting_or_raising_amount == 0 and s.completion_betting_or_raising_count == 0
                and len(s.consecutive_all_in_completion_betting_or_raising_amounts) == 0
                and not any(i in s.acted_player_indices for i in range(s.player_count))
                and s.bring_in_status == due and s.completion_status == due)

    @P('C13', 'no betting when only one player can act and nobody has more in front than he has')
    def at_update_lone_matched_actor_skips_the_round(s, call_status):
        q = tuple(s.actor_indices)
        return iff(call_status, len(q) == 1 and s.bets[q[0]] >= max(bet(s)))

    at_call = {Q + '_update_betting': ['at_update_position_queue', 'at_update_position_queue_last_blind_posted_nothing', 'at_update_stud_card_opener', 'at_update_stud_hand_opener',
                                       'at_update_queue_is_clockwise_from_opener', 'at_update_history_is_reset',
                                       'at_update_lone_matched_actor_skips_the_round']}
